"""C19 - objects are independent, sequentially and across threads; inputs are never mutated.

Four exhaustive parts (DESIGN.md C19):
 1. sequential interleavings of two 3-step programs on two live objects sharing a native module
    (all 20 interleavings, with a third object created/destroyed between any two steps); copy()
    independence histories to depth 5;
 2. caller-owned arguments are bit-identical after every call of a fixed API list;
 3. Python-level schedules: concurrent first use of each curve by 2-3 real threads under a baton
    scheduler, all schedules with <= 2 preemptions;
 4. native-level schedules: the C sources compiled with -fsanitize=thread run against a callback shim
    (mc/native/vsched.c): shared read/write sets per workload, and where two threads conflict, all
    schedules with <= 2 preemptions at the conflicting accesses.
"""
import gc
import itertools
import json
import os
import subprocess
import sys
import tempfile
import threading

from ..common import Acc, short, seeded, chunks
from ..explore import pysched

LEVEL = "model_checking"
RULE = ("part 1: all C(6,3)=20 interleavings x 7 third-object positions per object pair, and all copy histories to depth 5; "
        "part 3: all thread schedules with <=2 preemptions (scheduling points: lines of the curve registry and its lock); "
        "part 4: per native workload the measured shared read/write sets, and all schedules with <=2 preemptions at "
        "conflicting accesses (or the single Mazurkiewicz representative when there is no conflict); "
        "states = scheduling points / history nodes visited, transitions = steps executed, traces = complete executions")
BUDGET = {"quick": 240, "thorough": 2400}

K16 = [bytes(range(16)), bytes(range(50, 66))]
K24 = [bytes(range(1, 25)), bytes(range(60, 84))]
K32 = [bytes(range(32)), bytes(range(70, 102))]
D = [bytes(range(0, 16)), bytes(range(16, 48)), bytes(range(48, 64))]
D2 = [bytes(range(100, 116)), bytes(range(116, 148)), bytes(range(148, 164))]
# long pieces: past the native 8-block batches, several hash blocks / sponge rates, and KangarooTwelve's 8192-byte chunks (the second
# piece ends inside a chunk, so each object has a partial chunk pending when the other one is used)
DL = [bytes(i * 7 & 255 for i in range(300)), bytes(i * 11 & 255 for i in range(9000)), bytes(i * 13 & 255 for i in range(8400))]
DL2 = [bytes(i * 17 & 255 for i in range(300)), bytes(i * 19 & 255 for i in range(9000)), bytes(i * 23 & 255 for i in range(8400))]


# ---------------------------------------------------------------------------
# part 1a: sequential interleavings
# ---------------------------------------------------------------------------
def _factories():
    """name -> f(variant) -> (obj, [step0, step1, step2]) ; step(obj) -> observation"""
    from Crypto.Cipher import AES, DES3, DES, Blowfish, CAST, ARC2, ARC4, Salsa20, ChaCha20, ChaCha20_Poly1305
    from Crypto.Hash import (MD2, MD4, MD5, SHA1, SHA224, SHA256, SHA384, SHA512, SHA3_256, SHAKE128, BLAKE2b, BLAKE2s,
                             RIPEMD160, keccak, CMAC, HMAC, Poly1305, KMAC128, cSHAKE128, TurboSHAKE128, KangarooTwelve)
    F = {}

    def enc3(mk, long=False):
        def f(v):
            data = (D if v == 0 else D2) if not long else [x[:n] for x, n in zip(DL if v == 0 else DL2, (288, 4096, 2064))]
            return mk(v), [lambda o, d=d: o.encrypt(d) for d in data]
        return f

    def hash3(mk, fin="digest", long=False):
        def f(v):
            data = (D if v == 0 else D2) if not long else (DL if v == 0 else DL2)
            return mk(v), [lambda o: o.update(data[0]) and None, lambda o: o.update(data[1]) and None,
                           (lambda o: o.digest()) if fin == "digest" else (lambda o: o.read(33))]
        return f

    def aead3(mk, long=False):
        def f(v):
            data = (D if v == 0 else D2) if not long else [x[:4096] for x in (DL if v == 0 else DL2)]
            return mk(v), [lambda o: o.update(data[0]) and None, lambda o: o.encrypt(data[1]), lambda o: o.digest()]
        return f
    for name, mod, keys, bs in (("AES", AES, K16, 16), ("AES256", AES, K32, 16), ("DES3", DES3, K24, 8),
                                ("Blowfish", Blowfish, K16, 8), ("CAST", CAST, K16, 8), ("ARC2", ARC2, K16, 8),
                                ("DES", DES, [K16[0][:8], K16[1][:8]], 8)):
        F[name + "-ECB"] = enc3(lambda v, mod=mod, keys=keys: mod.new(keys[v], mod.MODE_ECB))
        F[name + "-CBC"] = enc3(lambda v, mod=mod, keys=keys, bs=bs: mod.new(keys[v], mod.MODE_CBC, iv=bytes([v]) * bs))
        if name in ("AES", "DES3"):
            F[name + "-CFB"] = enc3(lambda v, mod=mod, keys=keys, bs=bs: mod.new(keys[v], mod.MODE_CFB, iv=bytes([v]) * bs))
            F[name + "-OFB"] = enc3(lambda v, mod=mod, keys=keys, bs=bs: mod.new(keys[v], mod.MODE_OFB, iv=bytes([v]) * bs))
            F[name + "-CTR"] = enc3(lambda v, mod=mod, keys=keys, bs=bs: mod.new(keys[v], mod.MODE_CTR, nonce=bytes([v]) * (bs // 2)))
    F["AES-ECB-noaesni"] = enc3(lambda v: AES.new(K16[v], AES.MODE_ECB, use_aesni=False))
    F["ARC4"] = enc3(lambda v: ARC4.new(K16[v]))
    F["Salsa20"] = enc3(lambda v: Salsa20.new(key=K32[v], nonce=bytes([v]) * 8))
    F["ChaCha20"] = enc3(lambda v: ChaCha20.new(key=K32[v], nonce=bytes([v]) * 12))
    F["GCM"] = aead3(lambda v: AES.new(K16[v], AES.MODE_GCM, nonce=bytes([v]) * 12))
    F["GCM-noclmul"] = aead3(lambda v: AES.new(K16[v], AES.MODE_GCM, nonce=bytes([v]) * 12, use_clmul=False))
    F["CCM"] = aead3(lambda v: AES.new(K16[v], AES.MODE_CCM, nonce=bytes([v]) * 11))
    F["EAX"] = aead3(lambda v: AES.new(K16[v], AES.MODE_EAX, nonce=bytes([v]) * 16))
    F["ChaCha20-Poly1305"] = aead3(lambda v: ChaCha20_Poly1305.new(key=K32[v], nonce=bytes([v]) * 12))

    def ocb(v):
        data = D if v == 0 else D2
        o = AES.new(K16[v], AES.MODE_OCB, nonce=bytes([v]) * 15)
        return o, [lambda o: o.update(data[0]) and None, lambda o: o.encrypt(data[1] + b"x") + o.encrypt(), lambda o: o.digest()]
    F["OCB"] = ocb
    for hm in (MD2, MD4, MD5, SHA1, SHA224, SHA256, SHA384, SHA512, SHA3_256, RIPEMD160):
        F[hm.__name__.split(".")[-1]] = hash3(lambda v, hm=hm: hm.new())
    F["BLAKE2b"] = hash3(lambda v: BLAKE2b.new(digest_bits=256))
    F["BLAKE2s"] = hash3(lambda v: BLAKE2s.new(digest_bits=128, key=K16[v]))
    F["keccak"] = hash3(lambda v: keccak.new(digest_bits=256))
    F["SHAKE128"] = hash3(lambda v: SHAKE128.new(), "read")
    F["cSHAKE128"] = hash3(lambda v: cSHAKE128.new(custom=b"c%d" % v), "read")
    F["TurboSHAKE128"] = hash3(lambda v: TurboSHAKE128.new(), "read")
    F["KangarooTwelve"] = hash3(lambda v: KangarooTwelve.new(custom=b"k%d" % v), "read")
    F["KMAC128"] = hash3(lambda v: KMAC128.new(key=K32[v], mac_len=16))
    F["CMAC-AES"] = hash3(lambda v: CMAC.new(K16[v], ciphermod=AES))
    F["CMAC-DES3"] = hash3(lambda v: CMAC.new(K24[v], ciphermod=DES3))
    F["HMAC-SHA256"] = hash3(lambda v: HMAC.new(K16[v], digestmod=SHA256))
    F["HMAC-MD4"] = hash3(lambda v: HMAC.new(K16[v], digestmod=MD4))
    F["Poly1305-AES"] = hash3(lambda v: Poly1305.new(key=K32[v], cipher=AES, nonce=bytes(16)))
    F["Poly1305-ChaCha20"] = hash3(lambda v: Poly1305.new(key=K32[v], cipher=ChaCha20, nonce=bytes(12)))
    # the same with long inputs (bulk / tree / batch code paths)
    F["KangarooTwelve-long"] = hash3(lambda v: KangarooTwelve.new(custom=b"k%d" % v), "read", long=True)
    F["TurboSHAKE128-long"] = hash3(lambda v: TurboSHAKE128.new(), "read", long=True)
    F["SHAKE128-long"] = hash3(lambda v: SHAKE128.new(), "read", long=True)
    for hm in (MD5, SHA1, SHA256, SHA512, SHA3_256, RIPEMD160):
        F[hm.__name__.split(".")[-1] + "-long"] = hash3(lambda v, hm=hm: hm.new(), long=True)
    F["BLAKE2b-long"] = hash3(lambda v: BLAKE2b.new(digest_bits=256), long=True)
    F["KMAC128-long"] = hash3(lambda v: KMAC128.new(key=K32[v], mac_len=16), long=True)
    F["CMAC-AES-long"] = hash3(lambda v: CMAC.new(K16[v], ciphermod=AES), long=True)
    F["HMAC-SHA256-long"] = hash3(lambda v: HMAC.new(K16[v], digestmod=SHA256), long=True)
    F["Poly1305-AES-long"] = hash3(lambda v: Poly1305.new(key=K32[v], cipher=AES, nonce=bytes(16)), long=True)
    for mname in ("ECB", "CBC", "CFB", "OFB", "CTR"):
        kw = {} if mname == "ECB" else {"nonce": bytes(8)} if mname == "CTR" else {"iv": bytes(16)}
        F["AES-%s-long" % mname] = enc3(lambda v, mname=mname, kw=kw: AES.new(K16[v], getattr(AES, "MODE_" + mname), **kw), long=True)
    F["ChaCha20-long"] = enc3(lambda v: ChaCha20.new(key=K32[v], nonce=bytes([v]) * 12), long=True)
    F["GCM-long"] = aead3(lambda v: AES.new(K16[v], AES.MODE_GCM, nonce=bytes([v]) * 12), long=True)
    F["EAX-long"] = aead3(lambda v: AES.new(K16[v], AES.MODE_EAX, nonce=bytes([v]) * 16), long=True)
    F["CCM-long"] = aead3(lambda v: AES.new(K16[v], AES.MODE_CCM, nonce=bytes([v]) * 11), long=True)

    def point(curve):
        def f(v):
            from Crypto.PublicKey.ECC import EccPoint
            from Crypto.PublicKey._point import _curves
            G = _curves[curve].G
            P = G * (7 + v)
            Q = G * (1000 + v)
            return P, [lambda o: (o.__imul__(123457 + v), None)[1], lambda o: (o.__iadd__(Q), None)[1],
                       lambda o: (int(o.x), int(o.y))]
        return f
    for c in ("p192", "p224", "p256", "p384", "p521", "ed25519", "ed448"):
        F["point-" + c] = point(c)

    def xpoint(curve):
        def f(v):
            from Crypto.PublicKey._point import _curves
            G = _curves[curve].G
            P = G * (8 * (3 + v))
            return P, [lambda o: (o.__imul__(8 * (1001 + v)), None)[1], lambda o: int(o.x), lambda o: int((o * 16).x)]
        return f
    for c in ("curve25519", "curve448"):
        F["xpoint-" + c] = xpoint(c)

    def integer(cls):
        def f(v):
            x = cls(2 ** 300 + 12345 + v)
            return x, [lambda o: (o.__imul__(cls(2 ** 70 + v)), None)[1], lambda o: (o.inplace_pow(3, 2 ** 521 - 1), None)[1],
                       lambda o: int(o)]
        return f
    from Crypto.Math._IntegerNative import IntegerNative
    from Crypto.Math._IntegerCustom import IntegerCustom
    F["IntegerNative"] = integer(IntegerNative)
    F["IntegerCustom"] = integer(IntegerCustom)
    try:
        from Crypto.Math._IntegerGMP import IntegerGMP
        F["IntegerGMP"] = integer(IntegerGMP)
    except ImportError:
        pass
    return F


CROSS = [("GCM", "AES-CTR"), ("CMAC-AES", "AES-CBC"), ("CCM", "AES-CBC"), ("EAX", "AES-CTR"), ("OCB", "AES-ECB"),
         ("AES-ECB", "AES-ECB-noaesni"), ("GCM", "GCM-noclmul"), ("SHA3_256", "SHAKE128"), ("SHAKE128", "cSHAKE128"),
         ("keccak", "KMAC128"), ("TurboSHAKE128", "KangarooTwelve"), ("SHA224", "SHA256"), ("SHA384", "SHA512"),
         ("HMAC-SHA256", "SHA256"), ("HMAC-MD4", "MD4"), ("Poly1305-AES", "ChaCha20-Poly1305"), ("ChaCha20", "ChaCha20-Poly1305"),
         ("Poly1305-ChaCha20", "ChaCha20"), ("DES", "DES3-CBC"), ("CMAC-DES3", "DES3-CBC"), ("point-p256", "point-p384"),
         ("point-ed25519", "xpoint-curve25519"), ("point-ed448", "xpoint-curve448"), ("IntegerCustom", "IntegerGMP"),
         ("IntegerCustom", "point-p256"), ("BLAKE2b", "BLAKE2s")]

_F = None


def _alone(f, v):
    o, steps = f(v)
    return [s(o) for s in steps]


def interleave_pair(na, nb, acc, only=None):
    global _F
    if _F is None:
        _F = _factories()
    if na not in _F or nb not in _F:
        return
    fa, fb = _F[na], _F[nb]
    exp_a, exp_b = _alone(fa, 0), _alone(fb, 1)
    acc.seen("pairs", (na, nb))
    for combo in itertools.combinations(range(6), 3):
        for third in range(-1, 6):
            if only is not None and (list(combo), third) != only:
                continue
            oa, sa = fa(0)
            ob, sb = fb(1)
            got_a, got_b = [], []
            ia = ib = 0
            extra = None
            for pos in range(6):
                if pos == third:
                    extra, se = fa(1)
                    se[0](extra)
                if pos in combo:
                    got_a.append(sa[ia](oa))
                    ia += 1
                else:
                    got_b.append(sb[ib](ob))
                    ib += 1
                if extra is not None and pos == third + 1:
                    extra = None
                    gc.collect()
            acc.count("transitions", 6)
            acc.count("states", 7)
            acc.count("traces")
            if got_a != exp_a or got_b != exp_b:
                which = na if got_a != exp_a else nb
                acc.violation("C19/seq-interleaving/%s+%s" % (na, nb),
                              "objects %s and %s: interleaving %s (third object at %d) changes the results of %s: %s vs alone %s"
                              % (na, nb, combo, third, which, short(got_a if got_a != exp_a else got_b),
                                 short(exp_a if got_a != exp_a else exp_b)),
                              {"part": "interleave", "a": na, "b": nb, "combo": list(combo), "third": third})
                return


# ---------------------------------------------------------------------------
# part 1b: copy independence
# ---------------------------------------------------------------------------
def _copy_classes():
    from Crypto.Hash import (MD2, MD4, MD5, SHA1, SHA224, SHA256, SHA384, SHA512, SHA3_224, SHA3_256, SHA3_384, SHA3_512,
                             SHAKE128, SHAKE256, BLAKE2b, BLAKE2s, RIPEMD160, keccak, CMAC, HMAC)
    from Crypto.Cipher import AES, DES3
    C = {}
    for hm in (MD2, MD4, MD5, SHA1, SHA224, SHA256, SHA384, SHA512, RIPEMD160):
        C[hm.__name__.split(".")[-1]] = (lambda hm=hm: hm.new(), lambda hm=hm: hm.new(), False)
    for hm in (SHA3_224, SHA3_256, SHA3_384, SHA3_512):
        C[hm.__name__.split(".")[-1]] = (lambda hm=hm: hm.new(update_after_digest=True), lambda hm=hm: hm.new(), False)
    C["CMAC-AES"] = (lambda: CMAC.new(K16[0], ciphermod=AES, update_after_digest=True), lambda: CMAC.new(K16[0], ciphermod=AES), False)
    C["CMAC-DES3"] = (lambda: CMAC.new(K24[0], ciphermod=DES3, update_after_digest=True), lambda: CMAC.new(K24[0], ciphermod=DES3), False)
    C["HMAC-SHA256"] = (lambda: HMAC.new(K16[0], digestmod=SHA256), lambda: HMAC.new(K16[0], digestmod=SHA256), False)
    C["HMAC-MD5"] = (lambda: HMAC.new(K16[0], digestmod=MD5), lambda: HMAC.new(K16[0], digestmod=MD5), False)
    # (BLAKE2, keccak, KMAC, TupleHash, cSHAKE, TurboSHAKE, K12, Poly1305 offer no copy(); HMAC over SHA-3 finalises its
    #  inner hash in digest(), which is a call-order matter (C10), so it is not part of this independence check)
    C["SHAKE128"] = (lambda: SHAKE128.new(), lambda: SHAKE128.new(), True)
    C["SHAKE256"] = (lambda: SHAKE256.new(), lambda: SHAKE256.new(), True)
    return C


COPY_OPS = ("uo", "uc", "copy", "do", "dc", "del")
UA = b"orig-chunk-of-data-17"
UB = b"clone!"
_C = None


def copy_history(cname, hist, acc):
    """orig/clone life cycle; oracle: digest == one-shot over the bytes that object absorbed"""
    global _C
    if _C is None:
        _C = _copy_classes()
    mk, mkfresh, xof = _C[cname]
    orig, clone = mk(), None
    mo, mc = b"", None
    ro = rc = 0          # XOF: bytes already squeezed (no more updates once > 0)
    RD = 100             # XOF read size: the second read crosses the rate boundary (168 / 136 bytes)
    for i, op in enumerate(hist):
        acc.count("transitions")
        try:
            if op == "uo" and orig is not None and not ro:
                orig.update(UA)
                mo += UA
            elif op == "uc" and clone is not None and not rc:
                clone.update(UB)
                mc += UB
            elif op == "copy" and orig is not None:
                clone = orig.copy()          # also after read(): the clone continues the same output stream
                mc, rc = mo, ro
            elif op in ("do", "dc"):
                o, m = (orig, mo) if op == "do" else (clone, mc)
                if o is None:
                    continue
                if xof:
                    r0 = ro if op == "do" else rc
                    got = o.read(RD)
                    f = mkfresh()
                    f.update(m)
                    exp = f.read(r0 + RD)[r0:]
                    if op == "do":
                        ro += RD
                    else:
                        rc += RD
                else:
                    got = o.digest()
                    f = mkfresh()
                    f.update(m)
                    exp = f.digest()
                if got != exp:
                    acc.violation("C19/copy/%s/%s-differs" % (cname, "orig" if op == "do" else "clone"),
                                  "%s: history %s: %s output is %s, one-shot over its own %d bytes gives %s"
                                  % (cname, " ".join(hist[:i + 1]), "original" if op == "do" else "clone", short(got), len(m), short(exp)),
                                  {"part": "copy", "cls": cname, "hist": list(hist[:i + 1])}, size=i + 1)
                    return
            elif op == "del" and orig is not None:
                orig = None
                gc.collect()
        except Exception as e:  # noqa
            acc.violation("C19/copy/%s/%s" % (cname, type(e).__name__),
                          "%s: history %s raised %s: %s" % (cname, " ".join(hist[:i + 1]), type(e).__name__, e),
                          {"part": "copy", "cls": cname, "hist": list(hist[:i + 1])}, size=i + 1)
            return


def seq_worker(shards):
    acc = Acc()
    for sh in shards:
        if sh[0] == "pair":
            interleave_pair(sh[1], sh[2], acc)
        elif sh[0] == "copy":
            _, cname, depth, first = sh
            for rest in itertools.product(COPY_OPS, repeat=depth - 1):
                hist = (first,) + rest
                copy_history(cname, hist, acc)
                acc.count("traces")
                acc.count("states", depth)
            acc.seen("copyclasses", cname)
    acc.sample({"part": "sequential", "last_shard": list(sh)})
    return acc


# ---------------------------------------------------------------------------
# part 2: arguments are never mutated
# ---------------------------------------------------------------------------
def args_worker(_):
    from Crypto.Cipher import AES, ChaCha20, PKCS1_OAEP, PKCS1_v1_5
    from Crypto.Hash import SHA256, SHA512, SHAKE256, HMAC, CMAC
    from Crypto.Signature import pkcs1_15, pss, DSS, eddsa
    from Crypto.PublicKey import ECC
    from Crypto.Protocol.KDF import PBKDF2, HKDF, scrypt
    from ..keys import rsa_key, dsa_key, Stream
    acc = Acc()

    def buffers_unchanged(label, fn, *bufs):
        acc.count("transitions")
        acc.count("states")
        copies = [bytes(b) for b in bufs]
        try:
            fn(*bufs)
        except Exception as e:  # noqa
            acc.observe("argument monitor: %s raised %s" % (label, type(e).__name__))
        for i, (b, c) in enumerate(zip(bufs, copies)):
            if bytes(b) != c:
                acc.violation("C19/args-mutated/%s" % label, "%s modified its input buffer #%d: %s -> %s"
                              % (label, i, short(c), short(bytes(b))), {"part": "args", "label": label})
        acc.seen("argcalls", label)
    ba = lambda n, s=0: bytearray(range(s, s + n))
    buffers_unchanged("AES.new/key+iv", lambda k, iv: AES.new(k, AES.MODE_CBC, iv=iv).encrypt(bytes(32)), ba(16), ba(16, 9))
    buffers_unchanged("AES-CBC.encrypt", lambda d: AES.new(K16[0], AES.MODE_CBC, iv=bytes(16)).encrypt(d), ba(48))
    buffers_unchanged("AES-CBC.decrypt", lambda d: AES.new(K16[0], AES.MODE_CBC, iv=bytes(16)).decrypt(d), ba(48))
    buffers_unchanged("AES-CBC.encrypt(output=other)", lambda d: AES.new(K16[0], AES.MODE_CBC, iv=bytes(16)).encrypt(d, output=bytearray(48)), ba(48))
    buffers_unchanged("AES-CTR.encrypt", lambda d, n: AES.new(K16[0], AES.MODE_CTR, nonce=n).encrypt(d), ba(33), ba(8))
    buffers_unchanged("AES-GCM", lambda k, n, a, d: AES.new(k, AES.MODE_GCM, nonce=n).update(a).encrypt_and_digest(d), ba(16), ba(12), ba(20), ba(33))
    buffers_unchanged("AES-GCM.decrypt_and_verify", lambda d, t: AES.new(K16[0], AES.MODE_GCM, nonce=bytes(12)).decrypt_and_verify(d, t), ba(33), ba(16))
    buffers_unchanged("AES-OCB", lambda d: AES.new(K16[0], AES.MODE_OCB, nonce=bytes(15)).encrypt_and_digest(d), ba(33))
    def _siv(a, d):
        c = AES.new(K32[0], AES.MODE_SIV)
        c.update(a)
        return c.encrypt_and_digest(d)
    buffers_unchanged("AES-SIV", _siv, ba(9), ba(33))
    buffers_unchanged("AES-CCM", lambda a, d: AES.new(K16[0], AES.MODE_CCM, nonce=bytes(11)).update(a).encrypt_and_digest(d), ba(9), ba(33))
    buffers_unchanged("AES-EAX", lambda a, d: AES.new(K16[0], AES.MODE_EAX, nonce=bytes(16)).update(a).encrypt_and_digest(d), ba(9), ba(33))
    buffers_unchanged("ChaCha20", lambda k, n, d: ChaCha20.new(key=k, nonce=n).encrypt(d), ba(32), ba(12), ba(70))
    buffers_unchanged("SHA256.update", lambda d: SHA256.new().update(d), ba(100))
    buffers_unchanged("SHAKE256.update", lambda d: SHAKE256.new().update(d).read(10), ba(100))
    buffers_unchanged("HMAC", lambda k, d: HMAC.new(k, d, SHA256).digest(), ba(70), ba(100))
    buffers_unchanged("CMAC", lambda k, d: CMAC.new(k, d, ciphermod=AES).digest(), ba(16), ba(100))
    buffers_unchanged("PBKDF2", lambda p, s: PBKDF2(p, s, 20, 2, hmac_hash_module=SHA256), ba(10), ba(8))
    buffers_unchanged("HKDF", lambda m, s: HKDF(m, 20, s, SHA256), ba(10), ba(8))
    buffers_unchanged("scrypt", lambda p, s: scrypt(p, s, 20, 4, 1, 1), ba(10), ba(8))
    rk = rsa_key(1024)
    buffers_unchanged("PKCS1_OAEP.encrypt", lambda d: PKCS1_OAEP.new(rk, randfunc=Stream("o")).encrypt(d), ba(20))
    ct = PKCS1_OAEP.new(rk, randfunc=Stream("o")).encrypt(b"x" * 20)
    buffers_unchanged("PKCS1_OAEP.decrypt", lambda d: PKCS1_OAEP.new(rk).decrypt(d), bytearray(ct))
    buffers_unchanged("PKCS1_v1_5.decrypt", lambda d: PKCS1_v1_5.new(rk).decrypt(d, b"S"), bytearray(ct))

    # hash / XOF objects handed to signers keep their value; signing twice gives the same outcome
    def hash_unchanged(label, mkhash, signfn, verifyfn=None):
        acc.count("transitions")
        acc.count("states")
        h = mkhash()
        before = h.copy().digest() if hasattr(h, "digest") else h.copy().read(32) if hasattr(h, "copy") else None
        try:
            s1 = signfn(h)
            s2 = signfn(h)
            if verifyfn:
                verifyfn(h, s1)
                verifyfn(h, s1)
        except Exception as e:  # noqa
            acc.violation("C19/hash-consumed/%s" % label, "%s: second use of the same hash object fails: %s: %s"
                          % (label, type(e).__name__, e), {"part": "args", "label": label})
            return
        after = h.copy().digest() if hasattr(h, "digest") else h.copy().read(32) if hasattr(h, "copy") else None
        acc.seen("argcalls", label)
        if before != after:
            acc.violation("C19/hash-consumed/%s" % label, "%s changed the value of the hash object passed to it" % label,
                          {"part": "args", "label": label})
        return s1, s2
    hash_unchanged("pkcs1_15", lambda: SHA256.new(b"m"), lambda h: pkcs1_15.new(rk).sign(h), lambda h, s: pkcs1_15.new(rk).verify(h, s))
    hash_unchanged("pss", lambda: SHA256.new(b"m"), lambda h: pss.new(rk, rand_func=Stream("p")).sign(h), lambda h, s: pss.new(rk).verify(h, s))
    ek = ECC.construct(curve="p256", d=99)
    hash_unchanged("DSS-rfc6979", lambda: SHA256.new(b"m"), lambda h: DSS.new(ek, "deterministic-rfc6979").sign(h),
                   lambda h, s: DSS.new(ek, "deterministic-rfc6979").verify(h, s))
    dk = dsa_key(1024)
    hash_unchanged("DSS-dsa", lambda: SHA256.new(b"m"), lambda h: DSS.new(dk, "deterministic-rfc6979").sign(h),
                   lambda h, s: DSS.new(dk, "fips-186-3").verify(h, s))
    e25 = ECC.construct(curve="ed25519", seed=bytes(32))
    r = hash_unchanged("eddsa-ed25519ph", lambda: SHA512.new(b"m"), lambda h: eddsa.new(e25, "rfc8032").sign(h),
                       lambda h, s: eddsa.new(e25, "rfc8032").verify(h, s))
    if r and r[0] != r[1]:
        acc.violation("C19/hash-consumed/eddsa-ed25519ph", "signing twice with the same SHA-512 object gives different signatures",
                      {"part": "args", "label": "eddsa-ed25519ph"})
    e448 = ECC.construct(curve="ed448", seed=bytes(57))

    def xof_case():
        acc.count("transitions")
        acc.count("states")
        x = SHAKE256.new(b"m")
        s1 = eddsa.new(e448, "rfc8032").sign(x)
        s2 = eddsa.new(e448, "rfc8032").sign(x)
        ok = True
        try:
            eddsa.new(e448, "rfc8032").verify(x, s1)
            eddsa.new(e448, "rfc8032").verify(x, s1)
        except ValueError:
            ok = False
        nxt = x.read(16)
        exp = SHAKE256.new(b"m").read(16)
        acc.seen("argcalls", "eddsa-ed448ph")
        if s1 != s2 or not ok or nxt != exp:
            acc.violation("C19/hash-consumed/eddsa-ed448ph",
                          "Ed448ph with a caller SHAKE256 object: sign twice equal=%s, verify twice ok=%s, caller's next read() "
                          "unchanged=%s" % (s1 == s2, ok, nxt == exp), {"part": "args", "label": "eddsa-ed448ph"})
    xof_case()
    # points used as operands keep their value
    from Crypto.PublicKey._point import _curves
    for c in ("p256", "p521", "ed25519", "ed448"):
        acc.count("transitions", 6)
        acc.count("states")
        G = _curves[c].G
        P, Q = G * 5, G * 11
        bp, bq, bg = (int(P.x), int(P.y)), (int(Q.x), int(Q.y)), (int(G.x), int(G.y))
        _ = P + Q; _ = P * 77; _ = -P; _ = P == Q; _ = P.copy(); _ = P.double() if hasattr(P.copy(), "double") and False else None
        _ = 3 * Q
        if (int(P.x), int(P.y)) != bp or (int(Q.x), int(Q.y)) != bq or (int(G.x), int(G.y)) != bg:
            acc.violation("C19/operand-mutated/point-%s" % c, "point operands changed by +, *, -, ==, copy",
                          {"part": "args", "label": "point-" + c})
        acc.seen("argcalls", "point-" + c)
    # ---- more entry points that take caller buffers (bytearray arguments must read the same afterwards) ---------
    from Crypto.Cipher import DES3, Blowfish, Salsa20, ChaCha20_Poly1305, ARC4
    from Crypto.Hash import BLAKE2b, BLAKE2s, KMAC128, cSHAKE128, TupleHash128, KangarooTwelve, TurboSHAKE128, Poly1305, SHA3_256, MD5, SHA1
    from Crypto.Protocol.KDF import bcrypt, bcrypt_check, PBKDF1, SP800_108_Counter
    from Crypto.Protocol.SecretSharing import Shamir
    from Crypto.Util.Padding import pad, unpad
    from Crypto.Util.strxor import strxor, strxor_c
    from Crypto.Util.number import bytes_to_long
    from Crypto.PublicKey import RSA, DSA
    buffers_unchanged("bcrypt(password, salt)", lambda pw, s: bcrypt(pw, 4, salt=s), ba(10, 65), ba(16, 3))
    buffers_unchanged("bcrypt(71-byte password)", lambda pw: bcrypt(pw, 4, salt=bytes(16)), ba(71, 33))
    h4 = bcrypt(b"pw", 4, salt=bytes(16))
    buffers_unchanged("bcrypt_check", lambda pw, h: bcrypt_check(pw, h), bytearray(b"pw"), bytearray(h4))
    buffers_unchanged("PBKDF1", lambda pw, s: PBKDF1(pw, s, 16, 2, SHA1), ba(10), ba(8))
    buffers_unchanged("SP800_108_Counter", lambda k, lab, c: SP800_108_Counter(k, 20, lambda kk, d: HMAC.new(kk, d, SHA256).digest(), label=lab, context=c),
                      ba(16), ba(5, 1), ba(7, 1))
    buffers_unchanged("DES3-CBC", lambda k, d: DES3.new(k, DES3.MODE_CBC, iv=bytes(8)).encrypt(d), bytearray(DES3.adjust_key_parity(bytes(range(1, 25)))), ba(24))
    buffers_unchanged("Blowfish-ECB", lambda k, d: Blowfish.new(k, Blowfish.MODE_ECB).encrypt(d), ba(9, 1), ba(16))
    buffers_unchanged("Salsa20", lambda k, n, d: Salsa20.new(k, n).encrypt(d), ba(32), ba(8), ba(70))
    buffers_unchanged("ARC4", lambda k, d: ARC4.new(k).encrypt(d), ba(9, 1), ba(70))
    def _ccp(k, n, a, d):
        c = ChaCha20_Poly1305.new(key=k, nonce=n)
        c.update(a)
        return c.encrypt_and_digest(d)
    buffers_unchanged("ChaCha20-Poly1305", _ccp, ba(32), ba(12), ba(9), ba(70))
    buffers_unchanged("AES-KW.seal", lambda k, d: AES.new(k, AES.MODE_KW).seal(d), ba(16), ba(24))
    buffers_unchanged("AES-KWP.seal", lambda k, d: AES.new(k, AES.MODE_KWP).seal(d), ba(16), ba(9))
    buffers_unchanged("AES-CFB/OFB", lambda d, iv: (AES.new(K16[0], AES.MODE_CFB, iv=iv, segment_size=8).encrypt(d), AES.new(K16[0], AES.MODE_OFB, iv=iv).encrypt(d)), ba(33), ba(16))
    buffers_unchanged("AES-CTR(initial_value bytes)", lambda d, iv: AES.new(K16[0], AES.MODE_CTR, nonce=b"", initial_value=iv).encrypt(d), ba(33), ba(16))
    buffers_unchanged("BLAKE2b(key)", lambda k, d: BLAKE2b.new(key=k, data=d, digest_bytes=32).digest(), ba(20), ba(200))
    buffers_unchanged("BLAKE2s(key)", lambda k, d: BLAKE2s.new(key=k, data=d, digest_bytes=16).digest(), ba(20), ba(100))
    buffers_unchanged("KMAC128", lambda k, d, c: KMAC128.new(key=k, data=d, mac_len=16, custom=c).digest(), ba(20), ba(200), ba(5))
    buffers_unchanged("cSHAKE128", lambda d, c: cSHAKE128.new(data=d, custom=c).read(20), ba(200), ba(5))
    buffers_unchanged("TupleHash128", lambda a, b: TupleHash128.new().update(a, b).digest(), ba(20), ba(30))
    buffers_unchanged("KangarooTwelve", lambda d, c: KangarooTwelve.new(data=d, custom=c).read(20), ba(200), ba(5))
    buffers_unchanged("TurboSHAKE128", lambda d: TurboSHAKE128.new(data=d).read(20), ba(200))
    buffers_unchanged("Poly1305", lambda k, d: Poly1305.new(key=k, cipher=AES, data=d, nonce=bytes(16)).digest(), ba(32), ba(70))
    buffers_unchanged("SHA3_256/MD5", lambda d: (SHA3_256.new(d).digest(), MD5.new(d).digest()), ba(200))
    buffers_unchanged("HMAC.verify", lambda k, d, t: HMAC.new(k, d, SHA256).verify(t), ba(20), ba(50), ba(32))
    buffers_unchanged("pad/unpad", lambda d, p: (pad(d, 16), unpad(p, 16)), ba(20), bytearray(pad(bytes(20), 16)))
    buffers_unchanged("strxor", lambda a, b: (strxor(a, b), strxor_c(a, 7)), ba(33), ba(33, 50))
    buffers_unchanged("bytes_to_long", lambda d: bytes_to_long(d), ba(33, 1))
    from Crypto.Math._IntegerNative import IntegerNative
    from Crypto.Math._IntegerCustom import IntegerCustom
    ibacks = [("Native", IntegerNative), ("Custom", IntegerCustom)]
    try:
        from Crypto.Math._IntegerGMP import IntegerGMP
        ibacks.append(("GMP", IntegerGMP))
    except (ImportError, OSError):
        pass
    for bname, K in ibacks:
        for order in ("big", "little"):
            buffers_unchanged("Integer%s.from_bytes(%s)" % (bname, order), lambda d, K=K, order=order: K.from_bytes(d, order), ba(33, 1))
    from Crypto.Protocol import DH
    # (one call each: a buffer reversed in place would be restored by a second call)
    buffers_unchanged("DH.import_x25519_public_key", lambda d: DH.import_x25519_public_key(d), ba(32, 9))
    buffers_unchanged("DH.import_x448_public_key", lambda d: DH.import_x448_public_key(d), ba(56, 9))
    buffers_unchanged("Shamir.split", lambda sec: Shamir.split(2, 3, sec), ba(16, 1))
    shares = Shamir.split(2, 3, bytes(range(16)))
    buffers_unchanged("Shamir.combine", lambda a, b: Shamir.combine([(shares[0][0], a), (shares[1][0], b)]), bytearray(shares[0][1]), bytearray(shares[1][1]))
    buffers_unchanged("ECC.construct(seed)", lambda sd: ECC.construct(curve="ed25519", seed=sd).public_key().export_key(format="raw"), ba(32, 1))
    buffers_unchanged("ECC.import_key(DER)", lambda d: ECC.import_key(d), bytearray(ek.export_key(format="DER")))
    buffers_unchanged("RSA.import_key(DER, passphrase)", lambda d, pw: RSA.import_key(d, passphrase=pw),
                      bytearray(rk.export_key(format="DER", pkcs=8, passphrase=b"secret", protection="PBKDF2WithHMAC-SHA1AndAES128-CBC",
                                              prot_params={"iteration_count": 2}, randfunc=Stream("x"))), bytearray(b"secret"))
    buffers_unchanged("DSA.import_key(DER)", lambda d: DSA.import_key(d), bytearray(dk.export_key(format="DER")))
    buffers_unchanged("eddsa.sign/verify(message)", lambda m, sg: eddsa.new(e25.public_key(), "rfc8032").verify(m, sg), ba(40),
                      bytearray(eddsa.new(e25, "rfc8032").sign(bytes(ba(40)))))
    buffers_unchanged("DSS.verify(signature)", lambda sg: DSS.new(ek.public_key(), "fips-186-3").verify(SHA256.new(b"m"), sg),
                      bytearray(DSS.new(ek, "deterministic-rfc6979").sign(SHA256.new(b"m"))))
    buffers_unchanged("pkcs1_15.verify(signature)", lambda sg: pkcs1_15.new(rk).verify(SHA256.new(b"m"), sg), bytearray(pkcs1_15.new(rk).sign(SHA256.new(b"m"))))
    try:
        from Crypto.Protocol import HPKE
        rkey = ECC.construct(curve="p256", d=1234567)
        buffers_unchanged("HPKE.seal(info, aad, plaintext)", lambda info, a, d: HPKE.new(receiver_key=rkey.public_key(), aead_id=HPKE.AEAD.AES128_GCM, info=info).seal(d, a),
                          ba(7), ba(9), ba(33))
    except ImportError:
        pass

    # ---- objects keep no reference to caller buffers: overwriting a buffer AFTER it was handed to a constructor / update() must not
    #      change what the object computes later (the expected value comes from a fresh object built from pristine copies)
    def late_mutation(label, factory, op, *bufs):
        acc.count("transitions", 2)
        acc.count("states")
        try:
            exp = op(factory(*[bytes(b) for b in bufs]))
            obj = factory(*bufs)
            for b in bufs:
                b[:] = bytes([0xFF ^ x for x in b])
            got = op(obj)
        except Exception as e:  # noqa
            acc.observe("late-mutation monitor: %s raised %s: %s" % (label, type(e).__name__, e))
            return
        acc.seen("argcalls", "late:" + label)
        if bytes(got) != bytes(exp):
            acc.violation("C19/object-follows-caller-buffer/%s" % label,
                          "%s: the object still refers to a buffer of its caller: after the caller overwrote the buffer it had passed in, "
                          "the object computes %s instead of %s" % (label, short(bytes(got)), short(bytes(exp))), {"part": "args", "label": "late:" + label})
    M33 = bytes(range(33))
    for mname, kw in (("CBC", "iv"), ("CFB", "iv"), ("OFB", "iv"), ("CTR", "nonce"), ("GCM", "nonce"), ("EAX", "nonce"), ("OCB", "nonce"),
                      ("CCM", "nonce"), ("SIV", "nonce")):
        n = {"CBC": 16, "CFB": 16, "OFB": 16, "CTR": 8, "GCM": 12, "EAX": 16, "OCB": 15, "CCM": 11, "SIV": 16}[mname]
        klen = 32 if mname == "SIV" else 16
        aead = mname in ("GCM", "EAX", "OCB", "CCM", "SIV")
        mode = getattr(AES, "MODE_" + mname)
        late_mutation("AES-%s.new(key, %s)" % (mname, kw), lambda k, v, mode=mode, kw=kw: AES.new(k, mode, **{kw: v}),
                      (lambda c: b"".join(c.encrypt_and_digest(M33))) if aead else (lambda c: c.encrypt(bytes(48))), ba(klen, 1), ba(n, 40))
        if aead:
            def _upd(k, a, mode=mode, n=n):
                c = AES.new(k, mode, nonce=bytes(n))
                c.update(a)
                return c
            late_mutation("AES-%s.update(aad)" % mname, _upd, lambda c: b"".join(c.encrypt_and_digest(M33)), ba(klen, 1), ba(21, 7))
    late_mutation("ChaCha20.new(key, nonce)", lambda k, n: ChaCha20.new(key=k, nonce=n), lambda c: c.encrypt(bytes(70)), ba(32, 1), ba(12, 50))
    late_mutation("Salsa20.new(key, nonce)", lambda k, n: Salsa20.new(k, n), lambda c: c.encrypt(bytes(70)), ba(32, 1), ba(8, 50))
    late_mutation("ChaCha20_Poly1305.new(key, nonce)", lambda k, n: ChaCha20_Poly1305.new(key=k, nonce=n), lambda c: b"".join(c.encrypt_and_digest(M33)), ba(32, 1), ba(12, 50))
    late_mutation("DES3.new(key, iv)", lambda k, v: DES3.new(k, DES3.MODE_CBC, iv=v), lambda c: c.encrypt(bytes(24)),
                  bytearray(DES3.adjust_key_parity(bytes(range(1, 25)))), ba(8, 60))
    late_mutation("Blowfish.new(key)", lambda k: Blowfish.new(k, Blowfish.MODE_ECB), lambda c: c.encrypt(bytes(16)), ba(9, 1))
    late_mutation("ARC4.new(key)", lambda k: ARC4.new(k), lambda c: c.encrypt(bytes(40)), ba(9, 1))
    late_mutation("HMAC.new(key, msg)", lambda k, m: HMAC.new(k, m, SHA256), lambda h: h.digest(), ba(20, 1), ba(50, 3))
    late_mutation("CMAC.new(key, msg)", lambda k, m: CMAC.new(k, m, ciphermod=AES), lambda h: h.digest(), ba(16, 1), ba(21, 3))
    late_mutation("KMAC128.new(key, data, custom)", lambda k, m, c: KMAC128.new(key=k, data=m, mac_len=16, custom=c), lambda h: h.digest(), ba(20, 1), ba(50, 3), ba(5, 9))
    late_mutation("BLAKE2b.new(key, data)", lambda k, m: BLAKE2b.new(key=k, data=m, digest_bytes=32), lambda h: h.digest(), ba(20, 1), ba(50, 3))
    late_mutation("BLAKE2s.new(key, data)", lambda k, m: BLAKE2s.new(key=k, data=m, digest_bytes=16), lambda h: h.digest(), ba(20, 1), ba(50, 3))
    late_mutation("Poly1305.new(key, nonce, data)", lambda k, n, m: Poly1305.new(key=k, cipher=AES, nonce=n, data=m), lambda h: h.digest(), ba(32, 1), ba(16, 70), ba(50, 3))
    # (only parameters DOCUMENTED as bytes/bytearray/memoryview are overwritten: the customisation strings of cSHAKE / KangarooTwelve /
    #  TupleHash, the EdDSA context, Counter prefix/suffix and the seed of ECC.construct are documented as bytes)
    late_mutation("cSHAKE128.new(data)", lambda m: cSHAKE128.new(data=m, custom=b"cust"), lambda h: h.read(20), ba(50, 3))
    late_mutation("KangarooTwelve.new(data)", lambda m: KangarooTwelve.new(data=m, custom=b"cust"), lambda h: h.read(20), ba(50, 3))
    late_mutation("TupleHash128.update(a, b)", lambda a, b: TupleHash128.new().update(a, b), lambda h: h.digest(), ba(20, 3), ba(30, 9))
    late_mutation("TurboSHAKE128.new(data)", lambda m: TurboSHAKE128.new(data=m), lambda h: h.read(20), ba(200, 3))
    for hname, hmod in (("SHA256", SHA256), ("SHA3_256", SHA3_256), ("MD5", MD5), ("SHAKE256", SHAKE256)):
        def _hu(m, hmod=hmod):
            h = hmod.new()
            h.update(m)
            return h
        late_mutation("%s.update(data)" % hname, _hu, lambda h: h.read(20) if hasattr(h, "read") else h.digest(), ba(100, 3))
    late_mutation("PKCS1_OAEP.new(label)", lambda lab: PKCS1_OAEP.new(rk, label=lab, randfunc=Stream("lm")), lambda c: c.encrypt(b"msg"), ba(7, 1))

    # ---- objects derived from a key are independent of it: updating the point of the public key in place does not reach the private key
    for c in ("p256", "p384", "ed25519", "ed448", "curve25519", "curve448"):
        acc.count("transitions", 3)
        acc.count("states")
        seedlen = {"ed25519": 32, "ed448": 57, "curve25519": 32, "curve448": 56}
        key = ECC.construct(curve=c, seed=bytes(range(1, 58))[:seedlen[c]]) if c in seedlen else ECC.construct(curve=c, d=0xABCDEF)
        before = key.public_key().export_key(format="DER")
        pub = key.public_key()
        Qp = pub.pointQ
        try:
            Qp *= 3
            if hasattr(Qp, "__iadd__") and c not in ("curve25519", "curve448"):
                Qp += Qp
        except Exception as e:  # noqa
            acc.observe("derived objects: in-place update of a public point raised %s" % type(e).__name__)
        after = key.public_key().export_key(format="DER")
        acc.seen("argcalls", "public_key-independent-" + c)
        if before != after:
            acc.violation("C19/derived-object-shares-state/public_key-%s" % c,
                          "%s: key.public_key() hands out the key's own point object: after 'pub.pointQ *= 3' the PRIVATE key exports a "
                          "different public key" % c, {"part": "args", "label": "public_key-" + c})
    # ---- the result of a point operation is a NEW object: changing it in place never reaches an operand --------------------
    def pval(P):
        try:
            return ("inf",) if P.is_point_at_infinity() else (tuple(map(int, P.xy)) if hasattr(P, "xy") else (int(P.x),))
        except Exception as e:  # noqa
            return ("exc", type(e).__name__)

    for c in ("p192", "p224", "p256", "p384", "p521", "ed25519", "ed448", "curve25519", "curve448"):
        G = ECC._curves[c].G
        order = int(ECC._curves[c].order)
        mont = c.startswith("curve")
        other = G * 5
        operands = [("G", lambda: G * 1), ("7G", lambda: G * 7), ("infinity", lambda: G.point_at_infinity()),
                    ("order*G", lambda: G * order)]
        ops = [("copy", lambda P: P.copy()), ("P*0", lambda P: P * 0), ("P*1", lambda P: P * 1), ("P*3", lambda P: P * 3),
               ("3*P", lambda P: 3 * P), ("P*order", lambda P: P * order), ("point_at_infinity", lambda P: P.point_at_infinity())]
        if not mont:
            ops += [("neg", lambda P: -P), ("P+other", lambda P: P + other), ("P+infinity", lambda P: P + P.point_at_infinity())]
        for oname, mk in operands:
            for opname, op in ops:
                acc.count("transitions", 2)
                acc.count("states")
                acc.seen("argcalls", "result-is-new-%s-%s-%s" % (c, oname, opname))
                lab = {"part": "args", "label": "result-%s-%s-%s" % (c, oname, opname)}
                try:
                    P = mk()
                    before = pval(P)
                    R = op(P)
                    if R is P:
                        acc.violation("C19/result-aliases-operand/%s/%s" % (c, opname),
                                      "%s: %s on the point %s returns the operand object itself" % (c, opname, oname), lab)
                        continue
                    R.set(other)
                    if pval(P) == before:
                        R *= 2
                except Exception as e:  # noqa
                    acc.observe("result-is-new probe: %s %s on %s raised %s" % (c, opname, oname, type(e).__name__))
                    continue
                if pval(P) != before:
                    acc.violation("C19/result-aliases-operand/%s/%s" % (c, opname),
                                  "%s: after R = %s on the point %s, changing R in place (set / *=) changed the operand from %s to %s"
                                  % (c, opname, oname, short(before), short(pval(P))), lab)
    acc.sample({"part": "arguments", "calls": sorted(acc.distinct.get("argcalls", ()))[:8]})
    return acc


# ---------------------------------------------------------------------------
# part 3: Python-level schedules, curve registry first use
# ---------------------------------------------------------------------------
CURVE_ALIASES = {"p192": "NIST P-192", "p224": "secp224r1", "p256": "NIST P-256", "p384": "prime384v1", "p521": "P-521",
                 "ed25519": "Ed25519", "ed448": "Ed448", "curve25519": "X25519", "curve448": "Curve448"}


def _first_use_body(name, full=False):
    """first use of a curve.  Minimal form: one registry look-up, then thread-local arithmetic on the
    generator; full form (thorough): ECC.construct, which looks the curve up several times."""
    def body():
        from Crypto.PublicKey import ECC
        from Crypto.PublicKey import _point
        montgomery = name.lower().startswith(("curve", "x"))
        if not full:
            c = _point._curves[name]
            G = c.G
            P = G * 8
            if montgomery:
                return ("x", int(P.x), c.id, c.is_montgomery)
            R = P + G
            return (int(P.x), int(P.y), int(R.x), int(R.y), c.id, c.is_edwards, c.is_weierstrass)
        if montgomery:
            k = ECC.construct(curve=name, seed=bytes(range(1, 57))[:32 if "25519" in name else 56])
            return ("x", int(k.pointQ.x), int(_point._curves[name].G.x))
        if name.lower().startswith("ed"):
            k = ECC.construct(curve=name, seed=bytes(range(1, 58))[:32 if "25519" in name else 57])
        else:
            k = ECC.construct(curve=name, d=12345)
        Q = k.pointQ
        R = Q + _point._curves[name].G
        return (int(Q.x), int(Q.y), int(R.x), int(R.y))
    return body


def sched_curve(curve, nthreads, bound, acc, only_prefix=None, max_exec=None, full=False):
    from Crypto.PublicKey import _point, _nist_ecc, _edwards, _montgomery, ECC  # noqa (pre-import: import lock stays outside)
    if "+" in curve:
        # first use of two DIFFERENT curves at the same time (both loads update the one registry dict)
        ca, cb = curve.split("+")
        names = [ca, cb, CURVE_ALIASES[ca]][:nthreads]
    else:
        names = [curve, CURVE_ALIASES[curve], curve][:nthreads]
    seq_expected = [_first_use_body(n, full)() for n in names]
    pts = {("PublicKey/_point.py", "__getitem__")}
    if full:
        pts.add(("PublicKey/_point.py", "load"))
    sched = pysched.Scheduler(pts)
    real_lock = _point._Curves.curves_lock
    family = [n for n in _point._Curves.all_names
              if any(n in getattr(_point._Curves, c + "_names") for c in curve.split("+"))]
    outcomes = {}
    state = {"fail": None}

    def mk():
        for n in family:
            _point._Curves.curves.pop(n, None)
        _point._Curves.curves_lock = pysched.SchedRLock(sched)
        return [_first_use_body(n, full) for n in names]

    def check(ex):
        acc.count("traces")
        acc.count("states", len(ex.points))
        acc.count("transitions", len(ex.points))
        res = tuple(ex.results.get(t) for t in range(nthreads))
        objs = {id(_point._Curves.curves[n]) for n in family if n in _point._Curves.curves}
        ncurves = len(curve.split("+"))
        problem = None
        if ex.deadlock:
            problem = "deadlock"
        elif ex.errors:
            problem = "exception " + "; ".join("thread %d: %s" % kv for kv in sorted(ex.errors.items()))
        elif list(res) != seq_expected:
            problem = "results differ from sequential execution"
        elif len(objs) != ncurves:
            problem = "%d distinct curve objects registered for %d curve(s)" % (len(objs), ncurves)
        okey = "ok" if problem is None else problem.split(":")[0][:60]
        outcomes[okey] = outcomes.get(okey, 0) + 1
        order = tuple(t for k, t in ex.log if k == "acq")[:2]
        acc.seen("lock_orders", (curve, nthreads, order))
        if problem and state["fail"] is None:
            ch = list(ex.choices)
            while ch and ch[-1] == 0:
                ch.pop()
            state["fail"] = (ch, problem)
    try:
        if only_prefix is not None:
            ex = sched.run(mk(), only_prefix)
            check(ex)
            n, capped = 1, False
        else:
            n, capped = pysched.explore(sched, mk, bound, check, max_executions=max_exec)
    finally:
        _point._Curves.curves_lock = real_lock
        for nme in family:
            _point._Curves.curves.pop(nme, None)
    if capped:
        acc.cap("python-level schedules for %s with %d threads capped at %d executions (bound %d)" % (curve, nthreads, max_exec, bound))
    acc.seen("sched_runs", (curve, nthreads, bound, n))
    if state["fail"]:
        choices, problem = state["fail"]
        acc.violation("C19/first-use/%s" % problem.split(":")[0].split(" ")[0],
                      "concurrent first use of curve %s by %d threads: schedule %s: %s" % (curve, nthreads, choices, problem),
                      {"part": "pysched", "curve": curve, "nthreads": nthreads, "choices": choices, "full": full}, size=len(choices))
    return n, outcomes


def _glue_workloads_names():
    return ["IntegerGMP", "IntegerCustom", "IntegerNative", "RSA-sign", "DSA-sign", "ECDSA-sign", "EdDSA-sign", "AES-GCM", "AES-CCM",
            "AES-EAX", "AES-OCB", "AES-SIV", "hashes", "MACs", "SP800-185", "KDF", "OAEP", "shared-key-first-use-ed25519",
            "shared-key-first-use-ed448"]


# ---- Python-level schedules over the library's Python glue: two threads, each with objects of its own ------------------
def _glue_workloads():
    """name -> (files whose every line is a scheduling point, thread body A, thread body B); bodies return a printable value"""
    from ..keys import rsa_key, dsa_key
    W = {}
    V1, V2 = (1 << 70) + 0x1234567890ABCDEF, (1 << 68) + 0xFEDCBA0987654321

    def gmp(v, e, m):
        def body():
            from Crypto.Math._IntegerGMP import IntegerGMP as K
            x = K(v)
            y = pow(x, e, m)
            x *= 3
            return "%x,%x,%s" % (int(y), int(x), x.to_bytes(12).hex())
        return body
    W["IntegerGMP"] = (["_IntegerGMP.py"], gmp(V1, 65537, (1 << 255) - 19), gmp(V2, 3, (1 << 127) - 1))

    def custom(v, e, m):
        def body():
            from Crypto.Math._IntegerCustom import IntegerCustom as K
            x = K(v)
            return "%x,%s" % (int(pow(x, e, m)), K._mult_modulo_bytes(K(v), K(v + 2), K(m)).hex()[:16])
        return body
    W["IntegerCustom"] = (["_IntegerCustom.py", "_IntegerNative.py"], custom(V1, 65537, (1 << 255) - 19), custom(V2, 3, (1 << 127) - 1))

    def native(v, m):
        def body():
            from Crypto.Math._IntegerNative import IntegerNative as K
            x = K(v)
            return "%x,%x" % (int(K(v % 1000003).inverse(1000003)), int(K.jacobi_symbol(K(v % 10007), K(10007))))
        return body
    W["IntegerNative"] = (["_IntegerNative.py", "_IntegerBase.py"], native(V1, 0), native(V2, 0))

    def rsa(bits, msg):
        def body():
            from Crypto.Signature import pkcs1_15
            from Crypto.Hash import SHA256
            return pkcs1_15.new(rsa_key(bits)).sign(SHA256.new(msg)).hex()[:32]
        return body
    W["RSA-sign"] = (["PublicKey/RSA.py", "pkcs1_15.py"], rsa(1024, b"a"), rsa(1025, b"b"))

    def dsa(msg):
        def body():
            from Crypto.Signature import DSS
            from Crypto.Hash import SHA256
            return DSS.new(dsa_key(1024), "deterministic-rfc6979").sign(SHA256.new(msg)).hex()[:32]
        return body
    W["DSA-sign"] = (["PublicKey/DSA.py", "Signature/DSS.py"], dsa(b"a"), dsa(b"b"))

    def ecdsa(curve, d, msg):
        def body():
            from Crypto.PublicKey import ECC
            from Crypto.Signature import DSS
            from Crypto.Hash import SHA256
            k = ECC.construct(curve=curve, d=d)
            return DSS.new(k, "deterministic-rfc6979").sign(SHA256.new(msg)).hex()[:32]
        return body
    W["ECDSA-sign"] = (["PublicKey/ECC.py", "PublicKey/_point.py"], ecdsa("p256", 99, b"a"), ecdsa("p256", 100, b"b"))

    def eddsa_(seed, msg):
        def body():
            from Crypto.PublicKey import ECC
            from Crypto.Signature import eddsa
            return eddsa.new(ECC.construct(curve="ed25519", seed=seed), "rfc8032").sign(msg).hex()[:32]
        return body
    W["EdDSA-sign"] = (["Signature/eddsa.py", "PublicKey/_edwards.py"], eddsa_(bytes(32), b"a"), eddsa_(bytes([1]) * 32, b"b"))

    def aead(mode, key, msg):
        def body():
            from Crypto.Cipher import AES
            m = getattr(AES, "MODE_" + mode)
            kw = {"nonce": bytes(12 if mode in ("GCM", "CCM", "OCB") else 16)}
            c = AES.new(key, m, **kw)
            c.update(b"hdr" + msg[:3])
            ct, tag = c.encrypt_and_digest(msg)
            return (ct + tag).hex()
        return body
    for mode, f in (("GCM", "_mode_gcm.py"), ("CCM", "_mode_ccm.py"), ("EAX", "_mode_eax.py"), ("OCB", "_mode_ocb.py"), ("SIV", "_mode_siv.py")):
        W["AES-" + mode] = ([f], aead(mode, K16[0] if mode != "SIV" else K32[0], bytes(range(20))), aead(mode, K16[1] if mode != "SIV" else K32[1], bytes(range(7, 24))))

    def hashes(which, msg):
        def body():
            from Crypto.Hash import SHA256, SHA3_256, SHAKE128, BLAKE2b, HMAC, CMAC, KMAC128, TupleHash128, KangarooTwelve, cSHAKE128
            from Crypto.Cipher import AES
            if which == 1:
                out = [SHA256.new(msg).hexdigest()[:8], SHA3_256.new(msg).hexdigest()[:8], SHAKE128.new(msg).read(4).hex(),
                       BLAKE2b.new(data=msg, digest_bytes=16, key=b"k").hexdigest()[:8]]
            elif which == 2:
                out = [HMAC.new(b"k" * 20, msg, SHA256).hexdigest()[:8], CMAC.new(bytes(16), msg, ciphermod=AES).hexdigest()[:8]]
            else:
                out = [KMAC128.new(key=b"k" * 16, data=msg, mac_len=16).hexdigest()[:8], TupleHash128.new().update(msg, msg[:2]).hexdigest()[:8],
                       cSHAKE128.new(data=msg, custom=b"c").read(4).hex()]
            return ",".join(out)
        return body
    W["hashes"] = (["Hash/SHA256.py", "Hash/SHA3_256.py", "Hash/SHAKE128.py", "Hash/BLAKE2b.py"], hashes(1, bytes(range(100))), hashes(1, bytes(range(50, 250))))
    W["MACs"] = (["Hash/HMAC.py", "Hash/CMAC.py"], hashes(2, bytes(range(100))), hashes(2, bytes(range(50, 250))))
    W["SP800-185"] = (["Hash/KMAC128.py", "Hash/TupleHash128.py", "Hash/KangarooTwelve.py", "Hash/cSHAKE128.py", "Hash/TurboSHAKE128.py"],
                      hashes(3, bytes(range(100))), hashes(3, bytes(range(50, 250))))

    def kdf(pw):
        def body():
            from Crypto.Protocol.KDF import PBKDF2, HKDF, scrypt, bcrypt
            from Crypto.Hash import SHA256
            return ",".join([PBKDF2(pw, b"salt" * 2, 20, 2, hmac_hash_module=SHA256).hex()[:8], HKDF(pw, 20, b"s", SHA256).hex()[:8],
                             ])
        return body
    W["KDF"] = (["Protocol/KDF.py"], kdf(b"password-one"), kdf(b"another password"))

    # ONE private key object shared by both threads and used for the first time by both: what the key computes lazily (the public point
    # of an EdDSA key) is "lazily initialised shared data".  The key is rebuilt for every execution (fresh=True below).
    def shared_key(curve, n):
        holder = {}

        def fresh():
            from Crypto.PublicKey import ECC
            holder["k"] = ECC.construct(curve=curve, seed=bytes(range(1, n + 1)))

        def body():
            k = holder["k"]
            return k.public_key().export_key(format="raw").hex()
        body.fresh = fresh
        return body
    for curve, n in (("ed25519", 32), ("ed448", 57)):
        b = shared_key(curve, n)
        W["shared-key-first-use-" + curve] = (["PublicKey/ECC.py"], b, b)

    def oaep(bits, msg):
        def body():
            from Crypto.Cipher import PKCS1_OAEP
            from ..keys import Stream
            k = rsa_key(bits)
            ct = PKCS1_OAEP.new(k, randfunc=Stream("oaep%d" % bits)).encrypt(msg)
            return ct.hex()[:16] + PKCS1_OAEP.new(k).decrypt(ct).hex()
        return body
    W["OAEP"] = (["Cipher/PKCS1_OAEP.py", "Signature/pss.py"], oaep(1024, b"message A"), oaep(1025, b"msg B"))

    return W


def glue_schedules(name, bound, acc, only_prefix=None, max_exec=None):
    files, fa, fb = _glue_workloads()[name]
    fresh = getattr(fa, "fresh", None)          # workloads on a shared object rebuild it before every execution

    def solo_run():
        out = []
        for f in (fa, fb):
            if fresh:
                fresh()
            out.append(repr(f()))
        return out
    solo = solo_run()
    if solo_run() != solo:
        acc.error("python glue workload %s is not deterministic when run alone" % name)
        return 0, {}
    sched = pysched.Scheduler({(f, "*") for f in files})
    state = {"fail": None, "points": 0}
    outcomes = {}

    def check(ex):
        acc.count("traces")
        acc.count("states", len(ex.points))
        acc.count("transitions", len(ex.points))
        state["points"] = max(state["points"], len(ex.points))
        res = [repr(ex.results.get(t)) for t in range(2)]
        problem = None
        if ex.deadlock:
            problem = "deadlock"
        elif ex.errors:
            problem = "exception " + "; ".join("thread %d: %s" % kv for kv in sorted(ex.errors.items()))
        elif res != solo:
            problem = "results differ from the results of each thread alone (%s vs %s)" % (res, solo)
        okey = "ok" if problem is None else problem.split(" ")[0]
        outcomes[okey] = outcomes.get(okey, 0) + 1
        if problem and state["fail"] is None:
            ch = list(ex.choices)
            while ch and ch[-1] == 0:
                ch.pop()
            state["fail"] = (ch, problem)
    def mk():
        if fresh:
            fresh()
        return [fa, fb]
    from Crypto.PublicKey import _point
    real_lock = _point._Curves.curves_lock
    _point._Curves.curves_lock = pysched.SchedRLock(sched)      # the library's only lock must be visible to the scheduler
    try:
        if only_prefix is not None:
            check(sched.run(mk(), only_prefix))
            n, capped = 1, False
        else:
            n, capped = pysched.explore(sched, mk, bound, check, max_executions=max_exec)
    finally:
        _point._Curves.curves_lock = real_lock
    if capped:
        acc.cap("python-level schedules over the glue code of %s capped at %d executions (bound %d)" % (name, max_exec, bound))
    acc.seen("glue_runs", (name, bound, n, state["points"]))
    if state["points"] < 10:
        acc.error("python glue workload %s: only %d scheduling points (trace filter does not match the library files)" % (name, state["points"]))
    if state["fail"]:
        choices, problem = state["fail"]
        acc.violation("C19/py-schedule/%s/%s" % (name, problem.split(" ")[0]),
                      "two threads, each with objects of its own, in the Python code of %s: schedule %s: %s" % (name, choices, problem[:600]),
                      {"part": "pyglue", "name": name, "choices": choices}, size=len(choices))
    return n, outcomes


def pyglue_worker(shards):
    acc = Acc()
    for name, limit, mx in shards:
        # two preemptions where the execution is short enough for the quadratic number of schedules, one otherwise
        probe = Acc()
        glue_schedules(name, 1, probe, only_prefix=[])
        pts = max([r[3] for r in probe.distinct.get("glue_runs", ())] or [0])
        bound = 2 if pts <= limit else 1
        n, outcomes = glue_schedules(name, bound, acc, max_exec=mx)
        acc.sample({"part": "python-glue-schedules", "workload": name, "preemption_bound": bound, "executions": n, "outcomes": outcomes})
    return acc


def pysched_worker(shards):
    acc = Acc()
    for curve, nthreads, bound, mx, full in shards:
        n, outcomes = sched_curve(curve, nthreads, bound, acc, max_exec=mx, full=full)
        acc.sample({"part": "python-schedules", "curve": curve, "threads": nthreads, "preemption_bound": bound,
                    "executions": n, "outcomes": outcomes})
    return acc


# ---------------------------------------------------------------------------
# part 4: native-level schedules (subprocess under the sched build + shim)
# ---------------------------------------------------------------------------
VERIF = os.path.dirname(os.path.dirname(os.path.dirname(os.path.abspath(__file__))))
SHIM = os.path.join(VERIF, "mc", "native", "libvsched.so")


def native_env(sched_tree, thin=None):
    env = dict(os.environ)
    if thin:
        env["VSCHED_THIN"] = str(thin)
    env["LD_PRELOAD"] = SHIM
    env["PYTHONMALLOC"] = "malloc"
    env["PYTHONPATH"] = os.path.join(sched_tree, "lib") + os.pathsep + VERIF
    env["PYTHONHASHSEED"] = "0"
    return env


def native_names():
    # static copy of the workload table's keys (the table itself needs the sched build to import)
    hs = ["hash/" + h for h in ("MD2", "MD4", "MD5", "SHA1", "SHA224", "SHA256", "SHA384", "SHA512", "RIPEMD160", "SHA3_256",
                                "SHAKE128", "BLAKE2b", "BLAKE2s", "keccak", "Poly1305")]
    cs = ["cipher/" + c for c in ("AES-ECB", "AES-ECB-noaesni", "AES-CBC", "AES-CFB", "AES-OFB", "AES-CTR", "DES", "DES3",
                                  "ARC2", "Blowfish", "CAST", "ARC4", "Salsa20", "ChaCha20")]
    ae = ["aead/" + a for a in ("GCM", "GCM-noclmul", "OCB", "CCM", "EAX", "ChaCha20-Poly1305")]
    ec = ["ec/mul-" + c for c in ("p192", "p224", "p256", "p384", "p521", "ed25519", "ed448", "curve25519", "curve448")]
    ec += ["ec/shared-operand-" + c for c in ("p256", "p521", "ed25519", "ed448", "curve25519", "curve448")]
    ec += ["ec/sign-p256", "ec/sign-ed25519", "ec/sign-ed448"]
    ms = ["math/modexp", "misc/strxor", "misc/scrypt", "misc/bcrypt", "misc/pkcs1", "misc/pbkdf2"]
    return hs + cs + ae + ec + ms


def _run_child(sched_tree, args, timeout=1500, thin=None):
    fd, out = tempfile.mkstemp(prefix="nsched", suffix=".json", dir=sched_tree)
    os.close(fd)
    os.unlink(out)
    r = subprocess.run([sys.executable, "-m", "mc.explore.nsched_child", out] + args,
                       cwd=VERIF, env=native_env(sched_tree, thin), stdin=subprocess.DEVNULL,
                       stdout=subprocess.PIPE, stderr=subprocess.STDOUT, timeout=timeout)

    def load(suffix):
        try:
            with open(out + suffix) as fh:
                return json.load(fh)
        except Exception:
            return None
    results, partial, progress = load(""), load(".partial"), load(".progress")
    for sfx in ("", ".partial", ".progress"):
        try:
            os.unlink(out + sfx)
        except OSError:
            pass
    return r, results, partial, progress


def native_worker(shards):
    acc = Acc()
    for sched_tree, bound, names, thin in shards:
        todo = list(names)
        results = []
        while todo:
            r, res, partial, progress = _run_child(sched_tree, [str(bound)] + todo, thin=thin)
            if res is not None:
                results += res
                break
            # the child died: everything finished before is in .partial, the schedule being executed in .progress
            done = partial or []
            results += done
            finished = {d["workload"] for d in done}
            if not progress or progress["workload"] in finished or progress["workload"] not in todo:
                acc.error("native schedule child failed for %s: rc=%d %s" % (todo, r.returncode, r.stdout.decode(errors="replace")[-1500:]))
                break
            w = progress["workload"]
            msg = r.stdout.decode(errors="replace").strip().split("\n")[-1][-300:]
            acc.violation("C19/native/%s/crash-under-interleaving" % w,
                          "two threads using distinct objects of %s: the process dies (rc=%d: %s) under schedule start=%d "
                          "preempt-at=%s" % (w, r.returncode, msg, progress["start"], progress["plan"]),
                          {"part": "native", "workload": w, "start": progress["start"], "plan": progress["plan"]},
                          size=len(progress["plan"]))
            acc.seen("native_workloads", w)
            acc.seen("native_conflicts", (w, -1))
            todo = todo[todo.index(w) + 1:]
        for res in results:
            w = res["workload"]
            acc.count("traces", res["schedules"])
            acc.count("transitions", res["schedules"] * max(1, res["points_per_execution"]))
            acc.count("states", res["schedules"] * max(1, res["points_per_execution"]))
            acc.count("native_accesses_classified", sum(s["accesses"] for s in res["stats"]))
            acc.seen("native_workloads", w)
            acc.seen("native_conflicts", (w, res["conflict_granules"]))
            for c in res.get("caps", []):
                acc.cap("native " + c)
            if res["conflict_granules"]:
                acc.observe("native workload %s: %d conflicting 8-byte granules, %d schedules (<=%d preemptions), %d distinct outcomes"
                            % (w, res["conflict_granules"], res["schedules"], bound, len(res["outcomes"])))
            acc.sample({"part": "native-schedules", "workload": w, "stats": res["stats"], "conflicts": res["conflict_granules"],
                        "schedules": res["schedules"], "reduced_to_one_representative": res.get("reduced")})
            for f in res["failures"][:1]:
                if "what" in f:
                    acc.error("native workload %s: %s" % (w, f["what"]))
                    continue
                acc.violation("C19/native/%s/result-differs-under-interleaving" % w,
                              "two threads using distinct objects of %s: schedule start=%d preempt-at=%s gives %s, each thread alone "
                              "gives %s (%d of %d schedules fail)" % (w, f["start"], f["plan"], short(f["got"]), short(f["expected"]),
                                                                       res.get("failing_schedules", 0), res["schedules"]),
                              {"part": "native", "workload": w, "start": f["start"], "plan": f["plan"]},
                              size=len(f["plan"]))
    return acc


def native_replay(case, acc):
    from .. import build
    tree, info = build.build("C19r", "sched")
    try:
        r, res, partial, progress = _run_child(tree, ["replay", case["workload"], str(case["start"]),
                                                     ",".join(str(p) for p in case["plan"])], timeout=600)
        if res is None:
            acc.violation("C19/native/%s/crash-under-interleaving" % case["workload"],
                          "replayed schedule kills the process (rc=%d)" % r.returncode, case)
        elif res[0]["fails"]:
            acc.violation("C19/native/%s/result-differs-under-interleaving" % case["workload"],
                          "replayed schedule gives %s, solo %s" % (short(res[0]["got"]), short(res[0]["solo"])), case)
    finally:
        build.cleanup(tree)


def writable_statics(tree):
    """writable static storage in the built extensions, from the symbol tables (cheap cross-check of part 4)"""
    out = {}
    for root, _, fs in os.walk(os.path.join(tree, "lib")):
        for f in fs:
            if not f.endswith(".so"):
                continue
            r = subprocess.run(["nm", "--defined-only", os.path.join(root, f)], stdout=subprocess.PIPE, stderr=subprocess.DEVNULL)
            for line in r.stdout.decode().split("\n"):
                p = line.split()
                if len(p) == 3 and p[1] in "bBdD" and not p[2].startswith(("__", "_", "completed", "dtor", "object.")) \
                        and p[2] not in ("completed.0",):
                    out.setdefault(f, []).append(p[2])
    return out


# ---------------------------------------------------------------------------
def run(ctx):
    from .. import build
    q = ctx.quick
    # ---- parts 1 + 2
    names = sorted(_factories())
    shards = [[("pair", n, n)] for n in names] + [[("pair", a, b)] for a, b in CROSS]
    depth = 4 if q else 5
    for cname in sorted(_copy_classes()):
        for first in COPY_OPS:
            shards.append([("copy", cname, depth, first)])
    ctx.pmap(seq_worker, shards)
    ctx.pmap(args_worker, [0])
    # ---- part 3
    curves = list(CURVE_ALIASES)
    sh = []
    for c in curves:
        sh.append([(c, 2, 2, None, False)])
    for c in (("p256", "ed25519", "curve25519") if q else curves):
        sh.append([(c, 3, 1 if q else 2, 4000 if q else 90000, False)])
    for c in (("p256+ed25519", "p384+curve448") if q else ("p256+ed25519", "p384+curve448", "p521+p192", "ed448+curve25519", "p224+ed448")):
        sh.append([(c, 2, 2, None, False)])
    if not q:
        for c in ("p256", "ed448", "curve448"):
            sh.append([(c, 2, 2, 40000, True)])
    ctx.pmap(pysched_worker, sh)
    ctx.pmap(pyglue_worker, [[(nme, 100 if q else 320, None)] for nme in _glue_workloads_names()])
    # ---- part 4
    if not os.path.isfile(SHIM):
        r = subprocess.run(["make", "-s", "-C", os.path.dirname(SHIM)], stdout=subprocess.PIPE, stderr=subprocess.STDOUT)
        if r.returncode:
            ctx.acc.error("cannot build libvsched.so: " + r.stdout.decode()[-500:])
    tree = None
    try:
        tree, info = build.build("C19s", "sched")
        names = native_names()
        heavy = [n for n in names if "ed448" in n]
        light = [n for n in names if n not in heavy]
        ctx.pmap(native_worker, [[(tree, 2, [n], 40 if q else 300)] for n in heavy] +
                 [[(tree, 2, grp, 40 if q else 300)] for grp in chunks(light, 12)])
        statics = writable_statics(tree)
    except build.BuildError as e:
        ctx.acc.error("sched build failed: %s" % e)
        statics = {}
    finally:
        if tree:
            build.cleanup(tree)
    a = ctx.acc
    ctx.require(len(a.distinct.get("pairs", ())) >= 60, "fewer than 60 object pairs interleaved")
    ctx.require(len(a.distinct.get("glue_runs", ())) >= len(_glue_workloads_names()), "python glue schedules: not every workload was explored")
    ctx.require(len(a.distinct.get("native_workloads", ())) >= 45, "fewer than 45 native workloads explored")
    ctx.require(len({o[2][:1] for o in a.distinct.get("lock_orders", ())}) >= 2,
                "python-level schedules never varied which thread takes the registry lock first")
    ctx.coverage_extra.update({
        "states": a.n.get("states", 0), "transitions": a.n.get("transitions", 0),
        "traces_validated_against_impl": a.n.get("traces", 0),
        "object_pairs_interleaved": len(a.distinct.get("pairs", ())),
        "copy_classes": len(a.distinct.get("copyclasses", ())), "copy_history_depth": depth,
        "argument_monitor_calls": len(a.distinct.get("argcalls", ())),
        "python_schedule_runs": sorted([list(x) for x in a.distinct.get("sched_runs", ())]),
        "python_glue_schedule_runs": {"what": "two threads with objects of their own; every line of the named library files is a scheduling point; "
                                              "[workload, preemption bound, executions, points per execution]",
                                      "runs": sorted([list(x) for x in a.distinct.get("glue_runs", ())])},
        "native_workloads": len(a.distinct.get("native_workloads", ())),
        "native_accesses_classified": a.n.get("native_accesses_classified", 0),
        "native_workloads_with_conflicts": sorted(w for w, c in a.distinct.get("native_conflicts", ()) if c),
        "writable_static_symbols": statics,
        "exhaustive": not a.caps,
    })
    ctx.assume("part 4: sequential consistency; races inside libc/libgmp are not visible; memory in caller-owned buffers and "
               "in blocks a thread allocated itself is private to that thread; conflict sets are measured on solo runs")
    ctx.assume("part 3: Python's import lock is outside the scheduler (loader modules are pre-imported); scheduling points "
               "are the lines of _Curves.__getitem__/load and the registry lock operations")
    ctx.assume("a free-running many-thread stress pass is not part of the verdict")


def replay(case, acc):
    p = case["part"]
    if p == "interleave":
        interleave_pair(case["a"], case["b"], acc, only=(case["combo"], case["third"]))
    elif p == "copy":
        copy_history(case["cls"], tuple(case["hist"]), acc)
    elif p == "args":
        acc.merge(args_worker(0))
    elif p == "pysched":
        sched_curve(case["curve"], case["nthreads"], 0, acc, only_prefix=case["choices"], full=case.get("full", False))
    elif p == "pyglue":
        glue_schedules(case["name"], 0, acc, only_prefix=case["choices"])
    elif p == "native":
        native_replay(case, acc)
