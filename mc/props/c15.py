"""C15 - HPKE contexts conform to RFC 9180 for every suite, mode and message history.

Model checking of the implementation: for every KEM x AEAD x mode, a real sender context seals a
short message sequence; the *reference receiver* (mc.ref.hpke, derived from skR and enc only)
must reproduce key/nonce/ciphertexts; then every history of receiver events (genuine, replayed,
reordered, corrupted, truncated, foreign messages) up to a depth bound is offered to a fresh real
receiver context in lock-step with the reference ContextR (seq advances only on success).
"""
import itertools

from ..common import Acc, short, seeded, seeded_int
from ..keys import Stream
from ..ref import hpke as R
from ..ref import ec as REC

LEVEL = "model_checking"
RULE = ("for each of the 60 suites (5 KEM x 3 AEAD x 4 modes): set-up + 4 sealed messages compared with the RFC 9180 "
        "reference, then all receiver event histories up to the stated depth (events: deliver/replay/skip, bit flips, "
        "wrong AAD, truncation, foreign ciphertext, too-short) on fresh real receiver contexts; states = history tree "
        "nodes, transitions = unseal()/seal() calls on real contexts, traces = maximal histories")
BUDGET = {"quick": 200, "thorough": 2400}

KEM_CURVE = {0x10: "p256", 0x11: "p384", 0x12: "p521", 0x20: "curve25519", 0x21: "curve448"}
KEM_KDF = {0x10: 1, 0x11: 2, 0x12: 3, 0x20: 1, 0x21: 3}
MODES = (0, 1, 2, 3)
AEADS = (1, 2, 3)
PSK = bytes(range(40))
PSK_ID = b"psk-identity"
INFO = b"verif info"
MSGS = [(b"first message", b"aad-0"), (b"second msg, empty aad", b""), (b"", b"aad only"), (bytes(33), bytes(17))]


class _ShimECC:
    """Crypto.Protocol.HPKE calls ECC.generate(curve=...) for the ephemeral key: make it deterministic."""
    def __init__(self, real, label):
        self._real, self._label, self._n = real, label, 0

    def generate(self, **kw):
        self._n += 1
        kw.setdefault("randfunc", Stream("%s/%d" % (self._label, self._n)))
        return self._real.generate(**kw)

    def __getattr__(self, k):
        return getattr(self._real, k)


def _priv(kem, label):
    """-> (library private key, reference sk, serialized public key)"""
    from Crypto.PublicKey import ECC
    cname = KEM_CURVE[kem]
    if kem in (0x20, 0x21):
        n = 32 if kem == 0x20 else 56
        seed = seeded("hpke/%s/%x" % (label, kem), n)
        k = ECC.construct(curve=cname, seed=seed)
        return k, seed, R.kem_derive_public(kem, seed)
    order = REC.CURVES[cname].order
    d = 1 + seeded_int("hpke/%s/%x" % (label, kem), order.bit_length() + 64) % (order - 1)
    k = ECC.construct(curve=cname, d=d)
    return k, d, R.kem_derive_public(kem, d)


class Scenario:
    """One suite/mode with real sender, reference receiver and the sealed messages."""

    def __init__(self, kem, aead, mode, info=INFO, psk=PSK, psk_id=PSK_ID, label="main"):
        from Crypto.Protocol import HPKE
        from Crypto.PublicKey import ECC
        self.kem, self.aead, self.mode = kem, aead, mode
        self.suite = (kem, KEM_KDF[kem], aead)
        self.info = info
        self.rk, self.skR, self.pkR = _priv(kem, "R")
        self.sk, self.skS, self.pkS = _priv(kem, "S")
        self.auth = mode in (2, 3)
        self.psk = (psk_id, psk) if mode in (1, 3) else None
        real_ecc = HPKE.ECC._real if isinstance(HPKE.ECC, _ShimECC) else HPKE.ECC
        HPKE.ECC = _ShimECC(real_ecc, "eph/%x/%d/%d/%s" % (kem, aead, mode, label))
        try:
            self.sender = HPKE.new(receiver_key=self.rk.public_key(), aead_id=HPKE.AEAD(aead),
                                   sender_key=self.sk if self.auth else None, psk=self.psk, info=info)
        finally:
            HPKE.ECC = real_ecc
        self.enc = self.sender.enc
        self.cts = [self.sender.seal(pt, aad) for pt, aad in MSGS]

    def ref_receiver(self, **over):
        kw = dict(mode=self.mode, suite=self.suite, enc=self.enc, skR=self.skR, info=self.info,
                  psk=self.psk[1] if self.psk else b"", psk_id=self.psk[0] if self.psk else b"",
                  pkS=self.pkS if self.auth else None)
        kw.update(over)
        return R.setup_receiver(**kw)

    def real_receiver(self, **over):
        from Crypto.Protocol import HPKE
        kw = dict(receiver_key=self.rk, aead_id=HPKE.AEAD(self.aead), enc=self.enc,
                  sender_key=self.sk.public_key() if self.auth else None, psk=self.psk, info=self.info)
        kw.update(over)
        return HPKE.new(**kw)


def _name(kem, aead, mode):
    return "kem%02x-aead%d-mode%d" % (kem, aead, mode)


# ---------------------------------------------------------------------------
# part 1: set-up and sender conformance (all 60 suites)
# ---------------------------------------------------------------------------
def check_setup(kem, aead, mode, acc):
    from Crypto.Protocol import HPKE
    name = _name(kem, aead, mode)
    case = {"part": "setup", "kem": kem, "aead": aead, "mode": mode}
    sc = Scenario(kem, aead, mode)
    acc.count("transitions", len(MSGS))
    # enc is a valid serialized public key of the KEM
    try:
        R.kem_deserialize_public(kem, sc.enc)
    except ValueError as e:
        acc.violation("C15/setup/enc-not-a-valid-public-key", "%s: enc %s is not a valid serialized KEM public key (%s)"
                      % (name, short(sc.enc), e), case)
        return None
    ref = sc.ref_receiver()
    # ciphertexts equal Seal(key, base_nonce xor seq, aad, pt)
    s = R.ContextS(sc.suite, ref.key, ref.base_nonce, ref.exporter_secret)
    nonces = set()
    for i, (pt, aad) in enumerate(MSGS):
        nonces.add(s.compute_nonce())
        exp = s.seal(aad, pt)
        if exp != sc.cts[i]:
            acc.violation("C15/seal/ciphertext-differs-from-rfc9180",
                          "%s: seal #%d gives %s, RFC 9180 key schedule + Seal gives %s"
                          % (name, i, short(sc.cts[i]), short(exp)), case)
            return None
    if len(nonces) != len(MSGS):
        acc.violation("C15/seal/nonce-reuse", "%s: nonces repeat within one context" % name, case)
    if sc.sender._key != ref.key or sc.sender._base_nonce != ref.base_nonce:
        acc.violation("C15/setup/key-schedule", "%s: key/base_nonce differ from the reference" % name, case)
    # in-order delivery on a real receiver
    rr = sc.real_receiver()
    for i, (pt, aad) in enumerate(MSGS):
        acc.count("transitions")
        try:
            got = rr.unseal(sc.cts[i], aad)
        except ValueError as e:
            got = "ValueError(%s)" % e
        if got != pt:
            acc.violation("C15/unseal/in-order-delivery", "%s: genuine message #%d in order -> %s" % (name, i, short(got)), case)
            break
    # the AEAD given by its RFC 9180 code point (a plain int; AEAD is an IntEnum and HPKE.new accepts both): same context
    try:
        ri = sc.real_receiver(aead_id=int(aead))
        got = ri.unseal(sc.cts[0], MSGS[0][1])
    except Exception as e:  # noqa
        got = "%s(%s)" % (type(e).__name__, e)
    acc.count("transitions")
    if got != MSGS[0][0]:
        acc.violation("C15/setup/aead-id-as-int-differs-from-enum-member",
                      "%s: a receiver created with aead_id=%d (plain int) answers %s to the genuine first message; with the enum member it "
                      "returns the plaintext" % (name, aead, short(got)), case)
    acc.seen("classes", ("setup", kem, aead, mode))
    acc.count("traces")
    acc.count("states", 1 + len(MSGS))
    # receiver set up with one mismatching parameter must reject the genuine first message
    variants = [("info", dict(info=INFO + b"!")), ("aead", dict(aead_id=HPKE.AEAD(1 + aead % 3)))]
    if sc.psk:
        variants += [("psk", dict(psk=(PSK_ID, PSK[::-1]))), ("psk_id", dict(psk=(PSK_ID + b"x", PSK)))]
    if sc.auth:
        other, _, _ = _priv(kem, "S2")
        variants += [("sender-identity", dict(sender_key=other.public_key()))]
    # RFC 9180 4.1: Decap() binds the key schedule to the enc OCTETS AS RECEIVED.  A different octet string that
    # decodes to the same public key (X25519 ignores bit 255; a compressed SEC1 point; ...) must therefore not open a
    # message sealed for the canonical enc: either set-up refuses it or unseal() fails.
    if kem == 0x20:
        variants += [("enc-octets", dict(enc=sc.enc[:-1] + bytes([sc.enc[-1] ^ 0x80])))]
    elif kem in (0x10, 0x11, 0x12):
        c = REC.CURVES[KEM_CURVE[kem]]
        P = REC.sec1_decode(c, sc.enc)
        variants += [("enc-octets", dict(enc=REC.sec1_encode(c, P, compressed=True)))]
    for vname, over in variants:
        acc.count("transitions")
        try:
            r2 = sc.real_receiver(**over)
            got = r2.unseal(sc.cts[0], MSGS[0][1])
            acc.violation("C15/unseal/accepted-under-different-%s" % vname,
                          "%s: message sealed under one %s opened by a receiver configured with another" % (name, vname),
                          case)
        except ValueError:
            pass
        acc.seen("classes", ("variant", vname, aead, mode))
    return sc


# ---------------------------------------------------------------------------
# part 2: receiver histories
# ---------------------------------------------------------------------------
def build_events(sc, foreign, reduced):
    """-> list of (label, kind, ciphertext, aad)"""
    ev = []
    idx = (0, 1, 2) if reduced else (0, 1, 2, 3)
    kinds = ("deliver", "flip_tag", "wrong_aad", "truncate") if reduced else \
        ("deliver", "flip_ct", "flip_tag", "wrong_aad", "truncate", "foreign")
    for i in idx:
        ct, (pt, aad) = sc.cts[i], MSGS[i]
        for k in kinds:
            if k == "deliver":
                ev.append(("deliver(%d)" % i, k, ct, aad))
            elif k == "flip_ct":
                ev.append(("flip_ct(%d)" % i, k, bytes([ct[0] ^ 0x80]) + ct[1:], aad))
            elif k == "flip_tag":
                ev.append(("flip_tag(%d)" % i, k, ct[:-1] + bytes([ct[-1] ^ 1]), aad))
            elif k == "wrong_aad":
                ev.append(("wrong_aad(%d)" % i, k, ct, aad + b"x"))
            elif k == "truncate":
                ev.append(("truncate(%d)" % i, k, ct[:-1], aad))
            elif k == "foreign":
                ev.append(("foreign(%d)" % i, k, foreign[i], aad))
    if reduced:
        ev.append(("foreign(0)", "foreign", foreign[0], MSGS[0][1]))
    ev.append(("short", "short", bytes(15), b""))
    return ev


def explore_receiver(sc, events, depth, first, acc, name):
    """all histories of `events` of length <= depth whose first event index is `first`"""
    ref0 = sc.ref_receiver()
    key, bn, es = ref0.key, ref0.base_nonce, ref0.exporter_secret
    memo = {}

    def ref_open(seq, ei):
        r = memo.get((seq, ei))
        if r is None:
            c = R.ContextR(sc.suite, key, bn, es)
            c.seq = seq
            _, _, ct, aad = events[ei]
            try:
                r = ("ok", c.open(aad, ct))
            except ValueError:
                r = ("rej",)
            memo[(seq, ei)] = r
        return r

    def run(hist):
        """execute hist on a fresh real receiver; compare every step; -> (ok, refseq)"""
        rr = sc.real_receiver()
        seq = 0
        rejected_before = False
        for pos, ei in enumerate(hist):
            label, kind, ct, aad = events[ei]
            exp = ref_open(seq, ei)
            acc.count("transitions")
            try:
                got = ("ok", rr.unseal(ct, aad))
            except ValueError:
                got = ("rej",)
            except Exception as e:  # noqa
                got = ("exc", type(e).__name__)
            acc.seen("classes", (name.split("-")[1], kind, exp[0], got[0], rejected_before))
            if got != exp:
                if pos == len(hist) - 1:
                    k = "C15/unseal/exp-%s-got-%s/%s" % (
                        {"ok": "plaintext", "rej": "ValueError"}[exp[0]],
                        {"ok": "plaintext" if exp[0] != "ok" else "other-plaintext", "rej": "ValueError"}.get(got[0], got[-1]),
                        "after-rejected-message" if rejected_before else "clean-history")
                    acc.violation(k, "%s: receiver history %s : last event should give %s, gave %s"
                                  % (name, " ; ".join(events[e][0] for e in hist),
                                     "plaintext" if exp[0] == "ok" else "ValueError",
                                     short(got[1]) if got[0] == "ok" else got[-1]),
                                  {"part": "recv", "kem": sc.kem, "aead": sc.aead, "mode": sc.mode,
                                   "events": [events[e][0] for e in hist], "reduced": len(events) < 20},
                                  size=len(hist))
                return False, seq
            if exp[0] == "ok":
                seq += 1
            else:
                rejected_before = True
        return True, seq

    def dfs(hist):
        ok, seq = run(hist)
        acc.count("states")
        acc.seen("refstates", (seq, len(hist)))
        if not ok or len(hist) >= depth:
            acc.count("traces")
            return
        for ei in range(len(events)):
            dfs(hist + (ei,))

    dfs((first,))


def worker(shards):
    acc = Acc()
    R.AEAD_IMPL.clear()
    for sh in shards:
        if sh[0] == "setup":
            _, kem, aead, mode = sh
            check_setup(kem, aead, mode, acc)
        elif sh[0] == "recv":
            _, kem, aead, mode, depth, reduced, first = sh
            sc = Scenario(kem, aead, mode)
            foreign = Scenario(kem, aead, mode, info=b"another context", label="foreign").cts
            ev = build_events(sc, foreign, reduced)
            if first < len(ev):
                explore_receiver(sc, ev, depth, first, acc, _name(kem, aead, mode))
        elif sh[0] == "limit":
            check_limit(sh[1], sh[2], sh[3], acc)
        elif sh[0] == "refuse":
            check_refusals(sh[1], acc)
    acc.sample({"shard": list(sh)})
    return acc


# ---------------------------------------------------------------------------
# part 3: sequence exhaustion (white-box seam: the context's sequence attribute)
# ---------------------------------------------------------------------------
def check_limit(kem, aead, mode, acc):
    name = _name(kem, aead, mode)
    case = {"part": "limit", "kem": kem, "aead": aead, "mode": mode}
    sc = Scenario(kem, aead, mode)
    ref = sc.ref_receiver()
    mx = (1 << 96) - 1
    if not hasattr(sc.sender, "_sequence"):
        acc.error("seam HPKE_Cipher._sequence not found")
        return
    for start in (mx - 2, mx - 1, mx):
        # sender
        s_real = Scenario(kem, aead, mode).sender
        s_real._sequence = start
        s_ref = R.ContextS(sc.suite, ref.key, ref.base_nonce, ref.exporter_secret)
        s_ref.seq = start
        for step in range(3):
            acc.count("transitions")
            try:
                e = ("ok", s_ref.seal(b"a", b"pt"))
            except ValueError:
                e = ("limit",)
            try:
                g = ("ok", s_real.seal(b"pt", b"a"))
            except ValueError:
                g = ("limit",)
            except Exception as ex:  # noqa
                g = (type(ex).__name__,)
            acc.seen("classes", ("limit", "seal", e[0], g[0]))
            if e[0] != g[0] or (e[0] == "ok" and s_real._key == ref.key and e != g):
                acc.violation("C15/limit/seal-at-sequence-end",
                              "%s: seal with sequence number 2^96-1-%d (+%d calls): reference %s, library %s"
                              % (name, mx - start, step, e[0], g[0]), case)
                break
        # receiver: a genuine message for that sequence number
        r_real = sc.real_receiver()
        r_real._sequence = start
        r_ref = R.ContextR(sc.suite, ref.key, ref.base_nonce, ref.exporter_secret)
        r_ref.seq = start
        gen = R.ContextS(sc.suite, ref.key, ref.base_nonce, ref.exporter_secret)
        for step in range(3):
            acc.count("transitions")
            gen.seq = r_ref.seq
            try:
                ct = gen.seal(b"a", b"pt")
            except ValueError:
                ct = bytes(20)
            try:
                e = ("ok", r_ref.open(b"a", ct))
            except ValueError:
                e = ("rej",)
            try:
                g = ("ok", r_real.unseal(ct, b"a"))
            except ValueError:
                g = ("rej",)
            except Exception as ex:  # noqa
                g = (type(ex).__name__,)
            acc.seen("classes", ("limit", "unseal", e[0], g[0]))
            if e != g:
                acc.violation("C15/limit/unseal-at-sequence-end",
                              "%s: unseal with sequence number 2^96-1-%d (+%d): reference %s, library %s"
                              % (name, mx - start, step, e[0], g[0]), case)
                break
    acc.count("traces", 6)
    acc.count("states", 18)


# ---------------------------------------------------------------------------
# part 4: set-up refusals
# ---------------------------------------------------------------------------
def check_refusals(kem, acc):
    from Crypto.Protocol import HPKE
    from Crypto.PublicKey import ECC
    name = "kem%02x" % kem
    rk, skR, pkR = _priv(kem, "R")
    sk, skS, pkS = _priv(kem, "S")
    okem = 0x20 if kem != 0x20 else 0x10
    ok_other, _, _ = _priv(okem, "S")
    A = HPKE.AEAD.AES128_GCM
    sc = Scenario(kem, 1, 0)

    def expect_refused(label, **kw):
        acc.count("transitions")
        acc.count("states")
        try:
            HPKE.new(**kw)
            acc.violation("C15/setup/accepted-%s" % label, "%s: HPKE.new accepted %s" % (name, label),
                          {"part": "refuse", "kem": kem})
        except ValueError:
            acc.seen("classes", ("refuse", label, "ValueError"))
        except Exception as e:  # noqa
            acc.seen("classes", ("refuse", label, type(e).__name__))
            acc.observe("set-up refusal '%s' raises %s instead of ValueError" % (label, type(e).__name__))

    pub = rk.public_key()
    expect_refused("psk-without-id", receiver_key=pub, aead_id=A, psk=(b"", PSK))
    expect_refused("psk-id-without-psk", receiver_key=pub, aead_id=A, psk=(PSK_ID, b""))
    # the complete PSK matrix of RFC 9180 5.1 (VerifyPSKInputs): every malformed pair, with and without a sender key,
    # on the sending and on the receiving side
    for lbl, pair in (("psk-both-empty", (b"", b"")), ("psk-without-id", (b"", PSK)), ("psk-id-without-psk", (PSK_ID, b"")),
                      ("psk-shorter-than-32", (PSK_ID, PSK[:31]))):
        for auth in (False, True):
            expect_refused("%s/%s/sender" % (lbl, "auth" if auth else "noauth"), receiver_key=pub, aead_id=A, psk=pair,
                           **({"sender_key": sk} if auth else {}))
            expect_refused("%s/%s/receiver" % (lbl, "auth" if auth else "noauth"), receiver_key=rk, aead_id=A, psk=pair, enc=sc.enc,
                           **({"sender_key": sk.public_key()} if auth else {}))
    expect_refused("two-private-keys", receiver_key=rk, aead_id=A, sender_key=sk, enc=sc.enc)
    expect_refused("no-private-key-with-sender", receiver_key=pub, aead_id=A, sender_key=sk.public_key())
    expect_refused("curve-mismatch", receiver_key=pub, aead_id=A, sender_key=ok_other)
    expect_refused("enc-when-sealing", receiver_key=pub, aead_id=A, enc=sc.enc)
    expect_refused("missing-enc-when-opening", receiver_key=rk, aead_id=A)
    # malformed enc
    n = len(sc.enc)
    bad = [("empty-enc", b""), ("truncated-enc", sc.enc[:-1]), ("extended-enc", sc.enc + b"\x00")]
    if kem in (0x10, 0x11, 0x12):
        c = REC.CURVES[KEM_CURVE[kem]]
        x, y = REC.sec1_decode(c, sc.enc)
        L = c.size_bytes
        bad += [("off-curve-enc", b"\x04" + x.to_bytes(L, "big") + ((y + 1) % c.p).to_bytes(L, "big")),
                ("enc-x-ge-p", b"\x04" + (c.p).to_bytes(L, "big") + y.to_bytes(L, "big")) if c.p.bit_length() <= 8 * L else None,
                ("bad-prefix-enc", b"\x05" + sc.enc[1:])]
    else:
        lows = REC.LOW_ORDER_U_25519 if kem == 0x20 else REC.LOW_ORDER_U_448
        for u in lows:
            bad.append(("low-order-enc", u.to_bytes(n, "little")))
    for item in bad:
        if item is None:
            continue
        label, enc = item
        expect_refused(label, receiver_key=rk, aead_id=A, enc=enc)
    acc.count("traces")


# ---------------------------------------------------------------------------
def run(ctx):
    q = ctx.quick
    R.selftest()
    shards = []
    for kem in KEM_CURVE:
        for aead in AEADS:
            for mode in MODES:
                shards.append([("setup", kem, aead, mode)])
    # receiver histories: full alphabet on representative suites, reduced alphabet on all 60
    full = [(0x20, 1, 0), (0x20, 2, 1), (0x20, 3, 3), (0x10, 1, 2)]
    if not q:
        full += [(0x21, 3, 0), (0x11, 2, 3), (0x12, 1, 1)]
    d_full = 3 if q else 4
    for kem, aead, mode in full:
        for first in range(26):
            shards.append([("recv", kem, aead, mode, d_full, False, first)])
    d_red = 2 if q else 3
    for kem in KEM_CURVE:
        for aead in AEADS:
            for mode in MODES:
                if q:
                    shards.append([("recv", kem, aead, mode, d_red, True, f) for f in range(14)])
                else:
                    # depth 3 on all 60 suites, depth 4 on one mode per (KEM, AEAD) pair (15 suites)
                    d = 4 if mode == (kem + aead) % 4 else d_red
                    for f in range(14):
                        shards.append([("recv", kem, aead, mode, d, True, f)])
    for kem in KEM_CURVE:
        shards.append([("refuse", kem)])
        for aead in AEADS:
            shards.append([("limit", kem, aead, (kem + aead) % 4)])
    ctx.pmap(worker, shards)
    a = ctx.acc
    cl = a.distinct.get("classes", set())
    ctx.require(any(c[0] == "setup" for c in cl) and sum(1 for c in cl if c[0] == "setup") == 60,
                "not all 60 suites were set up")
    ctx.require(any(len(c) == 5 and c[2] == "ok" for c in cl) and any(len(c) == 5 and c[2] == "rej" for c in cl),
                "receiver histories did not contain both accepted and rejected events")
    ctx.coverage_extra.update({
        "states": a.n.get("states", 0), "transitions": a.n.get("transitions", 0),
        "traces_validated_against_impl": a.n.get("traces", 0),
        "distinct_reference_states": len(a.distinct.get("refstates", ())),
        "distinct_event_outcome_classes": len(cl),
        "exhaustive": not a.caps,
        "suites": 60,
        "receiver_history_depth": {"full alphabet (25 events) on %d suites" % len(full): d_full,
                                   "reduced alphabet (14 events) on all 60 suites": d_red,
                                   "reduced alphabet on one mode per (KEM, AEAD) pair (15 suites)": d_red if q else 4},
        "conformance": "the reference never drives the sender: it derives key/base_nonce from (skR, enc, info, psk, pkS) and must "
                       "reproduce every ciphertext; every receiver history is run on a fresh real context",
    })
    ctx.assume("message/AAD/info/PSK values are fixed representatives incl. empty plaintext and empty AAD")
    ctx.assume("sequence exhaustion is reached by positioning HPKE_Cipher._sequence (white-box seam), not by 2^96 messages")
    ctx.assume("the library's minimum PSK length (32 bytes) is stricter than RFC 9180 VerifyPSKInputs and not demanded")


def replay(case, acc):
    R.AEAD_IMPL.clear()
    p = case["part"]
    if p == "setup":
        check_setup(case["kem"], case["aead"], case["mode"], acc)
    elif p == "limit":
        check_limit(case["kem"], case["aead"], case["mode"], acc)
    elif p == "refuse":
        check_refusals(case["kem"], acc)
    elif p == "recv":
        sc = Scenario(case["kem"], case["aead"], case["mode"])
        foreign = Scenario(case["kem"], case["aead"], case["mode"], info=b"another context", label="foreign").cts
        ev = build_events(sc, foreign, case["reduced"])
        labels = [e[0] for e in ev]
        hist = tuple(labels.index(l) for l in case["events"])
        # run exactly this history: depth = len(hist), restricted to the recorded path
        sub = Acc()
        explore_path(sc, ev, hist, sub, _name(case["kem"], case["aead"], case["mode"]))
        acc.merge(sub)


def explore_path(sc, events, hist, acc, name):
    """re-run one recorded history (all its prefixes are checked too)"""
    class _One:
        pass
    # reuse explore_receiver's logic by exploring with an alphabet restricted to the path
    path_events = [events[i] for i in hist]
    # indices in the restricted alphabet: position-specific, so enumerate only the exact path
    ref0 = sc.ref_receiver()
    c = R.ContextR(sc.suite, ref0.key, ref0.base_nonce, ref0.exporter_secret)
    rr = sc.real_receiver()
    rejected_before = False
    for pos, (label, kind, ct, aad) in enumerate(path_events):
        try:
            exp = ("ok", c.open(aad, ct))
        except ValueError:
            exp = ("rej",)
        try:
            got = ("ok", rr.unseal(ct, aad))
        except ValueError:
            got = ("rej",)
        except Exception as e:  # noqa
            got = ("exc", type(e).__name__)
        if got != exp:
            k = "C15/unseal/exp-%s-got-%s/%s" % (
                {"ok": "plaintext", "rej": "ValueError"}[exp[0]],
                {"ok": "plaintext" if exp[0] != "ok" else "other-plaintext", "rej": "ValueError"}.get(got[0], got[-1]),
                "after-rejected-message" if rejected_before else "clean-history")
            acc.violation(k, "%s: receiver history %s" % (name, " ; ".join(e[0] for e in path_events[:pos + 1])),
                          {"part": "recv", "kem": sc.kem, "aead": sc.aead, "mode": sc.mode,
                           "events": [e[0] for e in path_events[:pos + 1]], "reduced": len(events) < 20})
            return
        if exp[0] != "ok":
            rejected_before = True
