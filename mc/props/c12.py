"""C12 - key-derivation functions return exactly the bytes their specifications define.

Bounded-exhaustive enumeration (ShapeExplorer) of parameter grids for PBKDF1, PBKDF2 (C fast
path, generic HMAC path, custom PRF), HKDF, scrypt, bcrypt / bcrypt_check, SP 800-108 counter
mode and S2V.  Every case runs the real library function and is compared with references that
do not import Crypto: hashlib.pbkdf2_hmac + mc.ref.kdf.pbkdf2 (two oracles), hashlib.scrypt + a
pure-Python RFC 7914 transcription (helper module), mc.ref.kdf (hkdf, pbkdf1, sp800_108_counter),
mc.ref.blowfish.bcrypt_hash, mc.ref.modes.s2v over mc.ref.aes.AES.
"""
import hashlib

from ..common import Acc, exc_site, short, seeded, asc
from ..ref import kdf as rkdf
from . import _c12_parts as P

LEVEL = "exploration"
RULE = ("cartesian grids of (function, hash/PRF, secret length, salt length, cost parameters, output "
        "length, number of keys) enumerated completely (see parts); a case is one call of the real KDF "
        "compared byte-for-byte with an independent reference; distinct_nontrivial counts distinct "
        "(function, hash/PRF, code path, cost, number of PRF blocks, partial-last-block, length class of "
        "secret and salt, outcome) tuples actually observed")
BUDGET = {"quick": 200, "thorough": 1700}


# ---------------------------------------------------------------------------
# task lists
# ---------------------------------------------------------------------------
def build_tasks(quick):
    T = []
    T += P.pbkdf2_tasks(quick)
    T += P.pbkdf1_tasks(quick)
    T += P.hkdf_tasks(quick)
    T += P.scrypt_tasks(quick)
    T += P.bcrypt_tasks(quick)
    T += P.sp108_tasks(quick)
    T += P.s2v_tasks(quick)
    return T


def pack(tasks, nbins):
    """longest-processing-time-first packing of (cost, task) into nbins shards (deterministic)"""
    order = sorted(range(len(tasks)), key=lambda i: (-tasks[i][0], i))
    bins = [[0.0, []] for _ in range(max(1, min(nbins, len(tasks))))]
    for i in order:
        b = min(bins, key=lambda x: x[0])
        b[0] += tasks[i][0]
        b[1].append(tasks[i][1])
    bins.sort(key=lambda x: -x[0])
    return [b[1] for b in bins if b[1]]


def worker(tasks):
    acc = Acc()
    for t in tasks:
        try:
            P.DISPATCH[t[0]](t, acc)
        except P.HarnessError as e:
            acc.error("reference/harness problem in task %s: %s" % (short(t), e))
    return acc


# ---------------------------------------------------------------------------
def run(ctx):
    import time
    from ..ref import blowfish, modes, aes, md
    q = ctx.quick
    t0 = time.time()
    for m in (rkdf, blowfish, modes, aes, md):
        try:
            m.selftest()
        except Exception as e:  # noqa
            ctx.acc.error("reference %s failed its selftest: %r" % (m.__name__, e))
            return
    try:
        P.selftest()
    except Exception as e:  # noqa
        ctx.acc.error("C12 helper selftest failed: %r" % (e,))
        return
    t_self = time.time() - t0

    # seam check: is the C fast path really taken for the hashes we label 'fast'?
    fast = P.probe_fast_path(ctx.acc)
    ctx.require(len(fast) >= 1, "harness cannot reach the PBKDF2 fast path (_pbkdf2_hmac_assist) of any hash")

    # the known S2V defect on the simplest key first, so that its record is the smallest one
    from ._c12_misc import check_s2v
    check_s2v(bytes(16), [], ctx.acc)

    tasks = build_tasks(q)
    # thorough: many more (and some much heavier) tasks -> more, smaller shards so that the pool stays balanced
    shards = pack(tasks, max(32, ctx.workers * 6) if q else max(256, ctx.workers * 24))
    ctx.pmap(worker, shards)

    a = ctx.acc
    n = a.n
    cls = a.distinct.get("classes", set())
    parts = sorted({c[0] for c in cls})
    for part in ("pbkdf2", "pbkdf1", "hkdf", "scrypt", "bcrypt", "bcrypt_check", "sp108", "s2v"):
        ctx.require(part in parts, "part %s produced no behaviour class" % part)
    # vacuity guards
    ctx.require(n.get("pbkdf2/fast", 0) > 500, "fewer than 500 PBKDF2 fast-path evaluations")
    ctx.require(n.get("pbkdf2/generic", 0) > 500, "fewer than 500 PBKDF2 generic-path evaluations")
    ctx.require(n.get("pbkdf2/prf", 0) > 100, "fewer than 100 PBKDF2 custom-prf evaluations")
    ctx.require(n.get("pbkdf2/multiblock", 0) > 500, "PBKDF2: too few multi-block outputs")
    ctx.require(n.get("pbkdf2/longpw", 0) > 100, "PBKDF2: too few passwords longer than the HMAC block")
    def refusals(counter, vkey):
        # refusal probes executed: refused ones plus the ones reported as wrongly accepted
        return n.get(counter, 0) + a.viol_count.get(vkey, 0)
    ctx.require(refusals("hkdf/refused", "C12/hkdf/too-long-accepted") >= 10 and n.get("hkdf/ok", 0) > 500,
                "HKDF: refusal probes or acceptances missing")
    ctx.require(n.get("hkdf/maxlen-ok", 0) + a.viol_count.get("C12/hkdf/valid-length-refused", 0) >= 10,
                "HKDF: 255*hLen outputs not exercised")
    ctx.require(n.get("hkdf/multikey", 0) > 100, "HKDF: multi-key outputs missing")
    ctx.require(refusals("pbkdf1/refused-too-long", "C12/pbkdf1/too-long-accepted") >= 3
                and refusals("pbkdf1/refused-salt", "C12/pbkdf1/bad-salt-length-accepted") >= 3
                and n.get("pbkdf1/ok", 0) > 50, "PBKDF1: outcome classes missing")
    ctx.require(n.get("scrypt/ok", 0) > 300
                and refusals("scrypt/refused-N", "C12/scrypt/N-not-power-of-two-accepted") > 100
                and refusals("scrypt/refused-Nbig", "C12/scrypt/N-too-large-accepted") >= 2
                and refusals("scrypt/refused-pr", "C12/scrypt/p-r-too-large-accepted") >= 2,
                "scrypt: outcome classes missing")
    ctx.require(n.get("scrypt/multikey", 0) >= 10, "scrypt: multi-key outputs missing")
    ctx.require(n.get("bcrypt/ok", 0) >= 20, "bcrypt: fewer than 20 hashes compared")
    for k, vk in (("bcrypt/refused-cost", "C12/bcrypt/cost-out-of-range-accepted"),
                  ("bcrypt/refused-salt", "C12/bcrypt/bad-salt-length-accepted"),
                  ("bcrypt/refused-long", "C12/bcrypt/password-over-72-accepted")):
        ctx.require(refusals(k, vk) >= 2, "bcrypt: refusal class %s not exercised" % k)
    ctx.require(n.get("bcrypt_check/accept", 0) >= 10 and n.get("bcrypt_check/reject", 0) >= 100,
                "bcrypt_check: accept or reject class missing")
    ctx.require(n.get("bcrypt_check/mut-reject", 0) >= 30, "bcrypt_check: mutated hashes not exercised")
    ctx.require(n.get("sp108/ok", 0) > 500 and n.get("sp108/multikey", 0) > 100,
                "SP800-108: too few evaluations")
    ctx.require(n.get("s2v/ok", 0) + n.get("s2v/mismatch", 0) > 1000, "S2V: too few vectors")
    ctx.require(n.get("s2v/empty", 0) >= 1, "S2V: the empty vector was not exercised")
    if not q:
        # guards for the dimensions that only the thorough tier enumerates
        from . import _c12_pbkdf as PA, _c12_misc as PB
        nlab = len(PA.pbkdf2_labels())
        ctx.require(n.get("pbkdf2/blocks>=256", 0) >= 4 * nlab and n.get("pbkdf2/blocks>=65536", 0) >= len([l for l in PA.PB_64K if l in PA.pbkdf2_labels()]) >= 4,
                    "PBKDF2: block counters >= 256 / >= 65536 not exercised")
        rows = sum(len(PA._lens_pw_range(l)) for l in PA.pbkdf2_labels()) * len(PA.PB_LENS_COUNTS)
        ctx.require(n.get("pbkdf2/lens-rows", 0) == rows, "PBKDF2: password x salt length product incomplete "
                    "(%d of %d rows)" % (n.get("pbkdf2/lens-rows", 0), rows))
        counts_seen = {c[3] for c in cls if c[0] == "pbkdf2" and len(c) == 9}
        want = {1, 2, 3, 1000} | set(PA.PB_EXTRA_COUNTS) | set(PA.PB_EXTRA_COUNTS_FAST)
        ctx.require(want <= counts_seen, "PBKDF2: iteration counts %s not exercised" % sorted(want - counts_seen))
        ctx.require(n.get("pbkdf1/lens-sweeps", 0) == 3 * len(PA.PBKDF1_HASHES), "PBKDF1: length sweeps missing")
        tot = sum(255 * PA.hlen(l) + 3 for l in PA.hkdf_labels())
        ctx.require(n.get("hkdf/all-lengths", 0) == tot, "HKDF: all-lengths sweep incomplete (%d of %d)"
                    % (n.get("hkdf/all-lengths", 0), tot))
        ctx.require(refusals("hkdf/refused", "C12/hkdf/too-long-accepted") >= 10 * len(PA.hkdf_labels()),
                    "HKDF: too few refusal probes for the thorough tier")
        ctx.require({c[2] for c in cls if c[0] == "hkdf"} >= set(PA.HKDF_NK[False]) | {16, 255, 256},
                    "HKDF: num_keys values missing")
        ctx.require(n.get("hkdf/length-lines", 0) > 0 and n.get("sp108/length-lines", 0) > 0,
                    "HKDF / SP800-108: length sweeps missing")
        ctx.require(n.get("sp108/blocks>=256", 0) >= 40, "SP800-108: counter values >= 256 not exercised")
        ctx.require({c[2] for c in cls if c[0] == "sp108" and c[1] != "L-field"} >= set(PA.SP_NK[False]) | {None, 1, 255, 65537},
                    "SP800-108: num_keys values missing")
        cells = len(PB.scrypt_cells_t()) * len(PB.SCRYPT_P_T)
        ctx.require(n.get("scrypt/grid2-cells", 0) == cells, "scrypt: (N, r, p) grid incomplete")
        ctx.require(n.get("scrypt/lens2-rows", 0) == PB.SCRYPT_LENS_T + 1, "scrypt: length product incomplete")
        ctx.require(n.get("scrypt/big2", 0) == len(PB._SCRYPT_BIG_T), "scrypt: large-parameter cases missing")
        ctx.require(refusals("scrypt/refused-N", "C12/scrypt/N-not-power-of-two-accepted") > PB.SCRYPT_REFUSE_TOP - 100,
                    "scrypt: exhaustive N refusal sweep incomplete")
        ctx.require({c[1] for c in cls if c[0] == "bcrypt" and isinstance(c[1], int)} >= {4} | set(PB.BCRYPT_COSTS_T),
                    "bcrypt: costs missing")
        ctx.require(n.get("bcrypt/ok", 0) >= 1000, "bcrypt: fewer than 1000 hashes compared")
        ctx.require(n.get("bcrypt_check/mut2-tasks", 0) == 31 + 22 + 1 and n.get("bcrypt_check/mut-reject", 0) >= 3500,
                    "bcrypt_check: exhaustive substitutions incomplete")
        for mode in ("T4", "T5", "sweep"):
            ctx.require(n.get("s2v/" + mode, 0) > 12 * 2000, "S2V: %s vectors missing" % mode)
        for depth, kl, alpha in PB.S2V_HIST_T:
            want_n = len(PB.S2V_ALPHA[alpha]) ** PB.s2v_hist_plen(depth) + 1
            ctx.require(len({c for c in cls if c[0] == "s2v-history" and c[1:4] == (depth, kl, alpha)}) == want_n,
                        "S2V: histories of depth %d (AES-%d, %s alphabet) incomplete" % (depth, 8 * kl, alpha))
        ctx.require(n.get("s2v/histories", 0) == sum(PB.s2v_hist_count(d, len(PB.S2V_ALPHA[al])) for d, _, al in PB.S2V_HIST_T),
                    "S2V: number of histories differs from the closed form")
        ctx.require(n.get("pbkdf2/all-counts", 0) == sum(PA.PB_ALLCOUNTS[PA.path_of(l)] for l in PA.pbkdf2_labels())
                    and n.get("pbkdf1/all-counts", 0) == PA.PBKDF1_ALLCOUNTS * len(PA.PBKDF1_HASHES),
                    "PBKDF2 / PBKDF1: sweep over every iteration count incomplete")
    ctx.require(len(a.distinct.get("outputs", ())) > 200, "fewer than 200 distinct output digests observed")
    ctx.require(len(cls) > (300 if q else 1000), "fewer behaviour classes than the grid must produce")

    ctx.coverage_extra.update({
        "evaluations": n.get("evaluations", 0),
        "distinct_nontrivial": len(cls),
        "exhaustive": not a.caps,
        "tasks": len(tasks),
        "selftest_s": round(t_self, 1),
        "pbkdf2_fast_path_hashes": sorted(fast),
        "grids": P.grid_description(q),
    })
    ctx.assume("data values: only the value alphabet (zero, 0xFF, ascending, SHAKE256(seed)) for secrets, "
               "salts, labels; all *lengths/shapes* of the stated grids are enumerated")
    if q:
        ctx.assume("PBKDF2/PBKDF1 iteration counts only {1,2,3,1000}; scrypt N <= 2^14, r <= 8, p <= 3 for computed "
                   "outputs (N = 2^31 and the largest legal p*r are not computed: memory)")
    else:
        ctx.assume("PBKDF2 iteration counts: the grids use {1,2,3,4,5,8,16,100,1000} (+ {255,256,257,4096} on the C fast "
                   "path); every count 1..256 (1..1024 on the C fast path) only on one input shape; PBKDF1 likewise "
                   "{1,2,3,4,5,16,100,255,256,257,1000} and every count 1..256 on one shape; scrypt computed outputs: the grid "
                   "N <= 2^14, r <= 16, p <= 4, plus the listed single large cases (N up to 2^18, r up to 1024, p up to 257); N = 2^31 and the "
                   "largest legal p*r are not computed: memory")
        ctx.assume("PBKDF2 / SP 800-108 outputs of 65537 PRF blocks only for the small-output PRFs listed in the grids "
                   "(the library's block-by-block concatenation is quadratic); 256/257 blocks for every hash/PRF")
    ctx.assume("bcrypt costs computed: 4..6 (quick) and 4..12 (thorough; 8..12 on one to four passwords each) only "
               "(pure-Python reference); costs above are covered by the range check only")
    ctx.assume("'refused' means any exception; the exception class is logged as an observation when odd")
    ctx.assume("S2V only over AES (128-bit block); SP 800-108 only with the 32-bit counter/length layout the "
               "library documents")
    ctx.assume("parameters the property text does not name (iteration count 0, scrypt p <= 0, key_len 0) "
               "are logged as observations, not demanded")


def replay(case, acc):
    try:
        P.replay(case, acc)
    except P.HarnessError as e:
        acc.error("reference/harness problem in replay: %s" % e)
