"""C12 - key-derivation functions return exactly the bytes their specifications define.

Bounded-exhaustive enumeration (ShapeExplorer) of parameter grids for PBKDF1, PBKDF2 (C fast
path, generic HMAC path, custom PRF), HKDF, scrypt, bcrypt / bcrypt_check, SP 800-108 counter
mode and S2V.  Every case runs the real library function and is compared with references that
do not import Crypto: hashlib.pbkdf2_hmac + mc.ref.kdf.pbkdf2 (two oracles), hashlib.scrypt + a
pure-Python RFC 7914 transcription (helper module), mc.ref.kdf (hkdf, pbkdf1, sp800_108_counter),
mc.ref.blowfish.bcrypt_hash, mc.ref.modes.s2v over mc.ref.aes.AES.
"""
import hashlib

from ..common import Acc, exc_site, short, seeded, asc
from ..ref import kdf as rkdf
from . import _c12_parts as P

LEVEL = "exploration"
RULE = ("cartesian grids of (function, hash/PRF, secret length, salt length, cost parameters, output "
        "length, number of keys) enumerated completely (see parts); a case is one call of the real KDF "
        "compared byte-for-byte with an independent reference; distinct_nontrivial counts distinct "
        "(function, hash/PRF, code path, cost, number of PRF blocks, partial-last-block, length class of "
        "secret and salt, outcome) tuples actually observed")
BUDGET = {"quick": 200, "thorough": 1700}


# ---------------------------------------------------------------------------
# task lists
# ---------------------------------------------------------------------------
def build_tasks(quick):
    T = []
    T += P.pbkdf2_tasks(quick)
    T += P.pbkdf1_tasks(quick)
    T += P.hkdf_tasks(quick)
    T += P.scrypt_tasks(quick)
    T += P.bcrypt_tasks(quick)
    T += P.sp108_tasks(quick)
    T += P.s2v_tasks(quick)
    return T


def pack(tasks, nbins):
    """longest-processing-time-first packing of (cost, task) into nbins shards (deterministic)"""
    order = sorted(range(len(tasks)), key=lambda i: (-tasks[i][0], i))
    bins = [[0.0, []] for _ in range(max(1, min(nbins, len(tasks))))]
    for i in order:
        b = min(bins, key=lambda x: x[0])
        b[0] += tasks[i][0]
        b[1].append(tasks[i][1])
    bins.sort(key=lambda x: -x[0])
    return [b[1] for b in bins if b[1]]


def worker(tasks):
    acc = Acc()
    for t in tasks:
        try:
            P.DISPATCH[t[0]](t, acc)
        except P.HarnessError as e:
            acc.error("reference/harness problem in task %s: %s" % (short(t), e))
    return acc


# ---------------------------------------------------------------------------
def run(ctx):
    import time
    from ..ref import blowfish, modes, aes, md
    q = ctx.quick
    t0 = time.time()
    for m in (rkdf, blowfish, modes, aes, md):
        try:
            m.selftest()
        except Exception as e:  # noqa
            ctx.acc.error("reference %s failed its selftest: %r" % (m.__name__, e))
            return
    try:
        P.selftest()
    except Exception as e:  # noqa
        ctx.acc.error("C12 helper selftest failed: %r" % (e,))
        return
    t_self = time.time() - t0

    # seam check: is the C fast path really taken for the hashes we label 'fast'?
    fast = P.probe_fast_path(ctx.acc)
    ctx.require(len(fast) >= 1, "harness cannot reach the PBKDF2 fast path (_pbkdf2_hmac_assist) of any hash")

    # the known S2V defect on the simplest key first, so that its record is the smallest one
    from ._c12_misc import check_s2v
    check_s2v(bytes(16), [], ctx.acc)

    tasks = build_tasks(q)
    shards = pack(tasks, max(32, ctx.workers * 6))
    ctx.pmap(worker, shards)

    a = ctx.acc
    n = a.n
    cls = a.distinct.get("classes", set())
    parts = sorted({c[0] for c in cls})
    for part in ("pbkdf2", "pbkdf1", "hkdf", "scrypt", "bcrypt", "bcrypt_check", "sp108", "s2v"):
        ctx.require(part in parts, "part %s produced no behaviour class" % part)
    # vacuity guards
    ctx.require(n.get("pbkdf2/fast", 0) > 500, "fewer than 500 PBKDF2 fast-path evaluations")
    ctx.require(n.get("pbkdf2/generic", 0) > 500, "fewer than 500 PBKDF2 generic-path evaluations")
    ctx.require(n.get("pbkdf2/prf", 0) > 100, "fewer than 100 PBKDF2 custom-prf evaluations")
    ctx.require(n.get("pbkdf2/multiblock", 0) > 500, "PBKDF2: too few multi-block outputs")
    ctx.require(n.get("pbkdf2/longpw", 0) > 100, "PBKDF2: too few passwords longer than the HMAC block")
    def refusals(counter, vkey):
        # refusal probes executed: refused ones plus the ones reported as wrongly accepted
        return n.get(counter, 0) + a.viol_count.get(vkey, 0)
    ctx.require(refusals("hkdf/refused", "C12/hkdf/too-long-accepted") >= 10 and n.get("hkdf/ok", 0) > 500,
                "HKDF: refusal probes or acceptances missing")
    ctx.require(n.get("hkdf/maxlen-ok", 0) + a.viol_count.get("C12/hkdf/valid-length-refused", 0) >= 10,
                "HKDF: 255*hLen outputs not exercised")
    ctx.require(n.get("hkdf/multikey", 0) > 100, "HKDF: multi-key outputs missing")
    ctx.require(refusals("pbkdf1/refused-too-long", "C12/pbkdf1/too-long-accepted") >= 3
                and refusals("pbkdf1/refused-salt", "C12/pbkdf1/bad-salt-length-accepted") >= 3
                and n.get("pbkdf1/ok", 0) > 50, "PBKDF1: outcome classes missing")
    ctx.require(n.get("scrypt/ok", 0) > 300
                and refusals("scrypt/refused-N", "C12/scrypt/N-not-power-of-two-accepted") > 100
                and refusals("scrypt/refused-Nbig", "C12/scrypt/N-too-large-accepted") >= 2
                and refusals("scrypt/refused-pr", "C12/scrypt/p-r-too-large-accepted") >= 2,
                "scrypt: outcome classes missing")
    ctx.require(n.get("scrypt/multikey", 0) >= 10, "scrypt: multi-key outputs missing")
    ctx.require(n.get("bcrypt/ok", 0) >= 20, "bcrypt: fewer than 20 hashes compared")
    for k, vk in (("bcrypt/refused-cost", "C12/bcrypt/cost-out-of-range-accepted"),
                  ("bcrypt/refused-salt", "C12/bcrypt/bad-salt-length-accepted"),
                  ("bcrypt/refused-long", "C12/bcrypt/password-over-72-accepted")):
        ctx.require(refusals(k, vk) >= 2, "bcrypt: refusal class %s not exercised" % k)
    ctx.require(n.get("bcrypt_check/accept", 0) >= 10 and n.get("bcrypt_check/reject", 0) >= 100,
                "bcrypt_check: accept or reject class missing")
    ctx.require(n.get("bcrypt_check/mut-reject", 0) >= 30, "bcrypt_check: mutated hashes not exercised")
    ctx.require(n.get("sp108/ok", 0) > 500 and n.get("sp108/multikey", 0) > 100,
                "SP800-108: too few evaluations")
    ctx.require(n.get("s2v/ok", 0) + n.get("s2v/mismatch", 0) > 1000, "S2V: too few vectors")
    ctx.require(n.get("s2v/empty", 0) >= 1, "S2V: the empty vector was not exercised")
    ctx.require(len(a.distinct.get("outputs", ())) > 200, "fewer than 200 distinct output digests observed")
    ctx.require(len(cls) > (300 if q else 1000), "fewer behaviour classes than the grid must produce")

    ctx.coverage_extra.update({
        "evaluations": n.get("evaluations", 0),
        "distinct_nontrivial": len(cls),
        "exhaustive": not a.caps,
        "tasks": len(tasks),
        "selftest_s": round(t_self, 1),
        "pbkdf2_fast_path_hashes": sorted(fast),
        "grids": P.grid_description(q),
    })
    ctx.assume("data values: only the value alphabet (zero, 0xFF, ascending, SHAKE256(seed)) for secrets, "
               "salts, labels; all *lengths/shapes* of the stated grids are enumerated")
    ctx.assume("PBKDF2/PBKDF1 iteration counts only {1,2,3,1000}; scrypt N <= 2^14, r <= 8, p <= 3 for computed "
               "outputs (N = 2^31 and the largest legal p*r are not computed: memory)")
    ctx.assume("bcrypt costs computed: 4..6 (quick) and 4..7 (thorough) only (pure-Python reference); costs above are covered by the "
               "range check only")
    ctx.assume("'refused' means any exception; the exception class is logged as an observation when odd")
    ctx.assume("S2V only over AES (128-bit block); SP 800-108 only with the 32-bit counter/length layout the "
               "library documents")
    ctx.assume("parameters the property text does not name (iteration count 0, scrypt p <= 0, key_len 0) "
               "are logged as observations, not demanded")


def replay(case, acc):
    try:
        P.replay(case, acc)
    except P.HarnessError as e:
        acc.error("reference/harness problem in replay: %s" % e)
