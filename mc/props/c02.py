"""C02 - symmetric ciphers and modes compute exactly their specification and invert.

Bounded-exhaustive enumeration (ShapeExplorer) of *input shapes*: every cipher x every mode
the dispatch table allows x every legal key length / IV / nonce / segment / counter layout /
tag length x AAD and message lengths around every internal buffer boundary, executed on the
REAL library and compared, case by case, with the independent pure-Python models of
mc/ref (AES, DES/TDES, Blowfish, RC4, Salsa20/ChaCha20/Poly1305, all modes) and the RFC 2268
RC2 model of _c02_rc2.py.  CAST-128 has no reference primitive (8 KiB of S-boxes): its block
function is pinned by the RFC 2144 vectors + inversion + the RFC 2144 key-padding rule and its
*modes* are modelled over the library's own single-block ECB (decomposition primitive x mode).

Oracles (never "did not crash"):
  * ciphertext / tag / wrapped key  ==  reference (the value any conforming peer computes);
  * library.decrypt(REFERENCE ciphertext [, REFERENCE tag]) == message (so the decrypt side is
    checked against the specification even if the encrypt side is wrong in the same way);
  * cipher.nonce / cipher.iv == the value a peer needs; when the library chose it (entropy seam
    `get_random_bytes` of the mode module replaced by a tape) the *reference* peer decrypts
    using only that attribute;
  * DES3.adjust_key_parity == independent odd-parity model, degenerate keys refused.
"""
import importlib
import time

from ..common import Acc, exc_site, short, seeded, asc
from ..ref import aes as R_aes, des as R_des, blowfish as R_bf, rc4 as R_rc4, chacha as R_cc
from ..ref import modes as M
from . import _c02_rc2 as R_rc2

LEVEL = "exploration"
RULE = ("complete cartesian grids of input shapes (cipher, key length, mode, IV/nonce length, CFB segment, "
        "CTR layout, tag length, AAD length, message length, CCM declaration variant, RC2 effective bits, RC4 "
        "drop, ChaCha seek) x the 4-member value alphabet (zero/ones/ascending/SHAKE256(seed)); one case = one "
        "(shape, value class) executed on the real library in both directions and compared with the reference "
        "model; a case is non-trivial when the library produced output that was compared byte-for-byte; "
        "distinct_nontrivial counts distinct shape classes (part, cipher, key length, mode, parameter signature, "
        "message-length class) actually executed, measured with acc.seen")
BUDGET = {"quick": 170, "thorough": 1700}

HUGE = 1 << 20         # lengths from here on are counted as "huge_cases" (thorough tier only; vacuity guard)
BS = {"AES": 16, "DES": 8, "DES3": 8, "Blowfish": 8, "CAST": 8, "ARC2": 8}
KEYLENS = {"AES": (16, 24, 32), "DES": (8,), "DES3": (16, 24), "Blowfish": tuple(range(4, 57)),
           "CAST": tuple(range(5, 17)), "ARC2": tuple(range(5, 129))}
CLASSIC_MODES = ("ECB", "CBC", "CFB", "OFB", "CTR", "OPENPGP")
VCLS = ("zero", "ones", "asc", "seed")


# ---------------------------------------------------------------------------
# value alphabet
# ---------------------------------------------------------------------------
def _start(label):
    return (sum(label.encode()) * 37) & 255


def val(vc, label, n, seed):
    """member `vc` of the value alphabet, n bytes; for every class val(..., n)[:k] == val(..., k)"""
    if n <= 0:
        return b""
    if vc == "zero":
        return bytes(n)
    if vc == "ones":
        return b"\xff" * n
    if vc == "asc":
        return asc(n, _start(label))
    return seeded("c02/" + label, n, seed)


def key_for(c, klen, vc, seed):
    if c == "DES3":
        # all-zero / all-ones TDES keys are degenerate (refused); use the nearest non-degenerate ones
        if vc == "zero":
            k = bytes(7) + b"\x00" + bytes(7) + b"\x02" + bytes(7) + b"\x04"
            return k[:klen]
        if vc == "ones":
            k = b"\xff" * 8 + b"\xff" * 7 + b"\xfd" + b"\xff" * 7 + b"\xfb"
            return k[:klen]
    return val(vc, "key", klen, seed)


# ---------------------------------------------------------------------------
# reference and library objects
# ---------------------------------------------------------------------------
class LibBlock(object):
    """the library's own single-block ECB as a block-cipher object (CAST only: no reference primitive)"""

    def __init__(self, cname, key, **kw):
        m = importlib.import_module("Crypto.Cipher." + cname)
        self.block_size = m.block_size
        self._e = m.new(key, m.MODE_ECB, **kw)
        self._d = m.new(key, m.MODE_ECB, **kw)

    def encrypt_block(self, b):
        b = bytes(b)
        assert len(b) == self.block_size
        return self._e.encrypt(b)

    def decrypt_block(self, b):
        b = bytes(b)
        assert len(b) == self.block_size
        return self._d.decrypt(b)


_REFC = {}


def ref_cipher(c, key, eff=None):
    k = (c, key, eff)
    r = _REFC.get(k)
    if r is None:
        if len(_REFC) > 48:
            _REFC.clear()
        if c == "AES":
            r = R_aes.AES(key)
        elif c == "DES":
            r = R_des.DES(key)
        elif c == "DES3":
            r = R_des.TDES(key)
        elif c == "Blowfish":
            r = R_bf.Blowfish(key)
        elif c == "ARC2":
            r = R_rc2.RC2(key, 1024 if eff is None else eff)
        elif c == "CAST":
            r = LibBlock("CAST", key)
        else:
            raise KeyError(c)
        _REFC[k] = r
    return r


_MODS = {}


def lib_mod(c):
    m = _MODS.get(c)
    if m is None:
        m = _MODS[c] = importlib.import_module("Crypto.Cipher." + c)
    return m


def _effkw(eff):
    if eff is None:
        return {}
    if eff == "noaesni":                       # AES only: the portable C implementation instead of AES-NI
        return {"use_aesni": False}
    return {"effective_keylen": eff}           # RC2 only


def lib_new(c, key, mode, eff=None, **params):
    m = lib_mod(c)
    params.update(_effkw(eff))
    return m.new(key, getattr(m, "MODE_" + mode), **params)


def lcls(L, bs):
    """message-length class relative to the block size"""
    if L == 0:
        return "0"
    q, r = divmod(L, bs)
    big = "0" if q == 0 else ("1" if q == 1 else ("2-8" if q <= 8 else ("9-64" if q <= 64 else "65+")))
    return big + ("+r" if r else "")


def _xor(a, b):
    n = len(a)
    return (int.from_bytes(a, "big") ^ int.from_bytes(b[:n], "big")).to_bytes(n, "big") if n else b""


def _viol(acc, cfg, obs, what, script=None):
    key = "C02/%s/%s/%s" % (cfg.get("c", "-"), cfg.get("mode", cfg["part"]), obs)
    acc.violation(key, what, cfg, script)


def _raised(acc, cfg, e, doing):
    _viol(acc, cfg, "raises-%s@%s" % (type(e).__name__, exc_site(e)),
          "%s raised %s: %s on a valid input [%s]" % (doing, type(e).__name__, e, _cfgstr(cfg)))


def _cfgstr(cfg):
    return ",".join("%s=%s" % (k, short(v, 24)) for k, v in cfg.items() if k not in ("part", "seed"))


def _script(body):
    return "# stand-alone reproduction (needs only pycryptodome); expected values come from the reference model\n" \
           "H = bytes.fromhex\n" + body


# ---------------------------------------------------------------------------
# part "block": the block primitives through ECB
# ---------------------------------------------------------------------------
def check_block(cfg, acc):
    """cfg: c, klen, eff, vc, seed [, aesni]"""
    c, klen, eff, vc, seed = cfg["c"], cfg["klen"], cfg.get("eff"), cfg["vc"], cfg["seed"]
    bs = BS[c]
    key = key_for(c, klen, vc, seed)
    pt = bytes(bs) + b"\xff" * bs + asc(bs, 1) + seeded("c02/blk", bs, seed)
    acc.count("evaluations")
    acc.count("block_cases")
    acc.seen("classes", ("block", c, klen, eff, cfg.get("aesni", True)))
    kw = {}
    if c == "AES" and not cfg.get("aesni", True):
        kw["use_aesni"] = False
    try:
        ct = lib_new(c, key, "ECB", eff, **kw).encrypt(pt)
        back = lib_new(c, key, "ECB", eff, **kw).decrypt(ct)
    except Exception as e:  # noqa
        return _raised(acc, cfg, e, "ECB encrypt/decrypt")
    if back != pt:
        _viol(acc, cfg, "block-not-inverted", "%s key %s: ECB decrypt(encrypt(x)) != x" % (c, short(key)))
    if c == "CAST":
        # RFC 2144 2.5: keys shorter than 128 bits are padded with zero bytes; 12 rounds iff <= 80 bits
        if klen not in (10, 16):
            try:
                ct2 = lib_new(c, key + bytes((10 if klen < 10 else 16) - klen), "ECB").encrypt(pt)
            except Exception as e:  # noqa
                return _raised(acc, cfg, e, "ECB encrypt (padded key)")
            if ct2 != ct:
                _viol(acc, cfg, "cast-key-padding", "CAST key %s (%d bytes) and the same key zero-padded to %d bytes "
                      "encrypt differently (RFC 2144 2.5)" % (short(key), klen, 10 if klen < 10 else 16))
        if len(set(ct[i:i + 8] for i in range(0, 32, 8))) != 4:
            _viol(acc, cfg, "block-not-injective", "CAST key %s maps distinct blocks to equal blocks" % short(key))
        return
    R = ref_cipher(c, key, eff)
    exp = M.ecb_encrypt(R, pt)
    if ct != exp:
        _viol(acc, cfg, "block-encrypt", "%s(key=%s%s).encrypt(%s) = %s, reference %s"
              % (c, short(key), "" if eff is None else ",%r" % (_effkw(eff),), short(pt), short(ct), short(exp)),
              _script("from Crypto.Cipher import %s as C\nkw = %r\nprint(C.new(H('%s'), C.MODE_ECB, **kw).encrypt(H('%s')).hex())\n"
                      "print('%s  <- specification')\n"
                      % (c, _effkw(eff), key.hex(), pt.hex(), exp.hex())))
    try:
        dec = lib_new(c, key, "ECB", eff, **kw).decrypt(exp)
    except Exception as e:  # noqa
        return _raised(acc, cfg, e, "ECB decrypt")
    if dec != pt:
        _viol(acc, cfg, "block-decrypt", "%s(key=%s).decrypt(reference ciphertext) != plaintext" % (c, short(key)))


CAST_KAT = (("0123456712345678234567893456789a", "0123456789abcdef", "238b4fe5847e44b2"),
            ("01234567123456782345", "0123456789abcdef", "eb6a711a2c02271b"),
            ("0123456712", "0123456789abcdef", "7ac816d16e9b302e"))


def check_kat(cfg, acc):
    """RFC 2144 B.1 (CAST-128) and RFC 2268 section 5 (RC2) known answers through the library"""
    acc.count("evaluations")
    acc.count("kat_cases")
    c, i = cfg["c"], cfg["i"]
    acc.seen("classes", ("kat", c, i))
    if c == "CAST":
        k, p, x = (bytes.fromhex(v) for v in CAST_KAT[i])
        eff = None
    else:
        k, eff, p, x = R_rc2.RFC2268_VECTORS[i]
        k, p, x = bytes.fromhex(k), bytes.fromhex(p), bytes.fromhex(x)
    try:
        got = lib_new(c, k, "ECB", eff).encrypt(p)
        back = lib_new(c, k, "ECB", eff).decrypt(x)
    except Exception as e:  # noqa
        return _raised(acc, cfg, e, "known-answer test")
    if got != x or back != p:
        _viol(acc, cfg, "known-answer", "%s RFC vector %d: key %s -> %s, RFC says %s" % (c, i, k.hex(), got.hex(), x.hex()))


# ---------------------------------------------------------------------------
# part "classic": ECB CBC CFB OFB CTR OpenPGP, all message lengths of a configuration
# ---------------------------------------------------------------------------
def lens_all(bs):
    return list(range(0, 8 * bs + 2)) + [16 * bs - 1, 16 * bs, 16 * bs + 1, 24 * bs, 24 * bs + 1]


def lens_deep(bs):
    """thorough tier: every length up to 16 blocks + 1 (two refills of the 8-block CTR keystream / two 8-block
    AES-NI batches with every remainder), then around 24 and 32 blocks; a superset of lens_all"""
    return list(range(0, 16 * bs + 2)) + [24 * bs - 1, 24 * bs, 24 * bs + 1, 32 * bs - 1, 32 * bs, 32 * bs + 1]


def lens_few(bs):
    return [0, 1, bs - 1, bs, bs + 1, 2 * bs, 8 * bs - 1, 8 * bs, 8 * bs + 1, 16 * bs + 1]


def ivgrid(cl):
    """initial counter values for a counter of cl bytes: carries out of the low byte at the 8-block
    look-ahead, carry chains into every higher byte, wrap through zero inside the message"""
    top = 1 << (8 * cl)
    s = {0, 1, 0xF7, 0xF8, 0xFF, top - 1, top - 8, top - 9, top - 17}
    if cl > 1:
        s |= {(1 << (8 * (cl - 1))) - 1, (1 << (8 * (cl - 1))) - 9, 0xFFF8, 0x7FFFFFFF & (top - 1)}
    return sorted(v for v in s if 0 <= v < top)


def ivgrid_small(cl):
    top = 1 << (8 * cl)
    return sorted({0, top - 9, 0xF8 if cl > 1 else 0xF7})


def ivgrid_mid(cl):
    """thorough tier, Counter.new layouts: start, carry out of the low byte / the low two bytes at the 8-block
    look-ahead, carry into and out of the top byte, wrap through zero after 1, 8 and 9 blocks"""
    top = 1 << (8 * cl)
    s = {0, 0xF8 if cl > 1 else 0xF7, top - 1, top - 8, top - 9}
    if cl > 1:
        s |= {(1 << (8 * (cl - 1))) - 1, (1 << (8 * (cl - 1))) - 9}
    if cl > 2:
        s.add(0xFFF8)
    return sorted(v for v in s if 0 <= v < top)


def classic_setup(cfg):
    """-> (constructor kwargs for encryption, kwargs for decryption, reference full-ciphertext function,
           prefix the library prepends (OpenPGP), expected iv attribute, expected nonce attribute, param signature)"""
    c, mode, vc, seed = cfg["c"], cfg["mode"], cfg["vc"], cfg["seed"]
    bs = BS[c]
    key = key_for(c, cfg["klen"], vc, seed)
    R = ref_cipher(c, key, cfg.get("eff"))
    iv = val(vc, "iv", bs, seed)
    if mode == "ECB":
        return {}, {}, (lambda m: M.ecb_encrypt(R, m)), b"", None, None, ()
    if mode == "CBC":
        return {"iv": iv}, {"iv": iv}, (lambda m: M.cbc_encrypt(R, iv, m)), b"", iv, None, ()
    if mode == "CFB":
        seg = cfg["seg"]
        kw = {"iv": iv, "segment_size": seg}
        return kw, kw, (lambda m: M.cfb_encrypt(R, iv, m, seg)), b"", iv, None, (seg,)
    if mode == "OFB":
        return {"iv": iv}, {"iv": iv}, (lambda m: M.ofb_crypt(R, iv, m)), b"", iv, None, ()
    if mode == "OPENPGP":
        eiv = M.openpgp_encrypt(R, iv, b"")
        return {"iv": iv}, {"iv": eiv}, (lambda m: M.openpgp_encrypt(R, iv, m)[bs + 2:]), eiv, iv, None, ()
    if mode == "CTR":
        t = cfg["ctr"]
        if t["kind"] == "nonce":
            nl = t["nl"]
            nonce = val(vc, "nonce", nl, seed)
            ivv = t["iv"]
            kw = {"nonce": nonce}
            if t.get("ivbytes"):
                kw["initial_value"] = ivv.to_bytes(bs - nl, "big")
            elif not (ivv == 0 and t.get("ivdefault")):
                kw["initial_value"] = ivv
            f = lambda m: M.ctr_crypt(R, m, prefix=nonce, initial_value=ivv, counter_len=bs - nl)  # noqa
            return kw, kw, f, b"", None, nonce, ("n", nl, _ivc(ivv, bs - nl), bool(t.get("ivbytes")))
        from Crypto.Util import Counter
        p, cl, s, le, ivv = t["p"], t["cl"], t["s"], bool(t["le"]), t["iv"]
        prefix, suffix = val(vc, "pfx", p, seed), val(vc, "sfx", s, seed)
        kw = {"counter": Counter.new(8 * cl, prefix=prefix, suffix=suffix, initial_value=ivv, little_endian=le)}
        f = lambda m: M.ctr_crypt(R, m, prefix=prefix, suffix=suffix, initial_value=ivv, counter_len=cl,  # noqa
                                  little_endian=le)
        return kw, kw, f, b"", None, (prefix if s == 0 else None), ("c", p, cl, s, le, _ivc(ivv, cl))
    raise KeyError(mode)


def _ivc(v, cl):
    top = 1 << (8 * cl)
    if v < 256:
        return "lo%02x" % v
    if top - v <= 32:
        return "top-%d" % (top - v)
    return "mid%d" % v.bit_length()


def check_classic(cfg, acc, lengths=None):
    """cfg: c, klen, eff, vc, seed, mode [, seg][, ctr][, L]; runs every length of `lengths` (or just cfg['L'])"""
    c, mode, vc, seed = cfg["c"], cfg["mode"], cfg["vc"], cfg["seed"]
    bs = BS[c]
    if lengths is None:
        lengths = [cfg["L"]]
    if mode in ("ECB", "CBC"):
        lengths = [L for L in lengths if L % bs == 0]
    key = key_for(c, cfg["klen"], vc, seed)
    eff = cfg.get("eff")
    try:
        kwe, kwd, reff, pre, ivattr, nonceattr, sig = classic_setup(cfg)
    except Exception as e:  # noqa
        if exc_site(e) != "?":
            return _raised(acc, cfg, e, "constructor arguments")
        raise
    Lmax = max(lengths)
    Mfull = val(vc, "msg", Lmax, seed)
    ref_full = reff(Mfull)
    if len(ref_full) != Lmax:
        acc.error("reference %s returned %d bytes for %d" % (mode, len(ref_full), Lmax))
        return
    for L in lengths:
        acc.count("evaluations")
        acc.count("classic_cases")
        acc.seen("classes", ("classic", c, cfg["klen"], eff, mode, sig, lcls(L, bs)))
        pt, exp = Mfull[:L], ref_full[:L]
        case = dict(cfg, L=L)
        if L >= HUGE:
            acc.count("huge_cases")
        try:
            e = lib_new(c, key, mode, eff, **kwe)
            got = e.encrypt(pt)
        except Exception as ex:  # noqa
            _raised(acc, case, ex, "%s.new(..MODE_%s..).encrypt" % (c, mode))
            continue
        if got != pre + exp:
            scr = None
            if L <= 4200 and mode != "CTR":
                scr = _script("from Crypto.Cipher import %s as C\nkw = %r\nc = C.new(H('%s'), C.MODE_%s, **kw)\n"
                              "print(c.encrypt(H('%s')).hex())\nprint('%s  <- specification')\n"
                              % (c, dict(kwe, **_effkw(eff)), key.hex(), mode,
                                 pt.hex(), (pre + exp).hex()))
            _viol(acc, case, "ciphertext", "%s-%s key=%s %s len=%d: ciphertext %s, specification %s"
                  % (c, mode, short(key, 32), _psig(cfg), L, short(got), short(pre + exp)), scr)
        if ivattr is not None and (getattr(e, "iv", None) != ivattr or getattr(e, "IV", None) != ivattr):
            _viol(acc, case, "iv-attr", "%s-%s: cipher.iv = %s but the IV in use is %s"
                  % (c, mode, short(getattr(e, "iv", None)), short(ivattr)))
        if nonceattr is not None and getattr(e, "nonce", None) != nonceattr:
            _viol(acc, case, "nonce-attr", "%s-%s: cipher.nonce = %s but the nonce in use is %s"
                  % (c, mode, short(getattr(e, "nonce", None)), short(nonceattr)))
        try:
            d = lib_new(c, key, mode, eff, **kwd)
            back = d.decrypt(exp)
        except Exception as ex:  # noqa
            _raised(acc, case, ex, "%s.new(..MODE_%s..).decrypt" % (c, mode))
            continue
        if back != pt:
            _viol(acc, case, "decrypt", "%s-%s key=%s %s len=%d: decrypt(specification ciphertext) = %s, message %s"
                  % (c, mode, short(key, 32), _psig(cfg), L, short(back), short(pt)))
        if mode == "OPENPGP" and getattr(d, "iv", None) != ivattr:
            _viol(acc, case, "iv-attr", "%s-OPENPGP: decrypting cipher.iv = %s, IV was %s"
                  % (c, short(getattr(d, "iv", None)), short(ivattr)))
        acc.count("bytes_compared", 2 * L)
    if not acc.samples and Lmax > bs:
        acc.sample({"part": "classic", "cipher": c, "mode": mode, "params": _psig(cfg), "key": key,
                    "message": Mfull[:2 * bs + 1], "reference_ciphertext": (pre + ref_full)[:len(pre) + 2 * bs + 1],
                    "lengths_checked": len(lengths)})


def _psig(cfg):
    return " ".join("%s=%s" % (k, short(cfg[k], 20)) for k in ("eff", "seg", "ctr") if cfg.get(k) is not None)


def classic_cfgs(c, klen, eff, vc, seed, group):
    bs = BS[c]
    base = {"part": "classic", "c": c, "klen": klen, "eff": eff, "vc": vc, "seed": seed}
    if group == "basic":
        yield dict(base, mode="ECB")
        yield dict(base, mode="CBC")
        for seg in range(8, 8 * bs + 1, 8):
            yield dict(base, mode="CFB", seg=seg)
        yield dict(base, mode="OFB")
        yield dict(base, mode="OPENPGP")
    elif group == "ctrn":
        for nl in range(0, bs):
            for iv in ivgrid(bs - nl):
                yield dict(base, mode="CTR", ctr={"kind": "nonce", "nl": nl, "iv": iv, "ivdefault": True})
            yield dict(base, mode="CTR", ctr={"kind": "nonce", "nl": nl, "iv": (1 << (8 * (bs - nl))) - 9,
                                              "ivbytes": True})
    elif group == "ctrnd":
        for nl in range(0, bs):
            for iv in ivgrid(bs - nl):
                yield dict(base, mode="CTR", ctr={"kind": "nonce", "nl": nl, "iv": iv, "ivdefault": True})
                if iv == 0:            # initial_value=0 passed explicitly (above: left to its default)
                    yield dict(base, mode="CTR", ctr={"kind": "nonce", "nl": nl, "iv": iv})
                yield dict(base, mode="CTR", ctr={"kind": "nonce", "nl": nl, "iv": iv, "ivbytes": True})
    elif group[:5] in ("ctrc0", "ctrc1", "ctrd0", "ctrd1"):
        # ctrc*: 3 initial values per layout (quick); ctrd*: the 8-value grid ivgrid_mid() (thorough); "ctrd0/i/n" = the
        # counter lengths cl with cl % n == i (shard split, same enumeration)
        le = group[4] == "1"
        grid = ivgrid_mid if group[3] == "d" else ivgrid_small
        sub = group.split("/")
        for cl in range(1, bs + 1):
            if len(sub) == 3 and cl % int(sub[2]) != int(sub[1]):
                continue
            for p in range(0, bs - cl + 1):
                for iv in grid(cl):
                    yield dict(base, mode="CTR", ctr={"kind": "counter", "p": p, "cl": cl, "s": bs - cl - p,
                                                      "le": le, "iv": iv})


# ---------------------------------------------------------------------------
# part "aead": GCM CCM EAX OCB SIV ChaCha20-Poly1305 (one case = one call)
# ---------------------------------------------------------------------------
def aead_inputs(cfg):
    c, mode, vc, seed = cfg["c"], cfg["mode"], cfg["vc"], cfg["seed"]
    key = key_for(c, cfg["klen"], vc, seed) if c != "ChaCha20" else val(vc, "key", 32, seed)
    nl = cfg.get("nl")
    if cfg.get("nonce") is not None:
        nonce = cfg["nonce"]
    elif nl is None:
        nonce = None
    else:
        nonce = val(vc, "nonce", nl, seed)
        if cfg.get("last") is not None:
            nonce = nonce[:-1] + bytes([cfg["last"]])
    a = cfg["aad"]
    if mode == "SIV":
        aad = [val(vc, "aad%d" % i, n, seed) for i, n in enumerate(a)]
    else:
        aad = val(vc, "aad", a, seed)
    return key, nonce, aad, val(vc, "msg", cfg["L"], seed)


# GCM and EAX tags of every length are prefixes of the full tag (SP 800-38D 7.1 MSB_t; EAX: first tau bytes) and the
# reference models compute them exactly like that (canaries() re-checks it on every run).  The thorough tier walks all
# tag lengths for each (key, nonce, AAD, message): with the memo switched on (thorough workers only; never in replay)
# the reference is evaluated once per input with the full tag length and truncated here.
_REF_MEMO = None          # dict when enabled


def aead_ref(cfg, key, nonce, aad, pt):
    c, mode = cfg["c"], cfg["mode"]
    tl = cfg.get("tl")
    if _REF_MEMO is not None and mode in ("GCM", "EAX"):
        mk = (mode, c, cfg.get("eff"), key, nonce, aad, pt)
        r = _REF_MEMO.get(mk)
        if r is None:
            if len(_REF_MEMO) > 400:
                _REF_MEMO.clear()
            R = ref_cipher(c, key, cfg.get("eff"))
            r = _REF_MEMO[mk] = (M.gcm_encrypt if mode == "GCM" else M.eax_encrypt)(R, nonce, aad, pt, R.block_size)
        return r[0], r[1][:tl]
    if mode == "CHAPOLY":
        return M.chacha20_poly1305_encrypt(key, nonce, aad, pt)
    if mode == "SIV":
        return M.siv_encrypt(key, lambda k: ref_cipher(c, bytes(k)), aad, pt, nonce)
    R = ref_cipher(c, key, cfg.get("eff"))
    f = {"GCM": M.gcm_encrypt, "CCM": M.ccm_encrypt, "EAX": M.eax_encrypt, "OCB": M.ocb_encrypt}[mode]
    return f(R, nonce, aad, pt, tl)


def aead_lib(cfg, key, nonce, aad, L):
    """fresh library object with the AAD already fed"""
    c, mode = cfg["c"], cfg["mode"]
    if mode == "CHAPOLY":
        from Crypto.Cipher import ChaCha20_Poly1305
        o = ChaCha20_Poly1305.new(key=key, nonce=nonce)
    else:
        kw = {}
        if nonce is not None:
            kw["nonce"] = nonce
        if mode != "SIV" and not cfg.get("tldefault"):
            kw["mac_len"] = cfg["tl"]
        if mode == "CCM":
            v = cfg.get("ccm", "auto")
            if v in ("declared", "msg_len"):
                kw["msg_len"] = L
            if v in ("declared", "assoc_len"):
                kw["assoc_len"] = len(aad)
        o = lib_new(c, key, mode, cfg.get("eff"), **kw)
    if mode == "SIV":
        for comp in aad:
            o.update(comp)
    elif aad:
        o.update(aad)
    return o


def aead_sig(cfg):
    a = cfg["aad"]
    bs = 16
    acls = tuple(lcls(x, bs) for x in a) if isinstance(a, list) else lcls(a, bs)
    if isinstance(a, int) and a >= 0xFF00:
        acls = "hdr6"
    sig = (cfg.get("nl"), cfg.get("tl"), acls, cfg.get("ccm"), cfg.get("last") is not None and cfg["last"] & 0x3F,
           cfg.get("nonce") is not None)
    if cfg.get("eff") is not None:
        sig += (cfg["eff"],)
    return sig


def check_aead(cfg, acc):
    """cfg: c, klen, eff, vc, seed, mode, nl, tl, aad, L [, ccm][, last][, nonce]"""
    c, mode = cfg["c"], cfg["mode"]
    key, nonce, aad, pt = aead_inputs(cfg)
    L = cfg["L"]
    acc.count("evaluations")
    acc.count("aead_cases")
    acc.seen("classes", ("aead", c, cfg["klen"], mode, aead_sig(cfg), lcls(L, 64 if mode == "CHAPOLY" else BS.get(c, 16))))
    exp_ct, exp_tag = aead_ref(cfg, key, nonce, aad, pt)
    desc = "%s-%s key=%s nonce=%s mac_len=%s aad=%s msg=%s%s" % (
        c, mode, short(key, 32), short(nonce, 34) if nonce is not None else None, cfg.get("tl"),
        short(aad, 24), short(pt, 24), (" ccm=" + cfg["ccm"]) if cfg.get("ccm") else "")
    try:
        e = aead_lib(cfg, key, nonce, aad, L)
        ct, tag = e.encrypt_and_digest(pt)
    except Exception as ex:  # noqa
        return _raised(acc, cfg, ex, "encrypt_and_digest")
    scr = None
    if (ct != exp_ct or tag != exp_tag) and L <= 4200 and mode not in ("SIV", "CHAPOLY") and isinstance(aad, bytes) \
            and len(aad) <= 4200:
        scr = _script("from Crypto.Cipher import %s as C\nc = C.new(H('%s'), C.MODE_%s, nonce=H('%s'), mac_len=%d)\n"
                      "c.update(H('%s'))\nct, tag = c.encrypt_and_digest(H('%s'))\nprint(ct.hex(), tag.hex())\n"
                      "print('%s', '%s', ' <- specification')\n"
                      % (c, key.hex(), mode, nonce.hex(), cfg["tl"], aad.hex(), pt.hex(), exp_ct.hex(), exp_tag.hex()))
    if ct != exp_ct:
        _viol(acc, cfg, "ciphertext", "%s: ciphertext %s, specification %s" % (desc, short(ct), short(exp_ct)), scr)
    if tag != exp_tag:
        _viol(acc, cfg, "tag", "%s: tag %s, specification %s" % (desc, short(tag), short(exp_tag)), scr)
    if nonce is not None and getattr(e, "nonce", None) != nonce:
        _viol(acc, cfg, "nonce-attr", "%s: cipher.nonce = %s" % (desc, short(getattr(e, "nonce", None))))
    if nonce is None and hasattr(e, "nonce"):
        acc.observe("SIV object created without a nonce exposes a nonce attribute")
    try:
        d = aead_lib(cfg, key, nonce, aad, L)
        back = d.decrypt_and_verify(exp_ct, exp_tag)
    except ValueError as ex:
        if exc_site(ex).endswith(".verify"):
            return _viol(acc, cfg, "rejects-specification-tag",
                         "%s: decrypt_and_verify refuses the ciphertext/tag every conforming peer produces (%s)" % (desc, ex))
        return _raised(acc, cfg, ex, "decrypt_and_verify")
    except Exception as ex:  # noqa
        return _raised(acc, cfg, ex, "decrypt_and_verify")
    if back != pt:
        _viol(acc, cfg, "decrypt", "%s: decrypt_and_verify(specification ciphertext) = %s" % (desc, short(back)))
    acc.count("bytes_compared", 2 * L + len(exp_tag))
    if L >= HUGE or max(cfg["aad"] if isinstance(cfg["aad"], list) else [cfg["aad"]], default=0) >= HUGE:
        acc.count("huge_cases")
    if L in (17, 33) and cfg.get("tl") in (None, 16, 8) and cfg["aad"]:
        acc.sample({"part": "aead", "cipher": c, "mode": mode, "key": key, "nonce": nonce, "aad": aad if isinstance(aad, bytes) else list(aad),
                    "message": pt, "ciphertext": ct, "tag": tag, "equals_reference": ct == exp_ct and tag == exp_tag})


AAD_G = (0, 1, 15, 16, 17, 33)
MSG_G = (0, 1, 15, 16, 17, 32, 33)
GCM_NL = (1, 8, 11, 12, 13, 15, 16, 17, 31, 32, 33)
SIV_AAD = ([], [1], [16], [17], [0], [15, 33], [1, 16, 17], [16, 0, 1])
SIV_AD1 = (0, 1, 15, 16, 17, 33)          # thorough: component lengths of the 0-, 1- and 2-component AD vectors
SIV_AD3 = (0, 1, 16, 17)                  # ... of the 3-component vectors
SIV_AD4 = (0, 17)                         # ... of the 4-component vectors
CCM_VARIANTS = ("auto", "declared", "msg_len", "assoc_len")
CHAPOLY_AAD_DEEP = (0, 1, 15, 16, 17, 33, 63, 64, 65)
CHAPOLY_MSG = (0, 1, 15, 16, 17, 32, 33, 63, 64, 65, 127, 128, 129)
CHAPOLY_MSG_DEEP = CHAPOLY_MSG + (255, 256, 257, 511, 512, 513)


def siv_ad_vectors(quick):
    """associated-data vectors (lists of component lengths) of the SIV grid; thorough: EVERY vector of 0..2 components
    over SIV_AD1, of 3 components over SIV_AD3 and of 4 components over SIV_AD4 (a superset of the quick list)"""
    if quick:
        return [list(a) for a in SIV_AAD]
    out = [[]] + [[a] for a in SIV_AD1] + [[a, b] for a in SIV_AD1 for b in SIV_AD1]
    out += [[a, b, d] for a in SIV_AD3 for b in SIV_AD3 for d in SIV_AD3]
    out += [[a, b, d, e] for a in SIV_AD4 for b in SIV_AD4 for d in SIV_AD4 for e in SIV_AD4]
    return out


def aead_grid(mode, c, klen, nl, vc, seed, quick, eff=None):
    """the C01 shape grid (without mutations) for one (mode, cipher, key length, nonce length, value class):
    every legal tag length x AAD lengths x message lengths (both tiers; the thorough tier adds 8 blocks -1/0/+1 to
    both length grids, the two half-declared CCM variants, the full SIV AD-vector grid)"""
    bs = BS.get(c, 16)
    base = {"part": "aead", "c": c, "klen": klen, "vc": vc, "seed": seed, "mode": mode, "nl": nl}
    if eff is not None:
        base["eff"] = eff
    aadg = [0, 1, bs - 1, bs, bs + 1, 2 * bs + 1]
    msgg = [0, 1, bs - 1, bs, bs + 1, 2 * bs, 2 * bs + 1]
    if not quick:
        aadg += [8 * bs - 1, 8 * bs, 8 * bs + 1]
        msgg += [8 * bs - 1, 8 * bs, 8 * bs + 1]
    if mode == "SIV":
        for a in siv_ad_vectors(quick):
            for L in msgg:
                yield dict(base, tl=16, aad=list(a), L=L)
        return
    if mode == "CHAPOLY":
        for a in (AAD_G if quick else CHAPOLY_AAD_DEEP):
            for L in (CHAPOLY_MSG if quick else CHAPOLY_MSG_DEEP):
                yield dict(base, tl=16, aad=a, L=L)
        return
    tls = {"GCM": range(4, 17), "CCM": (4, 6, 8, 10, 12, 14, 16), "EAX": range(2, bs + 1), "OCB": range(8, 17)}[mode]
    for tl in tls:
        for a in aadg:
            for L in msgg:
                if mode == "CCM":
                    for v in (("auto", "declared") if quick else CCM_VARIANTS):
                        yield dict(base, tl=tl, aad=a, L=L, ccm=v)
                else:
                    yield dict(base, tl=tl, aad=a, L=L)


def aead_alllen(mode, c, klen, vc, seed, quick):
    """every message length 0..8*block+1 (and around 16/24 blocks) for the default-ish configurations"""
    bs = 64 if mode == "CHAPOLY" else BS.get(c, 16)
    base = {"part": "aead", "c": c, "klen": klen, "vc": vc, "seed": seed, "mode": mode}
    nls = {"GCM": (12, 16), "CCM": (11, 13), "EAX": (16, 5), "OCB": (15, 12), "SIV": (None, 16), "CHAPOLY": (12, 24, 8)}[mode]
    if not quick:      # a third nonce length: the shortest legal one (EAX, SIV: longer than two blocks)
        nls += {"GCM": (1,), "CCM": (7,), "EAX": (33,), "OCB": (1,), "SIV": (33,), "CHAPOLY": ()}[mode]
    ls = lens_all(bs) if quick else lens_deep(bs)
    for nl in nls:
        for a in ((0, 17) if quick else (0, 1, 17)):
            for L in ls:
                d = dict(base, nl=nl, tl=min(16, BS.get(c, 16)), aad=([a] if a else []) if mode == "SIV" else a, L=L)
                if mode == "CCM":
                    d["ccm"] = "declared" if a else "auto"
                if nl == nls[0]:
                    d["tldefault"] = True          # mac_len not passed: the documented default (= block size)
                yield d
    # every AAD length 0..8*block+1 (and around 16 blocks) with an empty and a 17-byte message
    if mode != "SIV":
        aads = list(range(0, 8 * 16 + 2)) + [255, 256, 257]
        if not quick:
            aads = list(range(0, 16 * 16 + 2)) + [383, 384, 385, 511, 512, 513]
        for a in aads:
            for L in ((0, 17) if quick else (0, 1, 17)):
                d = dict(base, nl=nls[0], tl=min(16, BS.get(c, 16)), aad=a, L=L)
                if mode == "CCM":
                    d["ccm"] = "declared" if a % 2 else "auto"
                yield d
    else:
        for a in list(range(0, (4 if quick else 16) * 16 + 2)):
            yield dict(base, nl=None, tl=16, aad=[a, (a * 5) % 37], L=a % 19)
    if mode == "CCM":
        # the remaining declaration variants, a few lengths
        for v in ("msg_len", "assoc_len"):
            for a in (0, 17):
                for L in (0, 1, 16, 33):
                    yield dict(base, nl=11, tl=16, aad=a, L=L, ccm=v)


# ---------------------------------------------------------------------------
# part "stream": RC4, Salsa20, ChaCha20/XChaCha20
# ---------------------------------------------------------------------------
def check_stream(cfg, acc, lengths=None):
    """cfg: c in ARC4/Salsa20/ChaCha20, klen, vc, seed [, drop][, nl][, seek][, L]"""
    c, vc, seed = cfg["c"], cfg["vc"], cfg["seed"]
    if lengths is None:
        lengths = [cfg["L"]]
    key = val(vc, "key", cfg["klen"], seed)
    Lmax = max(lengths)
    Mfull = val(vc, "msg", Lmax, seed)
    nonce = None
    if c == "ARC4":
        from Crypto.Cipher import ARC4
        drop = cfg.get("drop")
        ks = R_rc4.rc4_keystream(key, Lmax, drop or 0)
        mk = (lambda: ARC4.new(key)) if drop is None else (lambda: ARC4.new(key, drop=drop))
        sig = (drop,)
    elif c == "Salsa20":
        from Crypto.Cipher import Salsa20
        nonce = val(vc, "nonce", 8, seed)
        ks = R_cc.salsa20_stream(key, nonce, Lmax)
        mk = lambda: Salsa20.new(key, nonce)  # noqa
        sig = ()
    else:
        from Crypto.Cipher import ChaCha20
        nonce = val(vc, "nonce", cfg["nl"], seed)
        pos = cfg.get("seek")
        ks = R_cc.chacha20_stream(key, nonce, Lmax, pos or 0)

        pre = cfg.get("pre")

        def mk(dec=False):
            o = ChaCha20.new(key=key, nonce=nonce)
            if pre is not None:           # the object has been somewhere else before: seek, use, seek again
                for q in (pre if isinstance(pre, (list, tuple)) else (pre,)):
                    o.seek(q)
                    (o.decrypt if dec else o.encrypt)(b"x")
            if pos is not None:
                o.seek(pos)
            return o
        sig = (cfg["nl"], pos) if pre is None else (cfg["nl"], pos, "after",
                                                    tuple(pre) if isinstance(pre, (list, tuple)) else pre)
    if len(ks) != Lmax:
        acc.error("reference keystream length")
        return
    ref_full = _xor(Mfull, ks)
    for L in lengths:
        acc.count("evaluations")
        acc.count("stream_cases")
        acc.seen("classes", ("stream", c, cfg["klen"], sig, lcls(L, 64)))
        case = dict(cfg, L=L)
        pt, exp = Mfull[:L], ref_full[:L]
        try:
            e = mk()
            got = e.encrypt(pt)
            back = (mk(True) if c == "ChaCha20" else mk()).decrypt(exp)
        except Exception as ex:  # noqa
            if cfg.get("lastblock") and isinstance(ex, (ValueError, OverflowError)):
                # limit territory (C11): the reference (RFC 8439: counter values 0..2^32-1) can use block 2^32-1,
                # the library refuses it.  A refusal is not a wrong ciphertext: logged, never a verdict here.
                acc.observe("ChaCha20 with a 12/24-byte nonce refuses to produce the last legal keystream block "
                            "(counter 0xFFFFFFFF), e.g. seek(64*(2**32-1)): %s" % type(ex).__name__)
                continue
            _raised(acc, case, ex, "%s encrypt/decrypt" % c)
            continue
        if L >= HUGE:
            acc.count("huge_cases")
        if got != exp:
            _viol(acc, case, "ciphertext", "%s key=%s nonce=%s %s len=%d: ciphertext %s, specification %s"
                  % (c, short(key, 32), short(nonce), sig, L, short(got), short(exp)))
        if back != pt:
            _viol(acc, case, "decrypt", "%s key=%s nonce=%s %s len=%d: decrypt(specification ciphertext) differs"
                  % (c, short(key, 32), short(nonce), sig, L))
        if nonce is not None and getattr(e, "nonce", None) != nonce:
            _viol(acc, case, "nonce-attr", "%s: cipher.nonce = %s, nonce in use %s"
                  % (c, short(getattr(e, "nonce", None)), short(nonce)))
        acc.count("bytes_compared", 2 * L)
        if L == 65:
            acc.sample({"part": "stream", "cipher": c, "key": key, "nonce": nonce, "params": list(sig), "message": pt,
                        "ciphertext": got, "equals_reference": got == exp})


# ---------------------------------------------------------------------------
# part "kw": AES key wrap (RFC 3394 / 5649, SP 800-38F)
# ---------------------------------------------------------------------------
def check_kw(cfg, acc):
    """cfg: mode KW/KWP, klen, vc, seed, L"""
    mode, vc, seed, L = cfg["mode"], cfg["vc"], cfg["seed"], cfg["L"]
    key = val(vc, "key", cfg["klen"], seed)
    p = val(vc, "msg", L, seed)
    R = ref_cipher("AES", key)
    acc.count("evaluations")
    acc.count("kw_cases")
    acc.seen("classes", ("kw", mode, cfg["klen"], L if L <= 24 else lcls(L, 8)))
    exp = (M.kw_wrap if mode == "KW" else M.kwp_wrap)(R, p)
    try:
        got = lib_new("AES", key, mode).seal(p)
        back = lib_new("AES", key, mode).unseal(exp)
    except Exception as ex:  # noqa
        return _raised(acc, cfg, ex, "seal/unseal")
    if got != exp:
        _viol(acc, cfg, "ciphertext", "AES-%s key=%s seal(%s) = %s, specification %s"
              % (mode, short(key, 32), short(p), short(got), short(exp)),
              _script("from Crypto.Cipher import AES\nprint(AES.new(H('%s'), AES.MODE_%s).seal(H('%s')).hex())\n"
                      "print('%s  <- specification')\n" % (key.hex(), mode, p.hex(), exp.hex())) if L < 2000 else None)
    if back != p:
        _viol(acc, cfg, "decrypt", "AES-%s key=%s unseal(specification wrapping of %s) = %s"
              % (mode, short(key, 32), short(p), short(back)))
    acc.count("bytes_compared", 2 * L + 8)
    if L == 24:
        acc.sample({"part": "kw", "mode": mode, "key": key, "payload": p, "wrapped": got, "equals_reference": got == exp})


# ---------------------------------------------------------------------------
# part "auto": library-chosen IV / nonce through the entropy seam; the reference peer decrypts
# ---------------------------------------------------------------------------
SEAM = {"CBC": "Crypto.Cipher._mode_cbc", "CFB": "Crypto.Cipher._mode_cfb", "OFB": "Crypto.Cipher._mode_ofb",
        "OPENPGP": "Crypto.Cipher._mode_openpgp", "CTR": "Crypto.Cipher._mode_ctr", "GCM": "Crypto.Cipher._mode_gcm",
        "CCM": "Crypto.Cipher._mode_ccm", "EAX": "Crypto.Cipher._mode_eax", "OCB": "Crypto.Cipher._mode_ocb",
        "ChaCha20": "Crypto.Cipher.ChaCha20", "CHAPOLY": "Crypto.Cipher.ChaCha20_Poly1305",
        "Salsa20": "Crypto.Cipher.Salsa20"}


def check_auto(cfg, acc):
    """cfg: c, klen, eff, mode, vc (class of the tape), seed, L, aad"""
    c, mode, vc, seed, L = cfg["c"], cfg["mode"], cfg["vc"], cfg["seed"], cfg["L"]
    acc.count("evaluations")
    acc.count("auto_cases")
    acc.seen("classes", ("auto", c, cfg["klen"], mode, lcls(L, BS.get(c, 64))))
    stream = mode == "stream"
    key = val("seed", "key", cfg["klen"], seed) if c in ("ChaCha20", "Salsa20") else key_for(c, cfg["klen"], "seed", seed)
    pt = val("seed", "msg", L, seed)
    aad = val("seed", "aad", cfg.get("aad", 0), seed)
    seam = importlib.import_module(SEAM[c if stream else mode])
    if not hasattr(seam, "get_random_bytes"):
        acc.error("harness cannot reach seam %s.get_random_bytes" % seam.__name__)
        return
    calls = []

    def tape(n):
        calls.append(n)
        return val(vc, "tape%d" % len(calls), n, seed)
    real = seam.get_random_bytes
    seam.get_random_bytes = tape
    tag = None
    try:
        try:
            if mode == "CHAPOLY":
                from Crypto.Cipher import ChaCha20_Poly1305
                o = ChaCha20_Poly1305.new(key=key)
            elif c == "ChaCha20":
                from Crypto.Cipher import ChaCha20
                o = ChaCha20.new(key=key)
            elif c == "Salsa20":
                from Crypto.Cipher import Salsa20
                o = Salsa20.new(key)
            else:
                o = lib_new(c, key, mode, cfg.get("eff"))
            if mode in ("GCM", "CCM", "EAX", "OCB", "CHAPOLY"):
                if aad:
                    o.update(aad)
                ct, tag = o.encrypt_and_digest(pt)
            else:
                ct = o.encrypt(pt)
        finally:
            seam.get_random_bytes = real
    except Exception as ex:  # noqa
        return _raised(acc, cfg, ex, "new() without IV/nonce + encrypt")
    if not calls:
        acc.error("seam %s.get_random_bytes was not used for %s-%s: entropy is not under control"
                  % (seam.__name__, c, mode))
        return
    acc.count("tape_calls", len(calls))
    attr = "iv" if mode in ("CBC", "CFB", "OFB", "OPENPGP") and not stream else "nonce"
    pub = getattr(o, attr, None)
    if not isinstance(pub, (bytes, bytearray)):
        return _viol(acc, cfg, "auto-%s-missing" % attr, "%s-%s created without %s exposes %s=%r"
                     % (c, mode, attr, attr, pub))
    pub = bytes(pub)
    # ---- the peer: reference implementation, knows key, ciphertext, tag, AAD and the exposed attribute only
    try:
        if mode == "CHAPOLY":
            back = M.chacha20_poly1305_decrypt(key, pub, aad, ct, tag)
        elif c == "ChaCha20":
            back = _xor(ct, R_cc.chacha20_stream(key, pub, len(ct)))
        elif c == "Salsa20":
            back = _xor(ct, R_cc.salsa20_stream(key, pub, len(ct)))
        else:
            R = ref_cipher(c, key, cfg.get("eff"))
            bs = BS[c]
            if mode == "CBC":
                back = M.cbc_decrypt(R, pub, ct)
            elif mode == "CFB":
                back = M.cfb_decrypt(R, pub, ct, 8)
            elif mode == "OFB":
                back = M.ofb_crypt(R, pub, ct)
            elif mode == "OPENPGP":
                back = M.openpgp_decrypt(R, ct)
                if M.openpgp_encrypt(R, pub, pt) != ct:
                    _viol(acc, cfg, "auto-iv-inconsistent", "%s-OPENPGP with library-chosen IV: cipher.iv=%s does not "
                          "reproduce the ciphertext" % (c, short(pub)))
            elif mode == "CTR":
                back = M.ctr_crypt(R, ct, prefix=pub, initial_value=0, counter_len=bs - len(pub))
            else:
                f = {"GCM": M.gcm_decrypt, "CCM": M.ccm_decrypt, "EAX": M.eax_decrypt, "OCB": M.ocb_decrypt}[mode]
                back = f(R, pub, aad, ct, tag)
    except (ValueError, OverflowError) as ex:
        return _viol(acc, cfg, "auto-%s-peer-cannot-decrypt" % attr,
                     "%s-%s with library-chosen %s (tape class %s): a conforming peer using cipher.%s=%s cannot "
                     "decrypt: %s" % (c, mode, attr, vc, attr, short(pub), ex))
    if back != pt:
        _viol(acc, cfg, "auto-%s-peer-decrypts-wrong" % attr,
              "%s-%s with library-chosen %s (tape class %s): a conforming peer using cipher.%s=%s obtains %s instead of %s"
              % (c, mode, attr, vc, attr, short(pub), short(back), short(pt)))
    if pub != val(vc, "tape1", len(pub), seed):
        acc.observe("%s: exposed %s differs from the bytes drawn from the entropy seam (peer still decrypts)" % (mode, attr))
    acc.seen("auto_len", (c if stream else mode, BS.get(c, 0), len(pub)))
    acc.count("bytes_compared", L)


# ---------------------------------------------------------------------------
# part "parity": DES3.adjust_key_parity and degenerate keys
# ---------------------------------------------------------------------------
def ref_odd_parity(b):
    hi = b & 0xFE
    return hi | (0 if bin(hi).count("1") % 2 else 1)


def ref_adjust(key):
    """-> adjusted key, or None when the specification of adjust_key_parity demands refusal"""
    if len(key) not in (16, 24):
        return None
    k = bytes(ref_odd_parity(b) for b in key)
    k1, k2, k3 = k[:8], k[8:16], (k[16:24] if len(k) == 24 else k[:8])
    if k1 == k2 or k2 == k3:
        return None
    return k


def check_des3key(cfg, acc):
    """cfg: key (bytes), why (class label)"""
    from Crypto.Cipher import DES3
    key = cfg["key"]
    acc.count("evaluations")
    acc.count("des3key_cases")
    exp = ref_adjust(key)
    try:
        got = DES3.adjust_key_parity(key)
    except ValueError:
        got = None
    except Exception as ex:  # noqa
        return _raised(acc, cfg, ex, "DES3.adjust_key_parity")
    blk = asc(8, 0x31) + bytes(8)
    try:
        ct = DES3.new(key, DES3.MODE_ECB).encrypt(blk)
    except ValueError:
        ct = None
    except Exception as ex:  # noqa
        return _raised(acc, cfg, ex, "DES3.new")
    acc.seen("classes", ("des3key", len(key), cfg["why"], exp is None, got is None, ct is None))
    acc.seen("des3_outcomes", (exp is None, got is None, ct is None))
    if exp is None:
        if got is not None or ct is not None:
            _viol(acc, cfg, "degenerate-key-accepted", "TDES key %s degenerates to single DES but %s"
                  % (key.hex(), "adjust_key_parity returned " + got.hex() if got is not None else "DES3.new accepted it"))
        return
    if got != exp:
        _viol(acc, cfg, "adjust-key-parity", "DES3.adjust_key_parity(%s) = %s, odd-parity model %s"
              % (key.hex(), got.hex() if got is not None else "ValueError", exp.hex()))
    expct = M.ecb_encrypt(R_des.TDES(key), blk)
    if ct != expct:
        _viol(acc, cfg, "des3-key-schedule" if ct is not None else "valid-key-refused",
              "DES3.new(%s).encrypt(%s) = %s, TDES model (parity bits ignored) %s"
              % (key.hex(), blk.hex(), ct.hex() if ct is not None else "ValueError", expct.hex()))


def des3key_cases(shard, seed):
    kind = shard[1]
    if kind == "bytes":            # all 256 values at one byte position
        klen, pos = shard[2], shard[3]
        bases = [asc(klen, 0x10), seeded("c02/des3base", klen, seed)]
        if len(shard) > 4:         # thorough: also an all-zero / all-ones base (degenerate unless the varied byte
            x = seeded("c02/des3base3", 8, seed)         # differs in a non-parity bit), a K1=K2 and a K2=K3 base
            y = bytes(v ^ 0xA5 for v in x)
            bases += [bytes(klen), b"\xff" * klen, seeded("c02/des3base2", klen, seed), (x + x + y)[:klen],
                      (y + x + x)[:klen] if klen == 24 else (x + y)]
        for base in bases:
            for b in range(256):
                yield {"part": "des3key", "c": "DES3", "key": base[:pos] + bytes([b]) + base[pos + 1:], "why": "byte"}
    elif kind == "degenerate":
        x = shard[2]
        y = bytes(v ^ 0x5A for v in x)
        for mask in range(256):        # every pattern of parity bits that distinguishes the two equal halves
            x2 = bytes(v ^ ((mask >> i) & 1) for i, v in enumerate(x))
            for why, k in (("k1=k2/16", x + x2), ("k1=k2/24", x + x2 + y), ("k2=k3/24", y + x + x2),
                           ("k1=k2=k3", x + x2 + x), ("k1=k3/24", x + y + x2)):
                yield {"part": "des3key", "c": "DES3", "key": k, "why": why}
        for bit in range(64):          # one bit away from degenerate: refused iff it is a parity bit
            x2 = (int.from_bytes(x, "big") ^ (1 << bit)).to_bytes(8, "big")
            for why, k in (("near/16", x + x2), ("near/24a", x + x2 + y), ("near/24b", y + x + x2)):
                yield {"part": "des3key", "c": "DES3", "key": k, "why": why + ("p" if bit % 8 == 0 else "")}


# ---------------------------------------------------------------------------
# part "crafted": nonces solved for so that the internal CTR counter wraps inside the message
# ---------------------------------------------------------------------------
def _gf_inv(x):
    # x^(2^128 - 2) in GF(2^128), square-and-multiply with the bit-by-bit product of the reference
    r, e, b = 1 << 127, (1 << 128) - 2, x          # 1<<127 is the field's one (leftmost bit = x^0)
    while e:
        if e & 1:
            r = M.gf128_mul(r, b)
        b = M.gf128_mul(b, b)
        e >>= 1
    return r


GCM_LOW = (0xFFFFFFFF, 0xFFFFFFFE, 0xFFFFFFFD, 0xFFFFFFF7, 0xFFFFFFF6, 0x7FFFFFFF, 0xFFFF)
GCM_LOW_DEEP = GCM_LOW + (0xFFFFFFF8, 0xFFFFFFEF, 0xFFFFFFEE, 0xFFFFFEFF, 0xFFFEFFFF, 0xFEFFFFFF, 0x00FFFFFF, 0xFFFFFF00)


def crafted_cases(c, klen, vc, seed, quick=True):
    """GCM: 16-byte nonce with J0 = target (low 32 bits close to 2^32: inc32 must wrap without touching
    the upper 96 bits);  EAX: one-block nonce with OMAC^0(nonce) = target (counter close to 2^(8*bs))"""
    key = key_for(c, klen, vc, seed)
    R = ref_cipher(c, key)
    bs = BS[c]
    out = []
    if c == "AES":
        h = int.from_bytes(R.encrypt_block(bytes(16)), "big")
        if h:
            hi = _gf_inv(h)
            up = int.from_bytes(val(vc, "j0", 12, seed), "big") << 32
            for low in (GCM_LOW if quick else GCM_LOW_DEEP):
                j0 = up | low
                n = M.gf128_mul(M.gf128_mul(j0, hi) ^ 128, hi)
                nonce = n.to_bytes(16, "big")
                if M.gcm_j0(R, nonce) != j0.to_bytes(16, "big"):
                    raise AssertionError("crafted GCM nonce does not hit the target J0")
                for L in ((0, 1, 16, 17, 32, 33, 129, 16 * 17 + 1) if quick else
                          (0, 1, 15, 16, 17, 31, 32, 33, 127, 128, 129, 16 * 17 + 1, 16 * 32 + 1)):
                    for a in ((5,) if quick else (0, 5, 16)):
                        out.append({"part": "aead", "c": c, "klen": klen, "vc": vc, "seed": seed, "mode": "GCM", "nl": 16,
                                    "tl": 16, "aad": a, "L": L, "nonce": nonce})
    top = 1 << (8 * bs)
    Lb = int.from_bytes(R.encrypt_block(bytes(bs)), "big")
    k1 = M._dbl(Lb, bs)
    for delta in ((1, 2, 3, 8, 9, 10) if quick else (1, 2, 3, 7, 8, 9, 10, 16, 17, 18, 257)):
        target = (top - delta).to_bytes(bs, "big")
        nonce = (int.from_bytes(R.decrypt_block(target), "big") ^ Lb ^ k1).to_bytes(bs, "big")
        if M.cmac(R, bytes(bs) + nonce) != target:
            raise AssertionError("crafted EAX nonce does not hit the target counter")
        for L in ((0, 1, bs, bs + 1, 2 * bs + 1, 8 * bs + 1, 17 * bs + 1) if quick else
                  (0, 1, bs - 1, bs, bs + 1, 2 * bs, 2 * bs + 1, 8 * bs - 1, 8 * bs, 8 * bs + 1, 9 * bs + 1, 10 * bs + 1,
                   16 * bs + 1, 17 * bs + 1, 18 * bs + 1, 32 * bs + 1)):
            for a in ((3,) if quick else (0, 3, bs)):
                out.append({"part": "aead", "c": c, "klen": klen, "vc": vc, "seed": seed, "mode": "EAX", "nl": bs,
                            "tl": bs, "aad": a, "L": L, "nonce": nonce})
    return out


# ---------------------------------------------------------------------------
# shard plan
# ---------------------------------------------------------------------------
RC2_EFF = tuple(sorted(set(range(40, 1025, 8)) | {41, 47, 57, 63, 65, 127, 129, 1017, 1023}))
RC2_EFF_ALL = tuple(range(40, 1025))          # thorough: every legal effective key length
BIG = (1023, 1024, 1025, 4095, 4096, 4097, 65537)
# thorough: 2^k-1, 2^k, 2^k+1 for k = 9..16 (a superset of BIG), and for a few configurations 2^17 and 2^20 (+-1)
BIG_DEEP = tuple(v for k in range(9, 17) for v in ((1 << k) - 1, 1 << k, (1 << k) + 1))
BIG_HUGE = ((1 << 17) - 1, 1 << 17, (1 << 17) + 1, (1 << 20) - 1, 1 << 20, (1 << 20) + 1)


def classic_keys(quick):
    """(cipher, key length, effective_keylen) configurations for which every CTR layout is enumerated"""
    out = [("AES", k, None) for k in (16, 24, 32)] + [("DES", 8, None), ("DES3", 16, None), ("DES3", 24, None)]
    out += [("Blowfish", k, None) for k in (4, 16, 56)] + [("CAST", k, None) for k in (5, 10, 11, 16)]
    out += [("ARC2", 5, None), ("ARC2", 16, None), ("ARC2", 128, None), ("ARC2", 8, 64), ("ARC2", 16, 40), ("ARC2", 16, 129)]
    out += [("AES", 16, "noaesni"), ("AES", 32, "noaesni")]
    return out


def gcm_nonce_lens(quick):
    return GCM_NL if quick else tuple(range(1, 34)) + (47, 48, 49, 63, 64, 65, 127, 128, 129, 255, 256, 257, 1025)


def eax_nonce_lens(quick, bs):
    if bs == 8:
        return (1, 8, 9) if quick else (1, 2, 7, 8, 9, 15, 16, 17, 24, 25)
    return (1, 8, 16, 17) if quick else (1, 2, 8, 12, 15, 16, 17, 24, 31, 32, 33, 47, 48, 49, 64, 65)


def siv_nonce_lens(quick):
    return (None, 1, 12, 16) if quick else (None, 1, 2, 8, 12, 15, 16, 17, 24, 31, 32, 33, 64, 65)


def big_configs():
    """thorough tier, multi-kilobyte part: (prefix-closed configurations, per-length configurations)"""
    pc = []                                                   # one reference run at the largest length, every length checked
    for (c, klen) in (("AES", 16), ("AES", 24), ("AES", 32), ("DES", 8), ("DES3", 16), ("DES3", 24), ("Blowfish", 16),
                      ("CAST", 16), ("ARC2", 16)):
        for m in ("ECB", "CBC", "CFB", "CFBmid", "CFB128", "OFB", "CTR", "CTRle", "OPENPGP"):
            pc.append(("classic", c, klen, m))
    for (c, klen) in (("AES", 16), ("DES3", 24)):
        for seg in range(8, 8 * BS[c] + 1, 8):
            if seg not in (8, 4 * BS[c], 8 * BS[c]):
                pc.append(("classic", c, klen, "CFBs%d" % seg))
    pc += [("stream", "ChaCha20", 32, 8), ("stream", "ChaCha20", 32, 12), ("stream", "ChaCha20", 32, 24),
           ("stream", "Salsa20", 32, None), ("stream", "Salsa20", 16, None), ("stream", "ARC4", 16, None),
           ("stream", "ARC4", 5, None), ("stream", "ARC4", 256, None)]
    pl = []                                                   # tag / wrapping depend on the whole input: one run per length
    for klen in (16, 24, 32):
        pl += [("aead", "AES", klen, m) for m in ("GCM", "CCM", "EAX", "OCB")] + [("aead", "AES", 2 * klen, "SIV")]
        pl += [("kw", "AES", klen, "KW"), ("kw", "AES", klen, "KWP")]
    pl += [("aead", "ChaCha20", 32, "CHAPOLY"), ("aead", "ChaCha20", 32, "CHAPOLY24"), ("aead", "DES3", 24, "EAX"),
           ("aead", "Blowfish", 16, "EAX")]
    return pc, pl


def plan(quick, seed):
    """-> list of (weight, shard); every shard is a small tuple expanded inside the worker by cases_of()"""
    S = []
    vcs = ("asc", "seed") if quick else VCLS
    # ---- block primitives: every legal key length of every cipher (RC2: x effective_keylen grid)
    for c in ("AES", "DES", "DES3", "Blowfish", "CAST"):
        for klen in KEYLENS[c]:
            S.append((2 if c == "Blowfish" else 1, ("block", c, klen, None, VCLS)))
    for klen in KEYLENS["ARC2"]:
        if quick:
            S.append((6, ("block", "ARC2", klen, "grid", vcs)))
        else:
            for vc in vcs:
                S.append((8, ("block", "ARC2", klen, "gridall", (vc,))))
    S.append((1, ("kat",)))
    # ---- classic modes
    # (a) ECB/CBC/CFB-all-segments/OFB/OpenPGP for EVERY legal key length of every cipher
    for c in BS:
        for klen in KEYLENS[c]:
            for vc in (("seed",) if quick else VCLS):
                S.append((6 if BS[c] == 16 else 2, ("classic", c, klen, None, vc, "basic", "all" if quick else "deep")))
    for (c, klen, eff) in classic_keys(quick):
        for vc in vcs:
            if eff is not None:
                S.append((2, ("classic", c, klen, eff, vc, "basic", "all" if quick else "deep")))
            # (b) CTR with nonce= / initial_value=
            S.append((12 if BS[c] == 16 else 3, ("classic", c, klen, eff, vc, "ctrn", "all")) if quick else
                     (55 if BS[c] == 16 else 21, ("classic", c, klen, eff, vc, "ctrnd", "deep")))
            # (c) CTR with Counter.new layouts
            if not quick:          # 8 initial values per layout, every length 0..16 blocks+1; shards split
                for g in ("ctrd0", "ctrd1"):
                    n = 4 if BS[c] == 16 else 2
                    for i in range(n):
                        S.append((35 if BS[c] == 16 else 15, ("classic", c, klen, eff, vc, "%s/%d/%d" % (g, i, n), "deep")))
                continue
            full = ((c, klen) in (("AES", 16), ("DES3", 24)) and vc == "seed")
            for g in ("ctrc0", "ctrc1"):
                S.append(((50 if BS[c] == 16 else 8) if full else 4, ("classic", c, klen, eff, vc, g, "all" if full else "few")))
    # ---- AEAD grid
    for klen in (16, 24, 32):
        avcs = VCLS if not quick else (("seed", "zero") if klen == 16 else ("seed",))
        for vc in avcs:
            for nl in gcm_nonce_lens(quick):
                S.append((10, ("aead", "GCM", "AES", klen, nl, vc)))
            for nl in range(7, 14):
                S.append((14, ("aead", "CCM", "AES", klen, nl, vc)))
            for nl in eax_nonce_lens(quick, 16):
                S.append((22, ("aead", "EAX", "AES", klen, nl, vc)))
            for nl in range(1, 16):
                S.append((8, ("aead", "OCB", "AES", klen, nl, vc)))
            for nl in siv_nonce_lens(quick):
                S.append((3 if quick else 14, ("aead", "SIV", "AES", 2 * klen, nl, vc)))
    for vc in (("seed", "zero") if quick else VCLS):
        for nl in (8, 12, 24):
            S.append((2, ("aead", "CHAPOLY", "ChaCha20", 32, nl, vc)))
        eax8 = [("DES3", 16, None), ("DES3", 24, None), ("DES", 8, None), ("Blowfish", 16, None), ("CAST", 16, None),
                ("ARC2", 16, None)]
        if not quick:              # every (cipher, key length, effective_keylen) that gets the full CTR treatment
            eax8 = [k for k in classic_keys(quick) if BS[k[0]] == 8]
        for (c, klen, eff) in eax8:
            if quick and vc != "seed" and c != "DES3":
                continue
            for nl in eax_nonce_lens(quick, 8):
                S.append((8 if c == "DES3" else 4, ("aead", "EAX", c, klen, nl, vc) + (() if eff is None else (eff,))))
    # ---- AEAD every message length
    for vc in (("seed",) if quick else VCLS):
        for klen in ((16,) if quick else (16, 24, 32)):
            for mode in ("GCM", "CCM", "EAX", "OCB", "SIV"):
                S.append((12 if quick else (60 if mode == "SIV" else 45),
                          ("aeadlen", mode, "AES", 2 * klen if mode == "SIV" else klen, vc)))
        S.append((8 if quick else 40, ("aeadlen", "CHAPOLY", "ChaCha20", 32, vc)))
        S.append((8 if quick else 90, ("aeadlen", "EAX", "DES3", 24, vc)))
        if not quick:
            for (c, klen) in (("DES3", 16), ("DES", 8), ("Blowfish", 16), ("CAST", 16), ("ARC2", 16)):
                S.append((90 if c == "DES3" else 50, ("aeadlen", "EAX", c, klen, vc)))
    # ---- OCB: all 256 values of the last nonce byte; CCM AAD header boundary; SIV component count; counter wraps
    for vc in (("seed",) if quick else VCLS):
        for klen in ((16,) if quick else (16, 24, 32)):
            for nl in ((1, 12, 15) if quick else range(1, 16)):
                S.append((6, ("ocb256", klen, nl, vc)))
        if quick:
            S.append((12, ("ccmhdr", 16, vc)))
            S.append((6, ("sivmany", 32, vc)))
        else:
            for klen in (16, 24, 32):
                for v in CCM_VARIANTS:
                    S.append((17, ("ccmhdr", klen, vc, v)))
                S.append((24, ("sivmany", 2 * klen, vc)))
        crk = (("AES", 16), ("AES", 32), ("DES3", 24), ("Blowfish", 16))
        if not quick:
            crk += (("AES", 24), ("DES3", 16), ("DES", 8), ("CAST", 16), ("ARC2", 16))
        for (c, klen) in crk:
            S.append((4, ("crafted", c, klen, vc)))
    # ---- stream ciphers
    for vc in vcs:
        for klen in range(1, 257):
            S.append((1, ("rc4", klen, vc)))
        for klen in (16, 32):
            S.append((3, ("salsa", klen, vc)))
        for nl in (8, 12, 24):
            S.append((4, ("chacha", nl, vc)))
    # ---- key wrap
    for klen in (16, 24, 32):
        for vc in vcs:
            if quick:
                S.append((8, ("kw", klen, vc)))
            else:
                for i in range(16):
                    S.append((20, ("kw", klen, vc, i, 16)))
    # ---- library-chosen IV / nonce
    for vc in VCLS:
        S.append((3, ("auto", vc)))
    # ---- DES3 key handling
    for klen in (16, 24):
        for pos in range(klen):
            S.append((2, ("des3key", "bytes", klen, pos) + (() if quick else ("deep",))))
    S.append((3, ("des3key", "degenerate", asc(8, 0x20))))
    S.append((3, ("des3key", "degenerate", seeded("c02/degen", 8, seed))))
    if not quick:
        S.append((3, ("des3key", "degenerate", bytes(8))))
        S.append((3, ("des3key", "degenerate", b"\xff" * 8)))
        S.append((3, ("des3key", "degenerate", asc(8, 0xF9))))
        S.append((3, ("des3key", "degenerate", seeded("c02/degen2", 8, seed))))
    # ---- multi-kilobyte messages
    if quick:
        bigs = [("classic", "AES", 16, "CBC"), ("classic", "AES", 16, "CTR"), ("classic", "AES", 16, "CFB"),
                ("aead", "AES", 16, "GCM"), ("aead", "AES", 16, "CCM"), ("aead", "AES", 16, "EAX"),
                ("aead", "AES", 16, "OCB"), ("aead", "AES", 32, "SIV"),
                ("aead", "ChaCha20", 32, "CHAPOLY"), ("stream", "ChaCha20", 32, None), ("stream", "Salsa20", 32, None),
                ("stream", "ARC4", 16, None)]
        Ls = (1023, 1024, 1025, 4095, 4096, 4097)
    else:
        bigs, Ls = [], ()
        pc, pl = big_configs()
        for b in pc:
            for vc in VCLS:
                huge = vc == "seed" and b[1:3] in (("AES", 16), ("ChaCha20", 32), ("Salsa20", 32), ("ARC4", 16)) \
                    and (str(b[3])[:3] != "CFB" or b[3] == "CFB128")
                S.append(((60 if huge else 25) + (40 if str(b[3])[:3] == "CFB" else 0), ("bigp",) + b + (vc, huge)))
        for b in pl:
            ls = BIG_DEEP
            if b[3] == "KW":                                  # multiples of 8 only: the two nearest of each size
                ls = sorted(set(v for L in BIG_DEEP for v in (L // 8 * 8, -(-L // 8) * 8)))
            for vc in (VCLS if b[0] == "aead" else ("seed", "ones")):
                for L in ls:
                    S.append(((4 + L // 3000) * (4 if b[0] == "kw" or b[1] != "AES" else 1), ("big",) + b + (L, vc)))
            if b[0] == "aead" and b[1:3] in (("AES", 16), ("AES", 64), ("ChaCha20", 32)) and b[3] != "CHAPOLY24":
                for L in BIG_HUGE:
                    S.append((4 + L // 3000, ("big",) + b + (L, "seed")))
    for b in bigs:
        bs = BS.get(b[1], 1)
        ls = Ls
        if b[0] == "classic" and b[3] in ("ECB", "CBC"):      # block multiples only: the two nearest of each size
            ls = sorted(set(v for L in Ls for v in (L // bs * bs, -(-L // bs) * bs)))
        elif b[3] == "KW":
            ls = sorted(set(v for L in Ls for v in (L // 8 * 8, -(-L // 8) * 8)))
        for L in ls:
            for vc in (("seed",) if quick else ("seed", "ones")):
                S.append((4 + L // 4000, ("big",) + b + (L, vc)))
    if not quick:
        for vc in VCLS:           # the longest message a 13-byte CCM nonce allows, and one byte less
            S.append((30, ("big", "aead", "AES", 16, "CCM13", 65535, vc)))
            S.append((30, ("big", "aead", "AES", 32, "CCM13", 65534, vc)))
    return S


def cases_of(shard, quick, seed):
    """expand a shard into (checker name, cfg[, lengths]) tuples"""
    kind = shard[0]
    if kind == "block":
        _, c, klen, eff, vcs = shard
        for vc in vcs:
            effs = RC2_EFF if eff == "grid" else (RC2_EFF_ALL if eff == "gridall" else (None,))
            for e in effs:
                yield ("block", {"part": "block", "c": c, "klen": klen, "eff": e, "vc": vc, "seed": seed})
            if c == "AES":
                yield ("block", {"part": "block", "c": c, "klen": klen, "eff": None, "vc": vc, "seed": seed, "aesni": False})
    elif kind == "kat":
        for i in range(len(CAST_KAT)):
            yield ("kat", {"part": "kat", "c": "CAST", "i": i})
        for i, v in enumerate(R_rc2.RFC2268_VECTORS):
            if len(v[0]) // 2 >= 5 and v[1] >= 40:
                yield ("kat", {"part": "kat", "c": "ARC2", "i": i})
    elif kind == "classic":
        _, c, klen, eff, vc, group, lsel = shard
        ls = {"all": lens_all, "deep": lens_deep, "few": lens_few}[lsel](BS[c])
        for cfg in classic_cfgs(c, klen, eff, vc, seed, group):
            yield ("classic", cfg, ls)
        if group in ("ctrn", "ctrnd"):
            # a one-byte counter used for its full cycle of 256 blocks (wrapping through zero): legal, nothing repeats
            bs = BS[c]
            base = {"part": "classic", "c": c, "klen": klen, "eff": eff, "vc": vc, "seed": seed, "mode": "CTR"}
            full = [255 * bs, 256 * bs - 1, 256 * bs]
            yield ("classic", dict(base, ctr={"kind": "nonce", "nl": bs - 1, "iv": 0x80}), full)
            yield ("classic", dict(base, ctr={"kind": "counter", "p": 3, "cl": 1, "s": bs - 4, "le": True, "iv": 0xF9}), full)
    elif kind == "aead":
        _, mode, c, klen, nl, vc = shard[:6]
        for cfg in aead_grid(mode, c, klen, nl, vc, seed, quick, shard[6] if len(shard) > 6 else None):
            yield ("aead", cfg)
    elif kind == "aeadlen":
        _, mode, c, klen, vc = shard
        for cfg in aead_alllen(mode, c, klen, vc, seed, quick):
            yield ("aead", cfg)
    elif kind == "ocb256":
        _, klen, nl, vc = shard
        for last in range(256):
            for tl in (16, 12):
                for (a, L) in ((0, 33), (17, 16)):
                    yield ("aead", {"part": "aead", "c": "AES", "klen": klen, "vc": vc, "seed": seed, "mode": "OCB",
                                    "nl": nl, "tl": tl, "aad": a, "L": L, "last": last})
    elif kind == "ccmhdr":
        klen, vc = shard[1], shard[2]
        deep = len(shard) > 3          # thorough: one shard per declaration variant, 7 AAD lengths
        for a in ((0xFEFE, 0xFEFF, 0xFF00, 0xFF01, 0xFFFF, 0x10000, 0x10001) if deep else (0xFEFF, 0xFF00, 0xFF01, 0x10000)):
            for v in ((shard[3],) if deep else ("auto", "declared")):
                for (nl, tl, L) in ((11, 16, 17), (13, 4, 0)):
                    yield ("aead", {"part": "aead", "c": "AES", "klen": klen, "vc": vc, "seed": seed, "mode": "CCM",
                                    "nl": nl, "tl": tl, "aad": a, "L": L, "ccm": v})
    elif kind == "sivmany":
        _, klen, vc = shard
        counts = ((126, None), (125, 16), (64, 12), (8, None))
        if not quick:                  # EVERY legal number of AD components, without and with a nonce
            counts = tuple((n, None) for n in range(127)) + tuple((n, 16) for n in range(126)) + ((64, 12),)
        for (n, nl) in counts:
            yield ("aead", {"part": "aead", "c": "AES", "klen": klen, "vc": vc, "seed": seed, "mode": "SIV",
                            "nl": nl, "tl": 16, "aad": [(i * 7) % 35 for i in range(n)], "L": 17})
    elif kind == "crafted":
        _, c, klen, vc = shard
        for cfg in crafted_cases(c, klen, vc, seed, quick):
            yield ("aead", cfg)
    elif kind == "rc4":
        _, klen, vc = shard
        drops = (None, 0, 1, 255, 256, 257, 768, 3072)
        if quick and klen not in (1, 5, 16, 40, 128, 255, 256):
            drops = (None, 3072)
        for drop in drops:
            ls = list(range(0, 66)) + [255, 256, 257, 511, 512, 513]
            if not quick:
                ls = list(range(0, 258)) + [511, 512, 513, 1023, 1024, 1025]
            yield ("stream", {"part": "stream", "c": "ARC4", "klen": klen, "vc": vc, "seed": seed, "drop": drop}, ls)
    elif kind == "salsa":
        _, klen, vc = shard
        yield ("stream", {"part": "stream", "c": "Salsa20", "klen": klen, "vc": vc, "seed": seed},
               lens_all(64) if quick else lens_deep(64))
    elif kind == "chacha":
        _, nl, vc = shard
        yield ("stream", {"part": "stream", "c": "ChaCha20", "klen": 32, "vc": vc, "seed": seed, "nl": nl},
               lens_all(64) if quick else lens_deep(64))
        seeks = (0, 1, 63, 64, 65, 127, 128, 64 * 255 + 63, 64 * 256, 64 * 65536 + 1, 64 * (2 ** 32 - 11) + 5)
        slens = [0, 1, 63, 64, 65, 129, 513]
        if not quick:
            seeks += (2, 31, 32, 62, 66, 191, 192, 193, 64 * 15 + 63, 64 * 16, 64 * 65535 + 63, 64 * 65536,
                      64 * (2 ** 24 - 1) + 63, 64 * 2 ** 24, 64 * (2 ** 31 - 1) + 63, 64 * 2 ** 31 + 33, 64 * (2 ** 32 - 20))
            slens = [0, 1, 2, 63, 64, 65, 127, 128, 129, 255, 256, 257, 513]
        for pos in seeks:
            yield ("stream", {"part": "stream", "c": "ChaCha20", "klen": 32, "vc": vc, "seed": seed, "nl": nl,
                              "seek": pos}, slens)
        # two seeks on one object: every ordered pair of positions on both sides of the word boundaries of the counter
        two = [5, 64 * 255 + 63, 64 * (2 ** 32 - 11) + 5] + ([64 * 2 ** 32, 64 * (2 ** 32 + 1) + 1, 64 * (2 ** 40 - 1) + 63,
                                                            64 * (2 ** 63 + 7)] if nl == 8 else [])
        tlens = [1, 65, 130]
        if not quick:
            two = [0, 64] + two[:1] + [64 * 256, 64 * 65536 + 1] + two[1:] + ([64 * (2 ** 32 - 1) + 60] if nl == 8 else [])
            tlens = [0, 1, 64, 65, 130, 257]
        for pre in two:
            for pos in two:
                if pre != pos:
                    yield ("stream", {"part": "stream", "c": "ChaCha20", "klen": 32, "vc": vc, "seed": seed, "nl": nl,
                                      "pre": pre, "seek": pos}, tlens)
        if not quick:
            # three seeks on one object: every sequence of 3 positions (adjacent ones distinct) over the quick alphabet
            three = [5, 64 * 255 + 63, 64 * (2 ** 32 - 11) + 5] + ([64 * 2 ** 32, 64 * (2 ** 40 - 1) + 63] if nl == 8 else [64])
            for p1 in three:
                for p2 in three:
                    for pos in three:
                        if p1 != p2 and p2 != pos:
                            yield ("stream", {"part": "stream", "c": "ChaCha20", "klen": 32, "vc": vc, "seed": seed,
                                              "nl": nl, "pre": [p1, p2], "seek": pos}, [1, 65, 130])
        if nl == 8:      # 64-bit block counter: the carry out of the low counter word happens inside the message
            for pos in (64 * (2 ** 32 - 1) + 60, 64 * (2 ** 32 - 2) + 3, 64 * 2 ** 32, 64 * (2 ** 32 + 1) + 1,
                        64 * (2 ** 40 - 1) + 63):
                yield ("stream", {"part": "stream", "c": "ChaCha20", "klen": 32, "vc": vc, "seed": seed, "nl": nl,
                                  "seek": pos}, [0, 1, 5, 64, 65, 130, 513])
        else:            # 32-bit block counter: everything up to and including block 2^32-1 is legal (RFC 8439)
            yield ("stream", {"part": "stream", "c": "ChaCha20", "klen": 32, "vc": vc, "seed": seed, "nl": nl,
                              "seek": 64 * (2 ** 32 - 2) + 3}, [0, 1, 61])
            yield ("stream", {"part": "stream", "c": "ChaCha20", "klen": 32, "vc": vc, "seed": seed, "nl": nl,
                              "seek": 64 * (2 ** 32 - 2) + 3, "lastblock": True}, [62, 125])
            yield ("stream", {"part": "stream", "c": "ChaCha20", "klen": 32, "vc": vc, "seed": seed, "nl": nl,
                              "seek": 64 * (2 ** 32 - 1), "lastblock": True}, [1, 64])
    elif kind == "kw":
        klen, vc = shard[1], shard[2]
        kwl = list(range(16, 8 * 46 + 1, 8)) + [512, 1024]
        kwpl = list(range(1, 42)) + [63, 64, 65, 255, 256, 257, 343, 344, 345, 1025]
        if not quick:      # every legal KW payload up to 2048 bytes, every KWP payload up to 520 bytes
            kwl = list(range(16, 2049, 8)) + [4088, 4096, 4104]
            kwpl = list(range(1, 521)) + [1023, 1024, 1025, 2047, 2048, 2049, 4095, 4096, 4097]
        todo = [("KW", L) for L in kwl] + [("KWP", L) for L in kwpl]
        if len(shard) > 3:             # thorough: the same list dealt out over shard[4] shards
            todo.sort(key=lambda t: -t[1])
            todo = todo[shard[3]::shard[4]]
        for (m, L) in todo:
            yield ("kw", {"part": "kw", "c": "AES", "mode": m, "klen": klen, "vc": vc, "seed": seed, "L": L})
    elif kind == "auto":
        _, vc = shard
        akeys = [("AES", 16, None), ("AES", 32, None), ("DES", 8, None), ("DES3", 24, None),
                 ("Blowfish", 16, None), ("CAST", 16, None), ("ARC2", 16, 64)]
        if not quick:      # every (cipher, key length, variant) of the CTR key list, 8 message lengths, 3 AAD lengths
            akeys += [k for k in classic_keys(quick) if k not in akeys]
        for (c, klen, eff) in akeys:
            modes = ["CBC", "CFB", "OFB", "OPENPGP", "EAX"]
            if c == "AES":
                modes += ["CTR", "GCM", "CCM", "OCB"]
            for mode in modes:
                bs = BS[c]
                done = set()
                for L in ((0, 1, bs, 3 * bs + 1) if quick else (0, 1, bs - 1, bs, bs + 1, 2 * bs, 3 * bs + 1, 8 * bs + 1)):
                    if mode == "CBC" and L % BS[c]:
                        L += BS[c] - L % BS[c]
                    for a in ((5,) if quick or mode not in ("EAX", "GCM", "CCM", "OCB") else (0, 5, 17)):
                        if quick or (L, a) not in done:
                            done.add((L, a))
                            yield ("auto", {"part": "auto", "c": c, "klen": klen, "eff": eff, "mode": mode, "vc": vc,
                                            "seed": seed, "L": L, "aad": a})
        for L in ((0, 1, 64, 129) if quick else (0, 1, 63, 64, 65, 128, 129, 513)):
            yield ("auto", {"part": "auto", "c": "ChaCha20", "klen": 32, "mode": "stream", "vc": vc, "seed": seed, "L": L})
            yield ("auto", {"part": "auto", "c": "Salsa20", "klen": 32, "mode": "stream", "vc": vc, "seed": seed, "L": L})
            yield ("auto", {"part": "auto", "c": "Salsa20", "klen": 16, "mode": "stream", "vc": vc, "seed": seed, "L": L})
            yield ("auto", {"part": "auto", "c": "ChaCha20", "klen": 32, "mode": "CHAPOLY", "vc": vc, "seed": seed,
                            "L": L, "aad": 5})
    elif kind == "des3key":
        for cfg in des3key_cases(shard, seed):
            yield ("des3key", cfg)
    elif kind == "bigp":
        # thorough: one prefix-closed configuration, EVERY length of BIG_DEEP (+ BIG_HUGE) against one reference run
        _, part, c, klen, mode, vc, huge = shard
        ls = list(BIG_DEEP) + (list(BIG_HUGE) if huge else [])
        if part == "classic":
            bs = BS[c]
            cfg = {"part": "classic", "c": c, "klen": klen, "eff": None, "vc": vc, "seed": seed, "mode": mode}
            if mode[:3] == "CFB":
                cfg.update(mode="CFB", seg=int(mode[4:]) if mode[:4] == "CFBs" else
                           {"CFB": 8, "CFBmid": 4 * bs, "CFB128": 8 * bs}[mode])
            elif mode == "CTR":
                cfg["ctr"] = {"kind": "nonce", "nl": bs // 2, "iv": 0xF1}
            elif mode == "CTRle":      # little-endian counter in the middle of the block, carries out of 3 bytes inside
                cfg.update(mode="CTR", ctr={"kind": "counter", "p": 1, "cl": bs // 2 + 1, "s": bs - 2 - bs // 2, "le": True,
                                            "iv": 0xFFFFF1})
            elif mode in ("ECB", "CBC"):   # block multiples only: the two nearest of each size
                ls = sorted(set(v for L in ls for v in (L // bs * bs, -(-L // bs) * bs)))
            yield ("classic", cfg, ls)
        else:
            cfg = {"part": "stream", "c": c, "klen": klen, "vc": vc, "seed": seed}
            if c == "ChaCha20":
                cfg["nl"] = mode
            yield ("stream", cfg, ls)
    elif kind == "big":
        _, part, c, klen, mode, L, vc = shard
        if part == "classic":
            cfg = {"part": "classic", "c": c, "klen": klen, "eff": None, "vc": vc, "seed": seed, "mode": mode}
            if mode == "CFB":
                cfg["seg"] = 8
            elif mode == "CFB128":
                cfg.update(mode="CFB", seg=8 * BS[c])
            elif mode == "CTR":
                cfg["ctr"] = {"kind": "nonce", "nl": BS[c] // 2, "iv": 0xF1}
            yield ("classic", dict(cfg, L=L), None)
        elif part == "aead":
            if mode == "CCM13":
                yield ("aead", {"part": "aead", "c": c, "klen": klen, "vc": vc, "seed": seed, "mode": "CCM", "nl": 13,
                                "tl": 8, "aad": 17, "L": L, "ccm": "auto"})
                return
            nl = {"GCM": 12, "CCM": 11, "EAX": BS.get(c, 16), "OCB": 15, "SIV": 16, "CHAPOLY": 12, "CHAPOLY24": 24}[mode]
            if mode == "CHAPOLY24":
                mode = "CHAPOLY"
            cfg = {"part": "aead", "c": c, "klen": klen, "vc": vc, "seed": seed, "mode": mode, "nl": nl,
                   "tl": BS.get(c, 16), "aad": [33] if mode == "SIV" else 33, "L": L}
            if mode == "CCM":
                cfg["ccm"] = "declared"
            yield ("aead", cfg)
            if mode == "GCM":
                yield ("aead", dict(cfg, nl=16, aad=L, L=17))
            elif not quick:            # thorough: associated data of that size for every AEAD mode
                if mode == "CCM":
                    cfg["ccm"] = "auto"
                yield ("aead", dict(cfg, aad=[L] if mode == "SIV" else L, L=17))
        elif part == "stream":
            cfg = {"part": "stream", "c": c, "klen": klen, "vc": vc, "seed": seed, "L": L}
            if c == "ChaCha20":
                cfg["nl"] = 12
            yield ("stream", cfg, None)
        elif part == "kw":
            yield ("kw", {"part": "kw", "c": "AES", "mode": mode, "klen": klen, "vc": vc, "seed": seed, "L": L})
    else:
        raise KeyError(kind)


CHECKERS = {"block": check_block, "kat": check_kat, "classic": check_classic, "aead": check_aead,
            "stream": check_stream, "kw": check_kw, "auto": check_auto, "des3key": check_des3key}


def run_case(t, acc):
    fn = CHECKERS[t[0]]
    if len(t) == 3:
        fn(t[1], acc, t[2])
    else:
        fn(t[1], acc)


# the shards whose first case is copied into the evidence file as a sample (one each, so the samples are diverse)
SAMPLE_SHARDS = (("classic", "AES", 16, None, "seed", "basic", "all"), ("aead", "GCM", "AES", 16, 13, "seed"),
                 ("aead", "CHAPOLY", "ChaCha20", 32, 24, "seed"), ("kw", 16, "seed"), ("chacha", 24, "seed"),
                 ("aead", "OCB", "AES", 16, 15, "seed"))


def worker(arg):
    global _REF_MEMO
    shard, quick, seed = arg
    _REF_MEMO = None if quick else {}
    acc = Acc()
    acc.MAX_SAMPLES = 1 if shard in SAMPLE_SHARDS else 0
    t0 = time.time()
    for t in cases_of(shard, quick, seed):
        run_case(t, acc)
    acc.n["_cpu_" + shard[0]] = acc.n.get("_cpu_" + shard[0], 0) + (time.time() - t0)
    return acc


# ---------------------------------------------------------------------------
def canaries(acc):
    """the comparison machinery must be able to fail: deliberately wrong expectations have to differ"""
    from Crypto.Cipher import AES
    key, pt = asc(16, 1), asc(40, 9)
    R = ref_cipher("AES", key)
    n13 = asc(13, 3)
    ct, tag = AES.new(key, AES.MODE_GCM, nonce=n13).encrypt_and_digest(pt)
    wrong = M.gcm_encrypt(R, n13[:12], b"", pt)           # what a "96-bit fast path for 13 bytes" bug would give
    right = M.gcm_encrypt(R, n13, b"", pt)
    if (ct, tag) == wrong or (ct, tag) != right:
        acc.error("canary: GCM 13-byte nonce comparison is not discriminating")
    if AES.new(key, AES.MODE_CFB, iv=bytes(16), segment_size=16).encrypt(pt) == M.cfb_encrypt(R, bytes(16), pt, 8):
        acc.error("canary: CFB segment size does not influence the reference")
    from Crypto.Cipher import ChaCha20
    x = ChaCha20.new(key=asc(32), nonce=asc(24, 7))
    if x.nonce != asc(24, 7) or x.encrypt(pt) != _xor(pt, R_cc.chacha20_stream(asc(32), asc(24, 7), 40)) \
            or x.nonce == bytes(4) + asc(8, 23):
        acc.error("canary: XChaCha20 nonce attribute / keystream comparison is not discriminating")
    a, b = M.ocb_encrypt(R, asc(12, 0), b"", pt)[0], M.ocb_encrypt(R, asc(11, 0) + b"\x4b", b"", pt)[0]
    if a == b:
        acc.error("canary: OCB bottom bits do not influence the reference")
    # the reference memo of aead_ref (thorough tier) relies on: shorter GCM / EAX tags are prefixes of the full tag
    R8 = ref_cipher("DES3", key_for("DES3", 24, "asc", 0))
    for (f, Rx, tls) in ((M.gcm_encrypt, R, range(4, 17)), (M.eax_encrypt, R, range(2, 17)), (M.eax_encrypt, R8, range(2, 9))):
        n_ = asc(Rx.block_size + 1, 5)
        full = f(Rx, n_, asc(3, 1), pt, Rx.block_size)
        for tl in tls:
            if f(Rx, n_, asc(3, 1), pt, tl) != (full[0], full[1][:tl]) or len(full[1]) != Rx.block_size:
                acc.error("canary: reference %s tag of %d bytes is not the prefix of the full tag" % (f.__name__, tl))


def run(ctx):
    q = ctx.quick
    t0 = time.time()
    for name, mod in (("aes", R_aes), ("des", R_des), ("blowfish", R_bf), ("rc4", R_rc4), ("chacha", R_cc),
                      ("modes", M), ("rc2", R_rc2)):
        try:
            mod.selftest()
        except Exception as e:  # noqa
            ctx.acc.error("reference model %s failed its self-test: %r" % (name, e))
            return
    try:
        M.selftest(R_aes.AES)          # the mode models over the AES model actually used
        canaries(ctx.acc)
    except Exception as e:  # noqa
        ctx.acc.error("reference self-check failed: %r" % (e,))
        return
    t_self = time.time() - t0
    shards = plan(q, ctx.seed)
    shards.sort(key=lambda ws: -ws[0])                      # heavy shards first
    ctx.pmap(worker, [(s, q, ctx.seed) for _, s in shards])
    a = ctx.acc
    n = a.n.get

    # ---- vacuity guards ----------------------------------------------------
    classes = a.distinct.get("classes", ())
    pairs, apairs, kwm, strm = set(), set(), set(), set()
    ccmv, eaxeff, ctrbytes, layouts, aead65, sivn, ocbb, rc2eff, seek2, seek3 = (set() for _ in range(10))
    for t in classes:
        k = t[0]
        if k == "classic":
            pairs.add((t[1], t[4]))
            if t[4] == "CTR" and t[1] == "AES" and t[2] == 16 and t[3] is None:
                if t[5][0] == "n" and t[5][3]:
                    ctrbytes.add(t[5][1:3])
                elif t[5][0] == "c":
                    layouts.add(t[5][1:])
        elif k == "aead":
            apairs.add((t[1], t[3]))
            sig = t[4]
            if t[3] == "CCM":
                ccmv.add(sig[3])
            elif t[3] == "EAX" and len(sig) > 6:
                eaxeff.add((t[1], t[2], sig[6]))
            elif t[3] == "SIV":
                sivn.add(len(sig[2]))
            elif t[3] == "OCB" and sig[4]:          # bottom 1..63 (bottom 0 and "last byte not forced" share a class)
                ocbb.add((sig[0], sig[4]))
            if t[5][:3] == "65+":
                aead65.add(t[3])
        elif k == "kw":
            kwm.add(t[1])
        elif k == "stream":
            strm.add(t[1])
            if t[1] == "ChaCha20" and len(t[3]) == 4:
                (seek3 if isinstance(t[3][3], tuple) else seek2).add((t[3][0], t[3][3], t[3][1]))
        elif k == "block" and t[1] == "ARC2":
            rc2eff.add(t[3])
    for c in BS:
        for m in CLASSIC_MODES:
            ctx.require((c, m) in pairs, "no case executed for %s-%s" % (c, m))
    for m in ("GCM", "CCM", "EAX", "OCB", "SIV"):
        ctx.require(("AES", m) in apairs, "no case executed for AES-%s" % m)
        ctx.require(m in aead65, "no message of more than 65 blocks for %s" % m)
    for c in BS:
        ctx.require((c, "EAX") in apairs, "EAX on %s not executed" % c)
    ctx.require(("ChaCha20", "CHAPOLY") in apairs, "ChaCha20-Poly1305 not executed")
    ctx.require(kwm == {"KW", "KWP"}, "KW/KWP not executed")
    ctx.require(strm == {"ARC4", "Salsa20", "ChaCha20"}, "a stream cipher was not executed")
    ctx.require(ccmv == set(CCM_VARIANTS), "CCM length-declaration variants seen: %r" % sorted(ccmv))
    # the new dimensions of each tier must really have been walked (numbers: what the grids must produce at least)
    ctx.require(len(ctrbytes) >= (16 if q else 181), "CTR initial_value in bytes form: only %d (nonce length, value class) pairs" % len(ctrbytes))
    ctx.require(len(layouts) >= (784 if q else 1780), "Counter.new layouts x initial values on AES-128: only %d" % len(layouts))
    ctx.require(len(ocbb) == (3 if q else 15) * 63, "OCB (nonce length, non-zero bottom) pairs: %d" % len(ocbb))
    ctx.require(len(rc2eff) == (len(RC2_EFF) if q else len(RC2_EFF_ALL)), "RC2 effective key lengths seen: %d" % len(rc2eff))
    ctx.require(len(seek2) >= (54 if q else 216), "ChaCha20 two-seek histories: %d" % len(seek2))
    if not q:
        ctx.require("CHAPOLY" in aead65, "no ChaCha20-Poly1305 message of more than 65 blocks")
        ctx.require(eaxeff == {("ARC2", 8, 64), ("ARC2", 16, 40), ("ARC2", 16, 129)}, "EAX with RC2 effective_keylen: %r" % sorted(eaxeff))
        ctx.require(sivn >= set(range(127)), "SIV: not every AD component count 0..126 was executed")
        ctx.require(len(seek3) >= 150, "ChaCha20 three-seek histories: %d" % len(seek3))
        ctx.require(n("huge_cases", 0) >= 48, "only %d cases with a message / AAD of 2^20 bytes or more" % n("huge_cases", 0))
    # planned grid sizes (measured on a complete run; the grids are seed-independent) minus a 3 % margin
    mins = {"block_cases": 32000 if q else 474000, "classic_cases": 990000 if q else 19400000,
            "aead_cases": 90000 if q else 2290000, "stream_cases": 83000 if q else 2129000,
            "kw_cases": 570 if q else 9440, "auto_cases": 730 if q else 6200, "des3key_cases": 22700 if q else 78000,
            "kat_cases": 10}
    for k, v in mins.items():
        ctx.require(n(k, 0) >= v, "%s = %d < %d: the grid was not fully executed" % (k, n(k, 0), v))
    ctx.require(n("bytes_compared", 0) > 10 ** 6, "fewer than 1 MB of output compared")
    oc = a.distinct.get("des3_outcomes", set())
    ctx.require((True, True, True) in oc and (False, False, False) in oc,
                "DES3 key grid must observe both refusal and acceptance")
    ctx.require(n("tape_calls", 0) >= n("auto_cases", 0) > 0, "entropy tape not consulted for every library-chosen IV/nonce")
    al = a.distinct.get("auto_len", set())
    ctx.require(len(al) >= 14, "library-chosen IV/nonce: fewer than 14 (mode, block size, length) classes seen: %r" % sorted(al))
    ctx.require(len(classes) >= (148000 if q else 509000), "fewer distinct shape classes than the grid must produce")
    ctx.require(n("_shards", 0) == len(shards), "not every shard reported")

    pcb, plb = big_configs()
    ctx.coverage_extra.update({
        "evaluations": n("evaluations", 0),
        "distinct_nontrivial": len(classes),
        "exhaustive": not a.caps,
        "bytes_compared": n("bytes_compared", 0),
        "cases_per_part": {k[:-6]: n(k, 0) for k in mins},
        "huge_cases": n("huge_cases", 0),
        "cpu_s_per_part": {k[5:]: round(v, 1) for k, v in a.n.items() if k.startswith("_cpu_") and len(k) > 6},
        "selftest_s": round(t_self, 1),
        "shards": len(shards),
        "grid": {
            "value_alphabet": "zero, ones, ascending, SHAKE256(seed) applied jointly to key/IV/nonce/AAD/message; "
                              + ("quick: {asc,seed} for block/classic/stream/kw, {seed,zero} AEAD on AES-128, {seed} on "
                                 "AES-192/256 and for the every-length and special grids" if q else
                                 "all 4 everywhere except multi-kilobyte KW/KWP ({seed,ones}) and the 2^17 / 2^20 lengths ({seed})"),
            "block": "ECB over 4 block values x every legal key length: AES 16/24/32 (also use_aesni=False), DES, "
                     "3DES 16/24, Blowfish 4..56 all, CAST 5..16 all (RFC 2144 vectors, inversion, key-padding rule), "
                     "RC2 key lengths 5..128 all x effective_keylen %s against the RFC 2268 model"
                     % ("{40..1024 step 8} + {41,47,57,63,65,127,129,1017,1023}" if q else "40..1024 ALL (985 values)"),
            "message_lengths": ("'all lengths' = 0..8*block+1 all + {16b-1,16b,16b+1,24b,24b+1}" if q else
                                "'all lengths' = 0..16*block+1 all + {24b-1,24b,24b+1,32b-1,32b,32b+1}"),
            "classic_basic": "for EVERY legal key length of AES, DES, 3DES, Blowfish, CAST, RC2: ECB, CBC (every block multiple), "
                             "CFB segment_size 8..8*block step 8 (all), OFB, OpenPGP x all lengths (see message_lengths)",
            "ctr_keys": ["%s-%d%s" % (c, 8 * k, "" if e is None else "/%s" % e) for c, k, e in classic_keys(q)],
            "ctr_nonce": "per ctr_key: nonce length 0..block-1 (all) x initial values {0,1,f7,f8,ff,2^w-1,2^w-8,2^w-9,2^w-17,"
                         "2^(w-8)-1,2^(w-8)-9,fff8,7fffffff} x all lengths; initial_value passed as "
                         + ("int (one value also as bytes)" if q else
                            "int AND as bytes for every value (0 also left to its default)")
                         + "; a 1-byte counter used for its full 256-block cycle",
            "ctr_counter_layouts": "Counter.new: every (prefix,counter,suffix) split of the block x big/little endian x initial "
                                   "values " + ("{0, 2^w-9, f8}; quick: all lengths for AES-128 and 3DES-192 (seed), 10 "
                                                "boundary lengths for the other ctr_keys" if q else
                                                "{0,f8,fff8,2^(w-8)-9,2^(w-8)-1,2^w-9,2^w-8,2^w-1}; all lengths for "
                                                "every ctr_key"),
            "aead": "GCM nonce lengths %s x mac_len 4..16; CCM nonce 7..13 x mac_len {4,6,..,16} x %s; "
                    "EAX nonce %s (AES) / %s (%s) x mac_len 2..block; OCB nonce "
                    "1..15 x mac_len 8..16; SIV (256/384/512-bit keys) nonce %s x %s; ChaCha20-Poly1305 nonce {8,12,24} x AAD %s "
                    "x message %s; each (other mode) x AAD {0,1,b-1,b,b+1,2b+1%s} x message {0,1,b-1,b,b+1,2b,2b+1%s}; "
                    "AES-128/192/256"
                    % (list(gcm_nonce_lens(q)),
                       "{lengths declared, not declared}" if q else "{lengths declared, not declared, only msg_len, only assoc_len}",
                       list(eax_nonce_lens(q, 16)), list(eax_nonce_lens(q, 8)),
                       "DES, 3DES-128/192, Blowfish-128, CAST-128, RC2-128" if q else
                       "every 64-bit-block ctr_key incl. the RC2 effective_keylen variants",
                       list(siv_nonce_lens(q)),
                       "8 AD vectors (0-3 components incl. an empty one)" if q else
                       "%d AD vectors: EVERY vector of 0..2 components with lengths in %s, of 3 components in %s, of 4 in %s"
                       % (len(siv_ad_vectors(q)), list(SIV_AD1), list(SIV_AD3), list(SIV_AD4)),
                       list(AAD_G if q else CHAPOLY_AAD_DEEP), list(CHAPOLY_MSG if q else CHAPOLY_MSG_DEEP),
                       "" if q else ",8b-1,8b,8b+1", "" if q else ",8b-1,8b,8b+1"),
            "aead_all_lengths": "all message lengths (see message_lengths) x AAD %s x %s nonce lengths for GCM, CCM, "
                                "EAX, OCB, SIV (AES-%s), EAX on %s, ChaCha20-Poly1305 (block 64, nonce 8/12/24); every AAD "
                                "length %s x message %s; CCM msg_len-only / assoc_len-only declarations"
                                % ("{0,17}" if q else "{0,1,17}", "two" if q else "three",
                                   "128" if q else "128/192/256", "3DES-192" if q else "DES, 3DES-128/192, Blowfish, CAST, RC2",
                                   "0..129 + {255,256,257}" if q else "0..257 + {383..385,511..513}",
                                   "{0,17}" if q else "{0,1,17}"),
            "special": "OCB all 256 last-nonce-byte values x nonce length %s x mac_len %s x AES-%s; CCM AAD lengths %s "
                       "(%s); SIV with %s; GCM 16-byte nonces solved so that J0 ends in %s (inc32 wrap / carry chains) on %s; "
                       "EAX nonces (%s) solved so that the counter starts at 2^n-%s"
                       % ("{1,12,15}" if q else "1..15 all", "{16,12}", "128" if q else "128/192/256",
                          "{0xFEFF,0xFF00,0xFF01,0x10000}" if q else "{0xFEFE,0xFEFF,0xFF00,0xFF01,0xFFFF,0x10000,0x10001}",
                          "AES-128, declared / not declared" if q else "AES-128/192/256, all 4 declaration variants",
                          "126 / 125+nonce components" if q else "EVERY component count 0..126 (no nonce) and 0..125 (+nonce), 256/384/512-bit keys",
                          ["%x" % v for v in (GCM_LOW if q else GCM_LOW_DEEP)], "AES-128/256" if q else "AES-128/192/256",
                          "AES, 3DES, Blowfish" if q else "AES-128/192/256, 3DES-128/192, DES, Blowfish, CAST, RC2",
                          "{1,2,3,8,9,10}" if q else "{1,2,3,7,8,9,10,16,17,18,257}"),
            "stream": "RC4 key length 1..256 all x drop %s x length %s; Salsa20 16/32 and ChaCha20 nonce 8/12/24 x length %s; "
                      "ChaCha20.seek at %d positions x %d lengths + around block 2^32 (8-byte nonce: carry into the high "
                      "counter word; 12/24-byte nonce: up to block 2^32-2, last block observed only); seek histories on one "
                      "object: all ordered pairs over %s positions%s"
                      % ("{none,3072} (boundary key lengths: {none,0,1,255,256,257,768,3072})" if q else "{none,0,1,255,256,257,768,3072}",
                         "0..65 all + {255..257,511..513}" if q else "0..257 all + {511..513,1023..1025}",
                         "0..513 all + {1023..1025,1536,1537}" if q else "0..1025 all + {1535..1537,2047..2049}",
                         11 if q else 28, 7 if q else 13, "3 (7 for the 8-byte nonce)" if q else "7 (12 for the 8-byte nonce)",
                         "" if q else ", all triples (adjacent distinct) over 4 (5) positions"),
            "kw": ("KW payload 16..368 step 8 all + {512,1024}; KWP payload 1..41 all + {63..65,255..257,343..345,1025}; AES 128/192/256"
                   if q else
                   "KW payload 16..2048 step 8 ALL + {4088,4096,4104}; KWP payload 1..520 ALL + {1023..1025,2047..2049,4095..4097}; AES 128/192/256"),
            "auto": "library-chosen IV/nonce via tape (4 value classes) for CBC/CFB/OFB/OpenPGP/EAX on %s, "
                    "CTR/GCM/CCM/OCB on AES, ChaCha20, Salsa20, ChaCha20-Poly1305; %s; decrypted by the reference from "
                    "cipher.iv/nonce only"
                    % ("all 6 block ciphers (7 keys)" if q else "every ctr_key and RC2-128/64 (%d keys)" % (1 + len(classic_keys(q))),
                       "4 message lengths, AAD 5" if q else "8 message lengths x AAD {0,5,17} (AEAD modes)"),
            "des3key": "adjust_key_parity + DES3.new: all 256 values at every byte position of %s base keys per key length; "
                       "K1=K2 / K2=K3 / K1=K2=K3 / K1=K3 under all 256 parity-bit masks; all 64 one-bit neighbours of a degenerate "
                       "key (%s seeds)"
                       % ("2" if q else "7 (incl. all-zero, all-ones, K1=K2 and K2=K3 bases, where the byte decides about degeneracy)",
                          2 if q else 6),
            "multi_kilobyte": ("lengths {1023,1024,1025,4095,4096,4097}: AES-128 CBC (nearest block multiples), CTR, CFB8, GCM "
                               "(also AAD of that size), CCM, EAX, OCB, AES-256-SIV; ChaCha20, Salsa20, RC4, ChaCha20-Poly1305"
                               if q else
                               "lengths 2^k-1, 2^k, 2^k+1 for k=9..16 (24 lengths; ECB/CBC/KW: the nearest legal ones). "
                               "All 4 value classes, every length against one reference run: %d classic configurations = "
                               "{AES-128/192/256, DES, 3DES-128/192, Blowfish-128, CAST-128, RC2-128} x {ECB, CBC, "
                               "CFB8, CFB(4*block), CFB(8*block), OFB, CTR (nonce), CTR (little-endian Counter inside the block), "
                               "OpenPGP} + AES-128 and 3DES-192 CFB with EVERY other segment size; ChaCha20 (nonce 8/12/24), "
                               "Salsa20-128/256, RC4-40/128/2048. One run per length, message of that size and AAD of that size: "
                               "AES-128/192/256 GCM, CCM, EAX, OCB, AES-SIV-256/384/512, ChaCha20-Poly1305 (nonce 12/24), "
                               "EAX on 3DES-192 and Blowfish-128; KW and KWP with AES-128/192/256 ({seed,ones}). "
                               "Additionally 2^17-1..2^17+1 and 2^20-1..2^20+1 (seed): AES-128 ECB/CBC/CFB128/OFB/CTR/CTR-LE/"
                               "OpenPGP/GCM/CCM/EAX/OCB, AES-256-SIV, ChaCha20 (3 nonce lengths), Salsa20-256, RC4-128, "
                               "ChaCha20-Poly1305 (message and AAD). CCM with a 13-byte nonce: 65535 (AES-128) and 65534 (AES-256) bytes"
                               % len([b for b in pcb if b[0] == "classic"])),
        },
    })
    ctx.assume("data values: only the 4-member value alphabet (zero, ones, ascending, SHAKE256(VERIF_SEED)) per shape, "
               "applied jointly to key/nonce/AAD/message; plus nonces solved for counter wrap-around")
    ctx.assume("CAST-128: S-box contents are pinned only by the 3 RFC 2144 B.1 vectors, inversion, injectivity on 4 blocks "
               "and the key-padding rule; CAST modes are modelled over the library's own single-block ECB "
               "(the RFC 2144 B.2 million-iteration maintenance test is not run)")
    ctx.assume("message lengths above %s bytes, CCM AAD >= 2^32 (10-byte header), GCM/CCM/ChaCha length limits and "
               "counter exhaustion are not covered here (C11)" % ("65537" if q else "2^20+1 (2^16+1 for most configurations)"))
    ctx.assume("segmentation, output=, buffer types and call order are C09/C10; AES-NI vs portable and CLMUL vs portable "
               "GHASH beyond single ECB blocks are C16")
    ctx.assume("refusal of degenerate TDES keys is taken from the documentation of adjust_key_parity (the property text "
               "names it only as a mechanism)")
    ctx.assume("SIV digest() without a message (nonce ignored) and S2V of the empty vector are not part of this check (C12)")


def replay(case, acc):
    part = case.get("part")
    fn = CHECKERS.get(part)
    if fn is None:
        acc.error("unknown replay part %r" % (part,))
        return
    if "seed" in case and case["seed"] is None:
        case["seed"] = 0
    fn(case, acc)
