"""C09 - results do not depend on data segmentation, buffer type or in-place output.

Bounded-exhaustive differential exploration (SeqExplorer over call histories of one shape:
update()* encrypt()/decrypt()/read()* digest()).  For every stateful class configuration
("target", see _c09_targets.py) and every stream length of that class's boundary set, ALL
segmentations of a stated family (all compositions into <= 3 parts - 4 in the thorough tier -
with cut points in the boundary set, empty parts and "no call at all" included; all 2^(L-1)
compositions of short streams and of a window straddling each internal block/cache boundary;
AAD x message and update x read jointly with <= 2 parts each - thorough: also 3 parts x <= 2
parts) are executed on a fresh real object, crossed with
the caller-side buffer type of each segment and the output style of each call.  The oracle is
the one-shot call (bytes in, value returned) on a fresh object of the same class; the one-shot
result itself is compared with an independent reference (mc.ref.*, hashlib, hmac).  SIV and
TupleHash take vectors: there the oracle is the reference on the same component sequence and
two different splits of one string must give different results.
"""
import itertools
import zlib

from .. import common
from ..common import Acc, exc_site, short, seeded, asc
from . import _c09_targets as TG
from ._c09_targets import KINDS, WRITABLE, OUTS, KIND_SIG, OUT_SIG, mkin, mkout, sig, GL, GR, PADL, PADR

LEVEL = "exploration"
RULE = ("a case is one complete call history on a fresh object: (class configuration, direction, stream "
        "lengths, cut points of every stream, buffer type of every segment, output style of every call, "
        "constructor-data / combined-call flag); it is non-trivial when its executed call trace (lengths, "
        "actual buffer shapes, actual output objects) differs from the one-shot oracle trace - the driver "
        "checks this on every case from the objects really passed; distinct_nontrivial counts distinct "
        "(class, direction, lengths, cut points) segmentation shapes, each of which was run under several "
        "buffer-type/output assignments (evaluations)")
BUDGET = {"quick": 120, "thorough": 1200}

# a read-only memoryview over storage the caller later overwrites: the property text does not speak
# about mutation after the call returned, so a dependence on it is logged, not reported
RO_VIEW_REUSE_IS_VIOLATION = False

STYLES = OUTS + ("mixed",)

# thorough tier: all 2^(L-1) compositions of streams of L <= this many units and of a window of this many units
ALL_UNITS_THOROUGH = 14
ALL_WINDOW_AEAD_THOROUGH = 13    # ... width of the windows for the AEAD classes (their short streams: 14 as well)
# thorough tier: SIV / TupleHash component vectors = all compositions of strings of up to this many bytes
SIV_SMALL_THOROUGH = 9
TH_SMALL_THOROUGH = 9
SIV_LENS4 = (1, 16, 17)          # component lengths of the 4-component SIV vectors


class HarnessError(Exception):
    pass


# ---------------------------------------------------------------------------
# executing one call history on a fresh real object
# ---------------------------------------------------------------------------
def execute(T, dirn, inputs, aux, plan, scribble=True):
    """plan = (steps, ctor, combo); steps = ((stream, a, b, kind, outstyle), ...)
    -> ((output bytes, final bytes), trace, problems)"""
    steps, ctor, combo = plan
    streams = T.streams
    last = len(streams) - 1
    sess = None
    pieces = []
    trace = []
    problems = []
    nsteps = len(steps)
    produces = T.kind in ("cipher", "aead")
    for idx in range(nsteps):
        s, a, b, kind, ostyle = steps[idx]
        st = streams[s]
        n = b - a
        if st.is_len:
            if sess is None:
                sess = T.open(dirn, inputs, aux, None)
            r = sess.read(n)
            if type(r) is not bytes or len(r) != n:
                problems.append(("read-length", "read(%d) returned %s of length %d" % (n, type(r).__name__, len(r))))
            pieces.append(r)
            trace.append((s, n, "len", "ret"))
            continue
        data = inputs[s][a:b]
        obj, store, expect = mkin(kind, data)
        osig = "ret"
        out = ostore = None
        ooff = 0
        if sess is None and ctor and s == T.ctor_stream:
            sess = T.open(dirn, inputs, aux, obj)
            ret = None
            osig = "ctor"
        else:
            if sess is None:
                sess = T.open(dirn, inputs, aux, None)
            if ostyle == "ret":
                pass
            elif ostyle == "alias":
                if kind not in WRITABLE:
                    raise HarnessError("alias needs a writable input buffer, got %s" % kind)
                out = obj
                osig = "alias"
            else:
                out, ostore, ooff = mkout(ostyle, n)
                osig = sig(out)
                if osig != OUT_SIG[ostyle]:
                    raise HarnessError("output buffer shape %s, planned %s" % (osig, ostyle))
            if combo and idx == nsteps - 1:
                ret = sess.combo(obj, out)
            else:
                ret = sess.call(s, obj, out)
            if s == last and produces:
                if out is not None and ret is not None:
                    problems.append(("obs", "%s(..., output=buf) returned %s instead of None" % (st.op, type(ret).__name__)))
                elif out is None and type(ret) is not bytes:
                    problems.append(("obs", "%s() returned %s instead of bytes" % (st.op, type(ret).__name__)))
        ksig = sig(obj)
        if ksig != KIND_SIG[kind]:
            raise HarnessError("input buffer shape %s, planned %s" % (ksig, kind))
        trace.append((s, n, ksig, osig))
        # ---- collect the output of this call --------------------------------------------
        if s == last and produces:
            if out is None:
                if ret is None:
                    ret = b""                       # combined call whose MAC check failed
                pieces.append(bytes(ret))
            elif out is obj:
                pieces.append(bytes(obj))
            else:
                pieces.append(bytes(ostore[ooff:ooff + n]))
                if ostyle == "mvs" and (bytes(ostore[:ooff]) != GL or bytes(ostore[ooff + n:]) != GR):
                    problems.append(("output-overrun", "bytes outside the output memoryview slice were written"))
        # ---- the caller's input buffer ------------------------------------------------
        if store is not None:
            if out is obj:
                if kind == "slice" and (bytes(store[:PADL]) != GL or bytes(store[len(store) - PADR:]) != GR):
                    problems.append(("output-overrun", "bytes outside the aliased memoryview slice were written"))
            elif store != expect:
                problems.append(("input-modified", "the %s passed to %s() was modified by the call"
                                 % (kind, st.op)))
            if scribble:
                store[:] = b"\xa5" * len(store)
        if scribble and ostore is not None:
            ostore[:] = b"\xa5" * len(ostore)
    if sess is None:
        sess = T.open(dirn, inputs, aux, None)
    tail, final = sess.finish()
    return (b"".join(pieces) + tail, final), tuple(trace), problems


def oneshot_plan(T, lengths, kind="bytes", ostyle="ret", ctor=False, combo=False):
    steps = []
    for s, st in enumerate(T.streams):
        o = ostyle if (st.has_out and s == len(T.streams) - 1) else "ret"
        k = kind
        if o == "alias" and k not in WRITABLE:
            k = "bytearray"
        steps.append((s, 0, lengths[s], "len" if st.is_len else k, o))
    return (tuple(steps), ctor, combo)


class Base(object):
    """one (class, direction, stream contents): inputs for that direction and the one-shot oracle"""
    __slots__ = ("T", "dirn", "enc_inputs", "inputs", "aux", "expected", "otrace", "lengths")


def _lengths(T, inputs):
    return tuple(inputs[s] if st.is_len else len(inputs[s]) for s, st in enumerate(T.streams))


def base_from_inputs(T, dirn, enc_inputs, acc):
    """-> Base, or None when the one-shot oracle call itself raises (reported as a violation)"""
    lengths = _lengths(T, enc_inputs)
    one = oneshot_plan(T, lengths)
    b = Base()
    b.T, b.dirn, b.enc_inputs, b.lengths = T, dirn, enc_inputs, lengths
    first = "h" if T.dirs == ("h",) else "e"
    cur = first
    try:
        res, trace, _ = execute(T, first, enc_inputs, {}, one, scribble=False)
        if dirn in ("e", "h"):
            b.inputs, b.aux, b.expected, b.otrace = enc_inputs, {}, res, trace
            acc.count("oracle_bases")
            return b
        cur = "d"
        dins, aux, inverse = T.dec_setup(enc_inputs, res[0], res[1])
        dres, dtrace, _ = execute(T, "d", dins, aux, one, scribble=False)
    except HarnessError:
        raise
    except Exception as e:  # noqa
        acc.violation("C09/%s/%s/oneshot-call-raises/%s@%s" % (T.keyname, T.opname(cur), type(e).__name__, exc_site(e)),
                      "%s: the one-shot %s call on valid input raised %s: %s (no oracle for the segmentations of this input)"
                      % (describe(T, cur, lengths, one), T.opname(cur), type(e).__name__, e),
                      {"part": "base", "spec": T.spec, "thorough": T.thorough, "dirn": dirn, "seed": common.SEED,
                       "inputs": enc_inputs})
        return None
    if dres != inverse:
        acc.observe("%s: one-shot decrypt of the one-shot ciphertext does not return the plaintext "
                    "(C02's subject; C09 compares against the one-shot result)" % T.name)
    b.inputs, b.aux, b.expected, b.otrace = dins, aux, dres, dtrace
    acc.count("oracle_bases")
    return b


def gen_value(values, label, n):
    if values == "seeded":
        return seeded(label, n)
    if values == "asc":
        return asc(n, 1)
    if values == "zero":
        return bytes(n)
    if values == "ones":
        return b"\xff" * n
    raise ValueError(values)


def make_base(T, dirn, lengths, acc, values="seeded"):
    ins = []
    for s, st in enumerate(T.streams):
        ins.append(lengths[s] if st.is_len else gen_value(values, "c09/data/" + st.name, lengths[s]))
    return base_from_inputs(T, dirn, ins, acc)


# ---------------------------------------------------------------------------
# checking one case
# ---------------------------------------------------------------------------
def _passes(b, plan, scribble=True):
    try:
        res, _, problems = execute(b.T, b.dirn, b.inputs, b.aux, plan, scribble)
    except HarnessError:
        raise
    except Exception:   # noqa
        return False
    return res == b.expected and not [p for p in problems if p[0] != "obs"]


def classify(b, plan):
    """Which single dimension of the case makes it fail (deterministic; gives the violation key).
    -> (label, simpler plan that isolates that dimension or None)"""
    T = b.T
    steps, ctor, combo = plan
    if _passes(b, plan, scribble=False):
        if any(k == "romv_mut" for _, _, _, k, _ in steps):
            return "readonly-view-read-after-call", None
        return "buffer-read-after-call", None
    seg_only = (tuple((s, a, e, "len" if T.streams[s].is_len else "bytes", "ret") for s, a, e, _, _ in steps),
                False, False)
    if not _passes(b, seg_only):
        return "segmentation", seg_only
    kinds = []
    outs = []
    for s, a, e, k, o in steps:
        if k not in ("bytes", "len") and k not in kinds:
            kinds.append(k)
        if o != "ret" and o not in outs:
            outs.append(o)
    for k in kinds:
        p = oneshot_plan(T, b.lengths, kind=k)
        if not _passes(b, p):
            return "buffer-type", p
    for o in outs:
        p = oneshot_plan(T, b.lengths, kind="bytearray", ostyle=o)
        if not _passes(b, p):
            return ("output-alias" if o == "alias" else "output-buffer"), p
    if ctor:
        p = oneshot_plan(T, b.lengths, ctor=True)
        if not _passes(b, p):
            return "constructor-data", p
    if combo:
        p = oneshot_plan(T, b.lengths, combo=True)
        if not _passes(b, p):
            return "combined-call", p
    dims = []
    per_stream = {}
    for s, a, e, k, o in steps:
        per_stream[s] = per_stream.get(s, 0) + 1
    if any(v != 1 for v in per_stream.values()) or len(per_stream) != len(T.streams):
        dims.append("split")
    if kinds:
        dims.append("buftype")
    if outs:
        dims.append("output")
    if ctor:
        dims.append("ctor")
    if combo:
        dims.append("combo")
    return "combination(" + "+".join(dims) + ")", None


def describe(T, dirn, lengths, plan):
    steps, ctor, combo = plan
    parts = []
    for s, a, e, k, o in steps:
        st = T.streams[s]
        if st.is_len:
            parts.append("read(%d)" % (e - a))
        else:
            parts.append("%s[%d:%d]=%s%s" % (st.name, a, e, k, "" if o == "ret" else "->" + o))
    return "%s %s lengths=%s calls: %s%s%s" % (T.name, T.opname(dirn), list(lengths), " ".join(parts) or "(none)",
                                             " [first segment via constructor]" if ctor else "",
                                             " [last call combined *_and_digest/verify]" if combo else "")


def case_of(b, plan):
    steps, ctor, combo = plan
    return {"part": "plan", "spec": b.T.spec, "thorough": b.T.thorough, "dirn": b.dirn, "seed": common.SEED,
            "inputs": b.enc_inputs, "steps": [list(x) for x in steps], "ctor": ctor, "combo": combo}


_KIND_SRC = {
    "bytes": "x = D[%d][%d:%d]",
    "bytearray": "x = bytearray(D[%d][%d:%d])",
    "romv": "x = memoryview(D[%d][%d:%d])",
    "rwmv": "x = memoryview(bytearray(D[%d][%d:%d]))",
    "slice": "x = memoryview(bytearray(b'...' + D[%d][%d:%d] + b'.....'))[3:-5]",
    "romv_mut": "x = memoryview(bytearray(D[%d][%d:%d])).toreadonly()",
}
_OUT_SRC = {"ba": "o = bytearray(len(x))", "mv": "o = memoryview(bytearray(len(x)))",
            "mvs": "o = memoryview(bytearray(len(x) + 8))[3:3 + len(x)]", "alias": "o = x"}


def script_for(b, plan):
    """stand-alone reproduction of one case with nothing but Crypto (best effort; the JSON case is authoritative)"""
    T, dirn = b.T, b.dirn
    steps, ctor, combo = plan
    try:
        imp, new0 = T.src_new(dirn, b.inputs, b.aux)
    except Exception:  # noqa
        return None
    L = ["# stand-alone reproduction (needs only pycryptodome): %s" % describe(T, dirn, b.lengths, plan), imp]
    L.append("D = [%s]" % ", ".join(repr(v) if isinstance(v, int) else 'bytes.fromhex("%s")' % v.hex() for v in b.inputs))
    if "tag" in b.aux:
        L.append('TAG = bytes.fromhex("%s")' % b.aux["tag"].hex())
    kind = T.kind
    fn = {"e": "encrypt", "d": "decrypt"}.get(dirn)
    last = len(T.streams) - 1

    def fin(var):
        if kind == "cipher":
            return []
        if kind == "aead":
            pre = ["out += %s.%s()" % (var, fn)] if getattr(T, "mode", "") == "OCB" else []
            if dirn == "e":
                return pre + ["final = %s.digest()" % var]
            return pre + ["try:", "    %s.verify(TAG); final = b'ok'" % var, "except ValueError:", "    final = b'MAC-CHECK-FAILED'"]
        if kind == "hash":
            return ["final = %s.digest()" % var]
        return []

    # one-shot
    L += ["", "# one-shot", "c = %s" % new0, "out = b''; final = b''"]
    for s, st in enumerate(T.streams):
        if st.is_len:
            L.append("out += c.read(D[%d])" % s)
        elif kind in ("hash", "xof") or (kind == "aead" and s == 0):
            L.append("c.update(D[%d])" % s)
        else:
            L.append("out += c.%s(D[%d])" % (fn, s))
    L += fin("c") + ["expected = (out, final)"]
    # the case
    L += ["", "# the case", "out = b''; final = b''"]
    started = False
    for i, (s, a, e, k, o) in enumerate(steps):
        st = T.streams[s]
        if st.is_len:
            if not started:
                L.append("c = %s" % new0)
                started = True
            L.append("out += c.read(%d)" % (e - a))
            continue
        L.append(_KIND_SRC[k] % (s, a, e))
        if not started:
            started = True
            if ctor and s == T.ctor_stream:
                L.append("c = %s" % T.src_new(dirn, b.inputs, b.aux, "x")[1])
                L.append("x[:] = b'\\xa5' * len(x)" if k in WRITABLE else "pass")
                continue
            L.append("c = %s" % new0)
        if o != "ret":
            L.append(_OUT_SRC[o])
        oarg = "" if o == "ret" else ", output=o"
        if kind in ("hash", "xof") or (kind == "aead" and s == 0):
            L.append("c.update(x)")
        elif combo and i == len(steps) - 1:
            if dirn == "e":
                L.append("r, final = c.encrypt_and_digest(x%s)" % oarg)
            else:
                L += ["try:", "    r = c.decrypt_and_verify(x, TAG%s); final = b'ok'" % oarg,
                      "except ValueError:", "    r = b''; final = b'MAC-CHECK-FAILED'"]
            L.append("out += bytes(r) if %s else bytes(o)" % ("True" if o == "ret" else "False"))
        else:
            L.append("r = c.%s(x%s)" % (fn, oarg))
            L.append("out += r" if o == "ret" else "out += bytes(o)")
        if k in WRITABLE or k == "romv_mut":
            L.append("x.obj[:] = b'\\xa5' * len(x.obj)" if k != "bytearray" else "x[:] = b'\\xa5' * len(x)")
    if not started:
        L.append("c = %s" % new0)
    if not (combo and steps):
        L += fin("c")
    L += ["got = (out, final)", "print('one-shot:', expected[0].hex(), expected[1].hex())",
          "print('case    :', got[0].hex(), got[1].hex())", "print('EQUAL' if got == expected else 'DIFFERENT')"]
    return "\n".join(L) + "\n"


def _verdict(b, plan, exc, res, label):
    T = b.T
    key = "C09/%s/%s/%s" % (T.keyname, T.opname(b.dirn), label)
    if exc is not None:
        key += "/%s@%s" % (type(exc).__name__, exc_site(exc))
        what = "%s: raised %s: %s (the one-shot call returns %s)" % (
            describe(T, b.dirn, b.lengths, plan), type(exc).__name__, exc, short(b.expected[0] + b.expected[1]))
    else:
        where = []
        for name, got, want in (("output", res[0], b.expected[0]), ("tag/digest", res[1], b.expected[1])):
            if got != want:
                i = next((j for j in range(min(len(got), len(want))) if got[j] != want[j]), min(len(got), len(want)))
                where.append("%s: lengths %d/%d, first difference at byte %d (%s vs %s)"
                             % (name, len(got), len(want), i, got[i:i + 8].hex() or "-", want[i:i + 8].hex() or "-"))
        what = "%s: result %s / %s differs from the one-shot result %s / %s [%s]" % (
            describe(T, b.dirn, b.lengths, plan), short(res[0]), short(res[1]),
            short(b.expected[0]), short(b.expected[1]), "; ".join(where))
    return key, what


def _run(b, plan):
    try:
        res, trace, problems = execute(b.T, b.dirn, b.inputs, b.aux, plan)
        return None, res, trace, problems
    except HarnessError:
        raise
    except Exception as e:  # noqa
        return e, None, None, []


def check_plan(b, plan, acc, stats=None):
    T = b.T
    acc.count("evaluations")
    try:
        exc, res, trace, problems = _run(b, plan)
    except HarnessError as e:
        acc.error("harness: %s in %s" % (e, describe(T, b.dirn, b.lengths, plan)))
        return
    romut = any(k == "romv_mut" for _, _, _, k, _ in plan[0])
    if exc is None:
        # vacuity: the case must really differ from the oracle call history
        if trace == b.otrace and not plan[1] and not plan[2]:
            acc.error("harness: case does not differ from the one-shot oracle: %s" % describe(T, b.dirn, b.lengths, plan))
            return
        if stats is not None:
            stats.note(trace)
    if exc is not None or res != b.expected:
        label, reduced = classify(b, plan)
        if label == "readonly-view-read-after-call" and not RO_VIEW_REUSE_IS_VIOLATION:
            acc.observe("%s.%s(): a read-only memoryview over caller storage is read after the call returned "
                        "(result changes when the caller then overwrites its buffer)" % (T.keyname, T.streams[plan[0][0][0]].op))
            return
        key, what = _verdict(b, plan, exc, res, label)
        rep = plan
        if reduced is not None and reduced != plan:
            # report the simplest case that isolates the failing dimension, if it yields the same key
            e2, r2, _, _ = _run(b, reduced)
            if e2 is not None or r2 != b.expected:
                k2, w2 = _verdict(b, reduced, e2, r2, label)
                if k2 == key and classify(b, reduced)[0] == label:
                    rep, what = reduced, w2
        acc.violation(key, what, case_of(b, rep), script=script_for(b, rep))
    for code, text in problems:
        if romut:
            continue
        if code == "obs":
            acc.observe("%s: %s (documented return value; not part of the property text)" % (T.keyname, text))
            continue
        acc.violation("C09/%s/%s/%s" % (T.keyname, T.opname(b.dirn), code),
                      "%s: %s" % (describe(T, b.dirn, b.lengths, plan), text), case_of(b, plan))


def check_reference(T, lengths, acc, inputs=None):
    """one-shot result of the library against the independent reference"""
    if inputs is None:
        b = make_base(T, T.dirs[0], lengths, acc)
    else:
        b = base_from_inputs(T, T.dirs[0], inputs, acc)
    if b is None:
        return True                 # already reported; the class does have a reference
    ref = T.ref(b.enc_inputs)
    if ref is None:
        return False
    acc.count("reference_comparisons")
    if tuple(ref) != tuple(b.expected):
        acc.violation("C09/%s/oneshot-vs-reference" % T.keyname,
                      "%s lengths=%s: one-shot result %s / %s differs from the independent reference %s / %s"
                      % (T.name, list(b.lengths), short(b.expected[0]), short(b.expected[1]), short(ref[0]), short(ref[1])),
                      {"part": "ref", "spec": T.spec, "thorough": T.thorough, "seed": common.SEED,
                       "inputs": b.enc_inputs})
    return True


# ---------------------------------------------------------------------------
# enumerators
# ---------------------------------------------------------------------------
def cutset(L, cuts, gran):
    return sorted({p for p in cuts if 0 <= p <= L and p % gran == 0} | {0, L})


def comps3(L, cuts, gran):
    """all compositions of L into <= 3 parts with cut points in the set (empty parts included)"""
    C = cutset(L, cuts, gran)
    yield ()
    for p in C:
        yield (p,)
    for i, p in enumerate(C):
        for q in C[i:]:
            yield (p, q)


def comps2(L, cuts, gran):
    yield ()
    for p in cutset(L, cuts, gran):
        yield (p,)


def comps4(L, cuts, gran):
    """all compositions of L into <= 4 parts with cut points in the set: those of comps3 first, then the 4-part ones"""
    for c in comps3(L, cuts, gran):
        yield c
    C = cutset(L, cuts, gran)
    for i, p in enumerate(C):
        for j in range(i, len(C)):
            q = C[j]
            for r in C[j:]:
                yield (p, q, r)


_COMPS = {2: comps2, 3: comps3, 4: comps4}


def parts_of(L, comp):
    pts = (0,) + tuple(comp) + (L,)
    return [(pts[i], pts[i + 1]) for i in range(len(pts) - 1)]


def all_compositions(L, unit=1, offset=0):
    """all 2^(L/unit - 1) compositions of [offset, offset+L) into non-empty parts (cuts at multiples of unit)"""
    n = L // unit
    if n == 0:
        return
    for mask in range(1 << (n - 1)):
        cuts = [offset + (i + 1) * unit for i in range(n - 1) if mask >> i & 1]
        yield tuple(cuts)


def kind_assignments(n, full, ctr):
    if n == 0:
        return [()]
    if full and n <= 2:
        return list(itertools.product(KINDS, repeat=n))
    if full:
        return [tuple(KINDS[(r + i) % 5] for i in range(n)) for r in range(5)]
    return [tuple(KINDS[(ctr + i) % 5] for i in range(n))]


def out_assignment(style, n, ctr):
    if style == "mixed":
        return tuple(OUTS[(ctr + i) % 5] for i in range(n))
    return (style,) * n


_FIX = {"bytes": "bytearray", "romv": "rwmv"}


def build_steps(s, parts, kinds, outs):
    st = []
    for (a, e), k, o in zip(parts, kinds, outs):
        if o == "alias" and k not in WRITABLE:
            k = _FIX[k]
        st.append((s, a, e, k, o))
    return st


def other_steps(T, s, lengths):
    """one-shot steps for the streams that are not being varied, split in before/after"""
    before, after = [], []
    for i, st in enumerate(T.streams):
        if i == s:
            continue
        step = (i, 0, lengths[i], "len" if st.is_len else "bytes", "ret")
        (before if i < s else after).append(step)
    return before, after


def stream_comps(T, s, L, maxparts=3):
    st = T.streams[s]
    if s == len(T.streams) - 1 and not getattr(T, "multi_m", True):
        comps = [()]
    else:
        comps = list(_COMPS[maxparts](L, st.cuts, st.gran))
    out = [("c", c) for c in comps]
    if L == 0 and st.zero_calls:
        out.append(("z", None))                     # no call at all on this stream
    return out


def gen_sweep(T, s, lengths, full, ctr0=0, deep=False):
    """vary stream s (<= 3 parts, cuts in the boundary set) x buffer kinds x output styles.
    deep: <= 4 parts (the 4-part ones with one rotation of the buffer kinds), and the combined last call
    (encrypt_and_digest / decrypt_and_verify) after earlier encrypt()/decrypt() calls where the class documents it"""
    st = T.streams[s]
    L = lengths[s]
    last = len(T.streams) - 1
    before, after = other_steps(T, s, lengths)
    styles = STYLES if st.has_out else ("ret",)
    ctr = ctr0
    for tag, comp in stream_comps(T, s, L, 4 if deep else 3):
        if tag == "z":
            yield comp, (tuple(before + after), False, False)
            continue
        parts = parts_of(L, comp)
        n = len(parts)
        if st.is_len:
            if n > 1:
                yield comp, (tuple(before + [(s, a, e, "len", "ret") for a, e in parts] + after), False, False)
            continue
        seen = set()
        for kinds in kind_assignments(n, full and n <= 3, ctr):
            ctr += 1
            for style in styles:
                outs = out_assignment(style, n, ctr)
                mine = tuple(build_steps(s, parts, kinds, outs))
                if mine in seen:
                    continue
                seen.add(mine)
                steps = tuple(before) + mine + tuple(after)
                trivial = n == 1 and mine[0][3] == "bytes" and mine[0][4] == "ret"
                if not trivial:
                    yield comp, (steps, False, False)
                if T.ctor_stream == s and style == "ret" and (full or n <= 2):
                    yield comp, (steps, True, False)
                if T.combo and s == last and (n == 1 or (deep and T.combo_multi)) \
                        and (style == "ret" or (T.combo_out and style != "mixed")):
                    yield comp, (steps, False, True)


def gen_joint(T, lengths, full, ctr0=0, deep=False):
    """both streams split into <= 2 parts jointly; deep: also 3 parts x <= 2 parts and <= 2 parts x 3 parts
    (one rotation of the buffer kinds)"""
    s0, s1 = T.streams[0], T.streams[1]
    styles = STYLES if s1.has_out else ("ret",)
    ctr = ctr0
    pairs = []
    for t0, c0 in stream_comps(T, 0, lengths[0], 2):
        for t1, c1 in stream_comps(T, 1, lengths[1], 2):
            pairs.append((t0, c0, t1, c1, full))
    if deep:
        for m0, m1 in ((3, 2), (2, 3)):
            for t0, c0 in stream_comps(T, 0, lengths[0], m0):
                if t0 == "z" or (m0 == 3 and len(c0) != 2):
                    continue
                for t1, c1 in stream_comps(T, 1, lengths[1], m1):
                    if t1 == "z" or (m1 == 3 and len(c1) != 2):
                        continue
                    pairs.append((t0, c0, t1, c1, False))
    for t0, c0, t1, c1, full in pairs:
        p0 = [] if t0 == "z" else parts_of(lengths[0], c0)
        p1 = [] if t1 == "z" else parts_of(lengths[1], c1)
        if len(p0) <= 1 and len(p1) <= 1 and t0 != "z" and t1 != "z":
            continue                            # covered by the sweeps
        comp = (c0, c1)
        n0 = len(p0)
        n1 = 0 if s1.is_len else len(p1)
        seen = set()
        for r in (range(5) if full else (ctr % 5,)):
            ctr += 1
            kinds = tuple(KINDS[(r + i) % 5] for i in range(n0 + n1))
            for style in styles:
                a = build_steps(0, p0, kinds[:n0], ("ret",) * n0)
                if s1.is_len:
                    bsteps = [(1, x, y, "len", "ret") for x, y in p1]
                else:
                    bsteps = build_steps(1, p1, kinds[n0:], out_assignment(style, n1, ctr))
                steps = tuple(a + bsteps)
                if steps in seen:
                    continue
                seen.add(steps)
                yield comp, (steps, False, False)


def gen_allcomps(T, s, lengths, prefix, window, ctr0=0):
    """stream s = [0,prefix) in one call, then ALL compositions of the next `window` bytes"""
    st = T.streams[s]
    before, after = other_steps(T, s, lengths)
    styles = STYLES if st.has_out else ("ret",)
    i = ctr0
    for cuts in all_compositions(window, st.gran, prefix):
        comp = ((prefix,) if prefix else ()) + cuts
        parts = parts_of(lengths[s], comp)
        n = len(parts)
        i += 1
        if st.is_len:
            if n > 1:
                yield comp, (tuple(before + [(s, a, e, "len", "ret") for a, e in parts] + after), False, False)
            continue
        kinds = tuple(KINDS[(i + j) % 5] for j in range(n))
        style = styles[(i // 5) % len(styles)]
        mine = tuple(build_steps(s, parts, kinds, out_assignment(style, n, i)))
        if n == 1 and mine[0][3] == "bytes" and mine[0][4] == "ret":
            continue
        yield comp, (tuple(before) + mine + tuple(after), False, False)


# ---------------------------------------------------------------------------
# per-worker statistics (flushed into the Acc once)
# ---------------------------------------------------------------------------
class Stats(object):
    def __init__(self):
        self.kinds = set()
        self.outs = set()
        self.maxcalls = 0
        self.shapes = set()
        self.nontrivial = 0
        self.sampled = False
        self.combo_multi = 0
        self.sweep4 = 0
        self.joint3 = 0
        self.calls = {}

    def note(self, trace):
        self.nontrivial += 1
        for _, _, k, o in trace:
            self.kinds.add(k)
            self.outs.add(o)
        n = len(trace)
        if n > self.maxcalls:
            self.maxcalls = n
        self.calls[n] = self.calls.get(n, 0) + 1

    def flush(self, acc, tname):
        for k in self.kinds:
            acc.seen("input_shapes", k)
        for o in self.outs:
            acc.seen("output_shapes", o)
        for h in self.shapes:
            acc.seen("shapes", h)
        for k in self.kinds:
            acc.seen("class_in", (tname, k))
        for o in self.outs:
            acc.seen("class_out", (tname, o))
        acc.seen("maxcalls", min(self.maxcalls, 8))
        for n, k in self.calls.items():
            acc.count("_calls/%d" % min(n, 16), k)
        acc.count("_combo_multi", self.combo_multi)
        acc.count("_sweep_4part", self.sweep4)
        acc.count("_joint_3part", self.joint3)
        acc.count("nontrivial_cases", self.nontrivial)
        acc.count("_cases/" + tname, self.nontrivial)


_TCACHE = {}


def target(spec, thorough):
    k = (spec, thorough)
    if k not in _TCACHE:
        T = TG.build(spec, thorough)
        T.thorough = thorough
        _TCACHE[k] = T
    return _TCACHE[k]


def _defaults(T):
    return [st.default - st.default % st.gran for st in T.streams]


def _tidx(T):
    return zlib.crc32(T.name.encode())


def run_part(T, dirn, part, full, thorough, acc):
    stats = Stats()
    tid = _tidx(T)
    dnum = "edh".index(dirn)
    ns = len(T.streams)

    def go(b, gen, mode=0):
        if b is None:
            return
        for comp, plan in gen:
            stats.shapes.add(hash((tid, dnum, b.lengths, comp)))
            check_plan(b, plan, acc, stats)
            if plan[2] and len(plan[0]) > ns:
                stats.combo_multi += 1
            if mode == 1:
                if comp is not None and len(comp) == 3:
                    stats.sweep4 += 1
            elif mode == 2:
                if (comp[0] is not None and len(comp[0]) == 2) or (comp[1] is not None and len(comp[1]) == 2):
                    stats.joint3 += 1
            if not stats.sampled and len(plan[0]) >= 4 and b.lengths[-1]:
                stats.sampled = True
                acc.sample({"case": describe(T, dirn, b.lengths, plan), "part": part,
                            "one_shot_oracle": short(b.expected[0], 24) + " / " + short(b.expected[1], 24),
                            "verdict": "equal" if not acc.viol else "see violations"})

    if part == "ref":
        done = 0
        for s, st in enumerate(T.streams):
            for L in st.lens:
                lengths = _defaults(T)
                lengths[s] = L
                if sum(lengths) > 700 and not getattr(T, "fam", "") == "KangarooTwelve" and not T.ref_any_len:
                    continue
                if check_reference(T, lengths, acc):
                    done += 1
        if done:
            acc.seen("referenced", T.name)
    elif part.startswith("sweep"):
        s = int(part[5:].split(":")[0])
        st = T.streams[s]
        for L in (st.lens if ":" not in part else [st.lens[int(part.split(":")[1])]]):   # thorough AEADs: one shard per length
            lengths = _defaults(T)
            lengths[s] = L
            b = make_base(T, dirn, lengths, acc)
            go(b, gen_sweep(T, s, lengths, full, ctr0=L, deep=thorough), 1)
    elif part.startswith("joint"):
        L0s = T.streams[0].joint
        if ":" in part:                              # thorough: one shard per length of the first stream
            L0s = [L0s[int(part.split(":")[1])]]
        c0, c1 = T.streams[0].c, T.streams[1].c
        for L0 in L0s:
            for L1 in T.streams[1].joint:
                lengths = [L0, L1]
                b = make_base(T, dirn, lengths, acc)
                # the 3 x 2 part cases: all joint lengths but 2c-1 and 2c
                deep = thorough and L0 not in (2 * c0 - 1, 2 * c0) and L1 not in (2 * c1 - 1, 2 * c1)
                go(b, gen_joint(T, lengths, full and thorough, ctr0=L0 + L1, deep=deep), 2)
    elif part.startswith("all"):
        s = int(part[3:])
        st = T.streams[s]
        if s == ns - 1 and not getattr(T, "multi_m", True):
            return
        g = st.gran
        lmax = (ALL_UNITS_THOROUGH if thorough else 10) if full else 6
        for n in range(1, lmax + 1):
            lengths = _defaults(T)
            lengths[s] = n * g
            b = make_base(T, dirn, lengths, acc)
            go(b, gen_allcomps(T, s, lengths, 0, n * g, ctr0=n))
        if full:
            w = (ALL_WINDOW_AEAD_THOROUGH if T.kind == "aead" else ALL_UNITS_THOROUGH) if thorough else 10
            for center in st.win:
                prefix = max(0, center - (w // 2) * g)
                lengths = _defaults(T)
                lengths[s] = prefix + w * g
                b = make_base(T, dirn, lengths, acc)
                go(b, gen_allcomps(T, s, lengths, prefix, w * g, ctr0=center))
    elif part == "values":
        for values in (("asc", "zero", "ones") if thorough else ("asc",)):
            for s, st in enumerate(T.streams):
                if st.is_len:
                    continue
                for L in st.lens:
                    lengths = _defaults(T)
                    lengths[s] = L
                    b = make_base(T, dirn, lengths, acc, values=values)
                    go(b, gen_sweep(T, s, lengths, False, ctr0=L + len(values)))
    elif part == "romut":
        # observation only: read-only views over storage that is overwritten after each call
        for s, st in enumerate(T.streams):
            if st.is_len:
                continue
            lengths = _defaults(T)
            lengths[s] = 2 * st.c + st.gran if st.gran == 1 else 2 * st.gran
            b = make_base(T, dirn, lengths, acc)
            if b is None:
                continue
            before, after = other_steps(T, s, lengths)
            before = [(i, x, y, k if k == "len" else "romv_mut", o) for i, x, y, k, o in before]
            after = [(i, x, y, k if k == "len" else "romv_mut", o) for i, x, y, k, o in after]
            for tag, comp in stream_comps(T, s, lengths[s], 2):
                if tag == "z":
                    continue
                parts = parts_of(lengths[s], comp)
                mine = [(s, x, y, "romv_mut", "ret") for x, y in parts]
                check_plan(b, (tuple(before + mine + after), False, False), acc, stats)
    else:
        raise HarnessError("unknown part %r" % part)
    stats.flush(acc, T.name)


def k12_dense_case(L, clen, cuts, acc):
    """KangarooTwelve, message of L bytes (several 8192-byte chunks), customization of clen bytes: update() in the pieces given by
    `cuts` must give the one-shot output"""
    from Crypto.Hash import KangarooTwelve
    msg = seeded("c09/k12dense", L)
    cust = seeded("c09/k12dense-c", clen)
    exp = KangarooTwelve.new(data=msg, custom=cust).read(48)
    h = KangarooTwelve.new(custom=cust)
    a = 0
    for c in list(cuts) + [L]:
        h.update(msg[a:c])
        a = c
    got = h.read(48)
    if got != exp:
        acc.violation("C09/KangarooTwelve/update/segmentation-of-a-multi-chunk-message",
                      "KangarooTwelve, %d-byte message, %d-byte customization: update() in pieces cut at %s gives %s, one call gives %s"
                      % (L, clen, list(cuts), short(got, 16), short(exp, 16)), {"part": "k12dense", "L": L, "clen": clen, "cuts": list(cuts)},
                      size=len(cuts) * 10 ** 6 + min(cuts))
        return False
    return True


def k12_dense_worker(shard):
    """every 2-piece cut of a multi-chunk message in [lo, hi), plus the 3-piece cuts (c, c + 8192 + 77)"""
    acc = Acc()
    L, clen, lo, hi = shard
    for c in range(lo, min(hi, L + 1)):
        acc.count("evaluations")
        acc.count("k12_dense_cuts")
        if not k12_dense_case(L, clen, (c,), acc):
            break
        if c + 8269 <= L and c % 16 == 5:
            k12_dense_case(L, clen, (c, c + 8269), acc)
    acc.seen("classes", ("k12dense", L, clen, lo // 4096))
    return acc


def worker(shard):
    """one pool for everything: shard[0] names the explorer"""
    if shard[0] == "k12dense":
        return k12_dense_worker(shard[1:])
    if shard[0] == "siv":
        return siv_worker(shard[1:])
    if shard[0] == "th":
        return tuplehash_worker(shard[1:])
    return plan_worker(shard[1:])


def plan_worker(shard):
    acc = Acc()
    spec, full, thorough, dirn, part = shard
    T = target(spec, thorough)
    try:
        run_part(T, dirn, part, full, thorough, acc)
    except HarnessError as e:
        acc.error("harness: %s (%s %s)" % (e, T.name, part))
    return acc


# ---------------------------------------------------------------------------
# vectors: SIV and TupleHash
# ---------------------------------------------------------------------------
_SIV_REF = {}


def siv_params(klen, with_nonce):
    key = seeded("c09/key/siv/%d" % klen, klen)
    nonce = seeded("c09/nonce/siv", 16) if with_nonce else None
    return key, nonce


def siv_reference(klen, with_nonce, comps, pt):
    k = (klen, with_nonce, tuple(comps), pt)
    r = _SIV_REF.get(k)
    if r is None:
        from ..ref import modes, aes
        key, nonce = siv_params(klen, with_nonce)
        r = _SIV_REF[k] = modes.siv_encrypt(key, aes.AES, list(comps), pt, nonce)
        if len(_SIV_REF) > 5000:
            _SIV_REF.clear()
    return r


def check_siv(klen, with_nonce, comps, pt, kinds, ptkind, ostyle, dirn, acc, scribble=True):
    """SIV: the oracle is the reference on the same component sequence"""
    from Crypto.Cipher import AES
    acc.count("evaluations")
    key, nonce = siv_params(klen, with_nonce)
    ct_ref, tag_ref = siv_reference(klen, with_nonce, comps, pt)
    case = {"part": "siv", "seed": common.SEED, "klen": klen, "nonce": with_nonce, "comps": list(comps), "pt": pt,
            "kinds": list(kinds), "ptkind": ptkind, "ostyle": ostyle, "dirn": dirn}
    what = "AES-%d/SIV%s %s components=%s(%s) message %d bytes as %s->%s" % (
        klen * 4, "+nonce" if with_nonce else "", "encrypt_and_digest" if dirn == "e" else "decrypt_and_verify",
        [len(c) for c in comps], ",".join(kinds), len(pt), ptkind, ostyle)
    op = "encrypt_and_digest" if dirn == "e" else "decrypt_and_verify"
    problems = []
    try:
        c = AES.new(key, AES.MODE_SIV, nonce=nonce) if with_nonce else AES.new(key, AES.MODE_SIV)
        for comp, kind in zip(comps, kinds):
            obj, store, expect = mkin(kind, comp)
            c.update(obj)
            if store is not None:
                if store != expect:
                    problems.append("input-modified")
                if scribble:
                    store[:] = b"\xa5" * len(store)
        data = pt if dirn == "e" else ct_ref
        if ostyle == "alias" and ptkind not in WRITABLE:
            ptkind = _FIX[ptkind]
        obj, store, expect = mkin(ptkind, data)
        out = ostore = None
        ooff = 0
        if ostyle == "alias":
            out = obj
        elif ostyle != "ret":
            out, ostore, ooff = mkout(ostyle, len(data))
        kw = {} if out is None else {"output": out}
        if dirn == "e":
            r, tag = c.encrypt_and_digest(obj, **kw)
        else:
            try:
                r = c.decrypt_and_verify(obj, tag_ref, **kw)
                tag = b"ok"
            except ValueError:
                r, tag = b"", b"MAC-CHECK-FAILED"
        if out is None:
            got = bytes(r)
        elif out is obj:
            got = bytes(obj)
        else:
            got = bytes(ostore[ooff:ooff + len(data)])
            if ostyle == "mvs" and (bytes(ostore[:ooff]) != GL or bytes(ostore[ooff + len(data):]) != GR):
                problems.append("output-overrun")
        if store is not None and out is not obj and store != expect:
            problems.append("input-modified")
    except Exception as e:  # noqa
        acc.violation("C09/SIV/%s/%s@%s" % (op, type(e).__name__, exc_site(e)),
                      "%s: raised %s: %s" % (what, type(e).__name__, e), case)
        return None
    want = (ct_ref, tag_ref) if dirn == "e" else (pt, b"ok")
    if (got, tag) != want:
        plain = all(k == "bytes" for k in kinds) and ptkind == "bytes" and ostyle == "ret"
        acc.violation("C09/SIV/%s/%s" % (op, "differs-from-reference-on-same-components" if plain
                                         else "buffer-type-or-output"),
                      "%s: got %s / %s, reference on the same component sequence gives %s / %s"
                      % (what, short(got), short(tag), short(want[0]), short(want[1])), case)
    for p in problems:
        acc.violation("C09/SIV/%s/%s" % (op, p), "%s: %s" % (what, p), case)
    return tag if dirn == "e" else None


def siv_distinct(klen, with_nonce, vectors, pt, acc):
    """different splits of ONE string must give different tags (library run on plain bytes)"""
    from Crypto.Cipher import AES
    key, nonce = siv_params(klen, with_nonce)
    seen = {}
    for comps in vectors:
        acc.count("evaluations")
        c = AES.new(key, AES.MODE_SIV, nonce=nonce) if with_nonce else AES.new(key, AES.MODE_SIV)
        for x in comps:
            c.update(x)
        _, tag = c.encrypt_and_digest(pt)
        if tag in seen and seen[tag] != tuple(comps):
            acc.violation("C09/SIV/split-not-distinguished",
                          "AES-%d/SIV: component vectors %s and %s (same concatenation) give the same tag %s"
                          % (klen * 4, short(list(seen[tag])), short(list(comps)), tag.hex()),
                          {"part": "siv-distinct", "seed": common.SEED, "klen": klen, "nonce": with_nonce,
                           "vectors": [list(seen[tag]), list(comps)], "pt": pt})
        seen[tag] = tuple(comps)
    acc.seen("siv_distinct_tags", (klen, with_nonce, len(seen)))
    return len(seen)


def split_by(data, lens):
    out, p = [], 0
    for n in lens:
        out.append(data[p:p + n])
        p += n
    return out


def siv_worker(shard):
    acc = Acc()
    kind, klen, with_nonce, thorough, arg = shard
    master = seeded("c09/siv/aad", 128)
    ctr = 0
    if kind == "small":
        # all compositions of a short string into non-empty components
        for L in range(1, (SIV_SMALL_THOROUGH if thorough else 5) + 1):
            S = master[:L]
            vectors = [split_by(S, [b - a for a, b in parts_of(L, cuts)]) for cuts in all_compositions(L)]
            for ptlen in (0, 1, 17):
                pt = seeded("c09/siv/pt", ptlen)
                n = siv_distinct(klen, with_nonce, vectors + [[]], pt, acc)
                if n != len(vectors) + 1:
                    acc.error("SIV distinctness bookkeeping: %d tags for %d vectors" % (n, len(vectors) + 1))
                for comps in vectors:
                    for dirn in ("e", "d"):
                        ctr += 1
                        kinds = tuple(KINDS[(ctr + i) % 5] for i in range(len(comps)))
                        check_siv(klen, with_nonce, comps, pt, kinds, KINDS[ctr % 5], OUTS[(ctr // 5) % 5], dirn, acc)
                        acc.seen("shapes", hash(("siv", klen, with_nonce, tuple(len(c) for c in comps), ptlen)))
        acc.sample({"class": "AES-%d/SIV" % (klen * 4), "part": "all compositions of 1..%d bytes into components"
                    % (SIV_SMALL_THOROUGH if thorough else 5)})
    elif kind == "boundary":
        lens = (1, 15, 16, 17, 32, 33)
        ncomp, first = arg if isinstance(arg, tuple) else (arg, None)
        ptlens = (0, 1, 15, 16, 17, 33) + ((127, 128, 129) if thorough else ())
        if ncomp >= 4:                              # thorough only
            lens = SIV_LENS4
            ptlens = (0, 1, 16, 17)
        groups = {}
        for v in itertools.product(lens, repeat=ncomp):
            groups.setdefault(sum(v), []).append(v)
        for total, vs in sorted(groups.items()):
            S = master[:total]
            vectors = [split_by(S, v) for v in vs]
            if first is None or first == lens[0]:
                siv_distinct(klen, with_nonce, vectors, seeded("c09/siv/pt", 17), acc)
            for comps in vectors:
                if first is not None and len(comps[0]) != first:
                    continue
                for ptlen in ptlens:
                    pt = seeded("c09/siv/pt", ptlen)
                    acc.seen("shapes", hash(("siv", klen, with_nonce, tuple(len(c) for c in comps), ptlen)))
                    if ncomp <= 2:
                        kas = list(itertools.product(KINDS, repeat=ncomp))
                    else:
                        kas = [tuple(KINDS[(r + i) % 5] for i in range(ncomp)) for r in range(5)]
                    for ki, kinds in enumerate(kas):
                        for dirn in ("e", "d"):
                            if ncomp <= 1 or ki % 5 == 0 or ncomp > 2:
                                outs = OUTS
                            else:
                                outs = (OUTS[ki % 5],)
                            for o in outs:
                                ctr += 1
                                check_siv(klen, with_nonce, comps, pt, kinds, KINDS[(ctr + ki) % 5], o, dirn, acc)
        acc.sample({"class": "AES-%d/SIV" % (klen * 4), "part": "vectors of %d components with lengths in %s"
                    % (ncomp, list(lens)), "message_lengths": list(ptlens)})
    return acc


_TH = {128: ("TupleHash128", 168), 256: ("TupleHash256", 136)}


def check_tuplehash(bits, dlen, custom, vector, groups, kinds, acc, scribble=True):
    """vector = components; groups = sizes of the successive update(*items) calls"""
    import importlib
    from ..ref import keccak
    acc.count("evaluations")
    mod = importlib.import_module("Crypto.Hash." + _TH[bits][0])
    want = keccak.tuplehash(bits, vector, dlen, custom)
    case = {"part": "tuplehash", "bits": bits, "dlen": dlen, "custom": custom, "vector": list(vector),
            "groups": list(groups), "kinds": list(kinds)}
    what = "TupleHash%d components=%s grouped into update() calls of %s items, buffer types %s" % (
        bits, [len(v) for v in vector], list(groups), ",".join(kinds))
    try:
        h = mod.new(digest_bytes=dlen, custom=custom) if custom else mod.new(digest_bytes=dlen)
        i = 0
        bad = False
        for g in groups:
            bufs = [mkin(k, v) for k, v in zip(kinds[i:i + g], vector[i:i + g])]
            i += g
            h.update(*[b[0] for b in bufs])
            for obj, store, expect in bufs:
                if store is not None:
                    if store != expect:
                        bad = True
                    if scribble:
                        store[:] = b"\xa5" * len(store)
        got = h.digest()
    except Exception as e:  # noqa
        acc.violation("C09/TupleHash/update/%s@%s" % (type(e).__name__, exc_site(e)),
                      "%s: raised %s: %s" % (what, type(e).__name__, e), case)
        return None
    if got != want:
        plain = all(k == "bytes" for k in kinds) and len(groups) == 1
        acc.violation("C09/TupleHash/update/%s" % ("differs-from-reference-on-same-components" if plain
                                                   else "call-grouping-or-buffer-type"),
                      "%s: digest %s, reference on the same component sequence %s" % (what, short(got), short(want)), case)
    if bad:
        acc.violation("C09/TupleHash/update/input-modified", what + ": a caller buffer was modified", case)
    return got


def groupings(n, limit=4):
    """ways to distribute n items over successive update() calls"""
    if n == 0:
        return [(), (0,), (0, 0)]                 # no call, update() with no item, twice
    if n <= limit:
        out = []
        for cuts in all_compositions(n):
            out.append(tuple(b - a for a, b in parts_of(n, cuts)))
        return out
    return [(n,), (1,) * n, tuple([2] * (n // 2) + ([1] if n % 2 else []))]


def tuplehash_worker(shard):
    acc = Acc()
    kind, bits, thorough = shard
    rate = _TH[bits][1]
    dlen = 32 if bits == 128 else 64
    master = seeded("c09/tuplehash", 3 * rate + 8)
    ctr = 0
    if kind == "small":
        for custom in (b"", b"c09"):
            for L in range(0, (TH_SMALL_THOROUGH if thorough else 5) + 1):
                S = master[:L]
                vectors = [split_by(S, [b - a for a, b in parts_of(L, cuts)]) for cuts in all_compositions(L)] \
                    if L else [[]]
                extra = []
                for v in vectors:                 # one empty component inserted at every position
                    for pos in range(len(v) + 1):
                        extra.append(v[:pos] + [b""] + v[pos:])
                extra.append([b"", b""] + (vectors[0] if L else []))
                allv = []
                for v in vectors + extra:
                    if v not in allv:
                        allv.append(v)
                seen = {}
                for v in allv:
                    for groups in groupings(len(v)):
                        ctr += 1
                        kinds = tuple(KINDS[(ctr + i) % 5] for i in range(len(v)))
                        d = check_tuplehash(bits, dlen, custom, v, groups, kinds, acc)
                        acc.seen("shapes", hash(("th", bits, tuple(len(c) for c in v), groups)))
                    if d is not None:
                        if d in seen and seen[d] != v:
                            acc.violation("C09/TupleHash/split-not-distinguished",
                                          "TupleHash%d: tuples %s and %s (same concatenation) give the same digest"
                                          % (bits, short(seen[d]), short(v)),
                                          {"part": "tuplehash-distinct", "bits": bits, "dlen": dlen, "custom": custom,
                                           "vectors": [seen[d], v]})
                        seen[d] = v
                acc.seen("th_distinct", (bits, custom, L, len(seen) == len(allv)))
                if len(seen) != len(allv):
                    acc.count("th_collisions")
        acc.sample({"class": "TupleHash%d" % bits, "part": "all tuples (empty components included) over strings of 0..%d bytes, "
                    "all groupings into update(*items) calls" % (TH_SMALL_THOROUGH if thorough else 5)})
    else:
        lens = (0, 1, rate - 4, rate - 3, rate - 2, rate - 1, rate, rate + 1)
        for ncomp in (1, 2) + ((3,) if thorough else ()):
            ll = lens              # (3 components exist in the thorough tier only)
            for v in itertools.product(ll, repeat=ncomp):
                vec = split_by(master, v)
                for groups in groupings(ncomp):
                    kas = itertools.product(KINDS, repeat=ncomp) if ncomp <= 2 else \
                        [tuple(KINDS[(r + i) % 5] for i in range(ncomp)) for r in range(5)]
                    for kinds in kas:
                        check_tuplehash(bits, dlen, b"", vec, groups, tuple(kinds), acc)
                    acc.seen("shapes", hash(("th", bits, v, groups)))
        acc.sample({"class": "TupleHash%d" % bits, "part": "tuples of <= %d components with lengths in %s"
                    % (3 if thorough else 2, list(lens))})
    return acc


# ---------------------------------------------------------------------------
def selftests(ctx):
    from ..ref import aes, des, blowfish, rc4, chacha, modes, keccak, md
    for m in (aes, des, blowfish, rc4, chacha, modes, keccak, md):
        try:
            r = m.selftest()
            if r is False:
                ctx.acc.error("reference %s selftest failed" % m.__name__)
        except Exception as e:  # noqa
            ctx.acc.error("reference %s selftest raised %r" % (m.__name__, e))


# seconds per shard measured once on the thorough grid; used for scheduling (heaviest first) only
_COST = {
    "aead/CCM all0": 3.5, "aead/CCM all1": 3.0, "aead/CCM joint": 1.7, "aead/CCM sweep0": 2.3, "aead/CCM sweep1": 5.7,
    "aead/CCM values": 1.4, "aead/CHAPOLY all0": 3.7, "aead/CHAPOLY all1": 6.7, "aead/CHAPOLY joint": 3.2,
    "aead/CHAPOLY sweep1": 4.8, "aead/CHAPOLY values": 1.2, "aead/EAX all0": 7.5, "aead/EAX all1": 9.2,
    "aead/EAX joint": 3.5, "aead/EAX sweep0": 0.9, "aead/EAX sweep1": 21.6, "aead/EAX values": 3.3,
    "aead/EAX/8 all0": 15.2, "aead/EAX/8 all1": 16.8, "aead/EAX/8 joint": 6.8, "aead/EAX/8 sweep0": 1.7,
    "aead/EAX/8 sweep1": 39.3, "aead/EAX/8 values": 6.1, "aead/GCM all0": 4.2, "aead/GCM all1": 6.0,
    "aead/GCM joint": 1.9, "aead/GCM sweep0": 0.4, "aead/GCM sweep1": 11.5, "aead/GCM values": 1.8,
    "aead/OCB all0": 4.1, "aead/OCB all1": 4.2, "aead/OCB sweep0": 1.2, "aead/OCB sweep1": 1.2, "aead/OCB values": 0.6,
    "blk/CBC all0": 3.4, "blk/CBC sweep0": 1.3, "blk/CFB all0": 4.0, "blk/CFB sweep0": 1.5, "blk/CTR all0": 4.7,
    "blk/CTR sweep0": 3.0, "blk/CTR values": 0.8, "blk/ECB all0": 3.2, "blk/ECB sweep0": 1.2, "blk/OFB all0": 3.3,
    "blk/OFB sweep0": 1.3, "blk/OPENPGP all0": 2.6, "hash all0": 2.2, "hash sweep0": 0.6, "mac all0": 3.7,
    "mac sweep0": 1.7, "stream/ARC4 all0": 2.1, "stream/ChaCha20 all0": 2.9, "stream/ChaCha20 sweep0": 1.9,
    "stream/Salsa20 all0": 3.0, "stream/Salsa20 sweep0": 1.8, "xof all0": 1.9, "xof all1": 1.0, "xof sweep0": 0.5,
    "xof/K12 all0": 3.8, "xof/K12 all1": 2.4, "xof/K12 sweep0": 3.1,
}


def _cost_rank(sh):
    spec, part = sh[0], sh[4]
    f = spec[0]
    if f == "aead":
        f = "aead/%s%s" % (spec[1], "/8" if spec[2] in ("DES3", "Blowfish") else "")
    elif f == "blk":
        f = "blk/%s" % spec[3]
    elif f == "stream":
        f = "stream/%s" % spec[1]
    elif f == "xof" and spec[1] == "KangarooTwelve":
        f = "xof/K12"
    w = _COST.get("%s %s" % (f, part.split(":")[0]), 0.3)
    if part.startswith("sweep") and ":" in part:
        w *= (int(part.split(":")[1]) + 2) ** 2.5 / 4100.0       # one length of the sweep: grows with the number of cuts
    return -w


def shards_for(thorough):
    out = []
    for spec, primary in TG.all_specs(thorough):
        T = target(spec, thorough)
        full = thorough or primary
        ns = len(T.streams)
        out.append((spec, full, thorough, T.dirs[0], "ref"))
        for dirn in T.dirs:
            for s in range(ns):
                if thorough and spec[0] == "aead" and s == ns - 1:
                    for i in range(len(T.streams[s].lens)):
                        out.append((spec, full, thorough, dirn, "sweep%d:%d" % (s, i)))
                else:
                    out.append((spec, full, thorough, dirn, "sweep%d" % s))
                out.append((spec, full, thorough, dirn, "all%d" % s))
            if ns == 2 and thorough:
                for i in range(len(T.streams[0].joint)):
                    out.append((spec, full, thorough, dirn, "joint:%d" % i))
            elif ns == 2:
                out.append((spec, full, thorough, dirn, "joint"))
            if full:
                out.append((spec, full, thorough, dirn, "values"))
            out.append((spec, full, thorough, dirn, "romut"))
    return out


def run(ctx):
    thorough = not ctx.quick
    selftests(ctx)
    if ctx.acc.errors:
        return
    specs = TG.all_specs(thorough)
    shards = shards_for(thorough)
    # heavy shards first so that the pool drains evenly
    order = {"joint": 0, "sweep": 1, "all": 2, "values": 3, "ref": 4, "romut": 5}
    if thorough:
        shards.sort(key=_cost_rank)
    else:
        shards.sort(key=lambda sh: (order[sh[4].rstrip("0123456789")], 0 if sh[0][0] in ("aead", "xof") else 1))
    shards = [("plan",) + sh for sh in shards]
    vec = []
    for klen, wn in ((32, False), (32, True)) + (((48, True), (64, False)) if thorough else ()):
        vec.append(("siv", "small", klen, wn, thorough, 0))
        for ncomp in (0, 1):
            vec.append(("siv", "boundary", klen, wn, thorough, ncomp))
        for ncomp in (2,) + ((3,) if thorough else ()):
            for first in (1, 15, 16, 17, 32, 33):
                vec.append(("siv", "boundary", klen, wn, thorough, (ncomp, first)))
        if thorough:
            for first in SIV_LENS4:
                vec.append(("siv", "boundary", klen, wn, thorough, (4, first)))
    vec += [("th", k, bits, thorough) for k in ("small", "boundary") for bits in (128, 256)]
    # KangarooTwelve: EVERY cut of a message of 3 chunks + 1000 bytes (the chunk bookkeeping inside one update() call)
    K12L = 3 * 8192 + 1000
    for clen in ((0,) if not thorough else (0, 7)):
        for lo in range(0, K12L + 1, 512):
            vec.append(("k12dense", K12L, clen, lo, lo + 512))
    nshards = len(shards) + len(vec)
    ctx.pmap(worker, vec[::-1] + shards if thorough else shards[:64] + vec + shards[64:])

    a = ctx.acc
    d = a.distinct
    names = [target(spec, thorough).name for spec, _ in specs]
    ctx.require(len(set(names)) == len(names), "target names are not unique")
    missing = [n for n in names if a.n.get("_cases/" + n, 0) < 200]
    ctx.require(not missing, "classes with fewer than 200 non-trivial cases: %s" % missing[:5])
    ctx.require(set(d.get("input_shapes", ())) >= {"bytes", "bytearray", "romv", "rwmv", "rwmv+off", "len"},
                "not every input buffer shape was exercised: %s" % sorted(d.get("input_shapes", ())))
    ctx.require(set(d.get("output_shapes", ())) >= {"ret", "bytearray", "rwmv", "rwmv+off", "alias", "ctor"},
                "not every output style was exercised: %s" % sorted(d.get("output_shapes", ())))
    ctx.require(max(d.get("maxcalls", {0})) >= 6, "no call history with >= 6 calls")
    need_in = {"bytes", "bytearray", "romv", "rwmv", "rwmv+off"}
    need_out = {"ret", "bytearray", "rwmv", "rwmv+off", "alias"}
    for spec, _ in specs:
        T = target(spec, thorough)
        got_in = {k for n, k in d.get("class_in", ()) if n == T.name}
        got_out = {k for n, k in d.get("class_out", ()) if n == T.name}
        ctx.require(got_in >= need_in, "%s: input buffer shapes exercised %s" % (T.name, sorted(got_in)))
        if any(st.has_out for st in T.streams):
            ctx.require(got_out >= need_out, "%s: output styles exercised %s" % (T.name, sorted(got_out)))
        if T.ctor_stream is not None:
            ctx.require("ctor" in got_out, "%s: constructor data= never exercised" % T.name)
    noref = [n for n in names if n not in d.get("referenced", ())]
    noref = [n for n in noref if not (n.endswith("/ECB") and n.split("-")[0] in ("CAST", "ARC2"))]
    ctx.require(not noref, "classes never compared with an independent reference: %s" % noref[:6])
    ctx.require(a.n.get("reference_comparisons", 0) >= len(names), "too few reference comparisons")
    ctx.require(a.n.get("th_collisions", 0) == 0 or any(k.startswith("C09/TupleHash/split") for k in a.viol),
                "TupleHash collision bookkeeping inconsistent")
    ctx.require(len(d.get("siv_distinct_tags", ())) >= 4, "SIV distinctness groups missing")
    calls = {int(k.split("/")[1]): v for k, v in a.n.items() if k.startswith("_calls/")}
    if thorough:
        # the dimensions that only the thorough tier has were really walked
        ctx.require(max(calls or {0: 0}) >= ALL_UNITS_THOROUGH, "no call history with %d calls" % ALL_UNITS_THOROUGH)
        ctx.require(a.n.get("_combo_multi", 0) > 0, "combined last call after earlier encrypt()/decrypt() calls never exercised")
        for opt in ("nonce_len=", "mac_len=", "initial_value=", "counter=", "seek ", "drop ", "keylen "):
            ctx.require(any(opt in n and a.n.get("_cases/" + n, 0) >= 200 for n in names),
                        "no class configuration with option %r was exercised" % opt)
        ctx.require(len(names) >= 240, "thorough tier lost class configurations: %d" % len(names))
        ctx.require(a.n.get("_sweep_4part", 0) > 0, "no 4-part sweep was run")
        ctx.require(a.n.get("_joint_3part", 0) > 0, "no joint case with a stream in 3 parts was run")
    ctx.coverage_extra.update({
        "evaluations": a.n.get("evaluations", 0),
        "distinct_nontrivial": len(d.get("shapes", ())),
        "exhaustive": not a.caps,
        "classes": len(names) + 2,
        "shards": nshards,
        "nontrivial_cases_per_class": {n: a.n.get("_cases/" + n, 0) for n in names},
        "class_list": names + ["AES/SIV (vector AAD)", "TupleHash128/256 (vector input)"],
        "nontrivial_cases_checked_against_oracle_trace": a.n.get("nontrivial_cases", 0),
        "reference_comparisons": a.n.get("reference_comparisons", 0),
        "distinct_outcomes_per_base": "1 (every case equals its one-shot oracle, or is reported)",
        "input_buffer_shapes": sorted(d.get("input_shapes", ())),
        "output_styles": sorted(d.get("output_shapes", ())),
        "grid": {
            "lengths": "per stream: {0,1,c-1,c,c+1,2c-1,2c,2c+1} around the class's block/cache size c, plus "
                       "8 blocks+-1 (CTR keystream), 63..65/127..129 (ChaCha/Salsa), 8191..8193/16383..16385 "
                       "(+- customization suffix) for KangarooTwelve, MD padding boundary; ECB/CBC: 0,1,2,3,7,8,9 blocks" +
                       ("; thorough adds 3c,4c,8c +-1 (hashes, MACs), 3/4 rates +-1 (XOF input and output), 16 "
                        "blocks +-1 (CTR and the CTR inside GCM/CCM/EAX: two refills of the key stream), 4,8,16 blocks +-1 "
                        "(OCB: L-table index changes), 13,14,29,30 and 0xFF00-1..0xFF00+1 bytes of CCM AAD (cache fill "
                        "behind the 2-byte / 6-byte length encoding), 15,16,17,24 blocks (ECB/CBC), 191..193/255..257 "
                        "(ChaCha/Salsa); the exact sets are listed under thorough_only" if thorough else ""),
            "segmentations": "all compositions into <=%d parts with cuts in the boundary set (empty parts and 'no call' "
                             "included); all 2^(L-1) compositions for L<=%d units and of a %d-unit window straddling each "
                             "boundary%s; two streams jointly with <=2 parts each%s"
                             % ((4, ALL_UNITS_THOROUGH, ALL_UNITS_THOROUGH,
                                 " (%d-unit windows for the AEAD classes)" % ALL_WINDOW_AEAD_THOROUGH,
                                 ", and 3 parts of one stream x <=2 parts of the other (stream lengths 0,1,c-1,c,c+1,2c+1)")
                                if thorough else (3, 10, 10, "", "")),
            "buffer_types": "bytes, bytearray, read-only memoryview, writable memoryview, writable memoryview slice at "
                            "offset 3 of a larger bytearray: all assignments for <=2 segments, 5 rotations for 3 "
                            "(1 rotation on the reduced grid%s)" % (", for 4 segments and for the 3x2 joint cases"
                                                                    if thorough else ""),
            "outputs": "returned, output=bytearray, output=memoryview, output=memoryview slice at odd offset, "
                       "output is the input buffer, and a rotating mix; first segment via constructor data=; "
                       "last call as encrypt_and_digest/decrypt_and_verify" +
                       (" (also after earlier encrypt()/decrypt() calls for GCM, CCM, EAX, ChaCha20-Poly1305, which "
                        "document the argument as a piece of data)" if thorough else ""),
            "reduced_grid_classes_in_quick": [target(s, thorough).name for s, p in specs if not p] if ctx.quick else [],
        },
    })
    if thorough:
        deep = [target(sp, True).name for sp in TG.deep_specs()]
        ctx.coverage_extra["thorough_only"] = {
            "class_configurations_added": len(deep),
            "class_configurations_added_list": deep,
            "parameters_varied": "CTR: prefix length 0 / half block / block-1 / block-2, first counter value with carries "
                                 "inside and at the edge of the 8-block key stream batch, Util.Counter little and big "
                                 "endian with prefix and suffix (AES, 3DES); CFB: every segment size 8..block (AES, 3DES); "
                                 "AES-192/256 for OFB/CFB/OPENPGP, 2-key 3DES, Blowfish-448, CAST-40; ChaCha20/XChaCha20 "
                                 "positioned with seek() inside a block, at its edges and 65 bytes before the 2^32-block "
                                 "carry; ARC4 drop= and 5/256-byte keys; GCM nonce 1/12/16 bytes, tag 4/12, AES-192/256; "
                                 "EAX AES-192/256, nonce 1/16, tag 4; OCB AES-192/256, nonce 1/12/15, tag "
                                 "8/12, portable AES; CCM AES-192/256, nonce 7/12/13, tag 4/8, portable AES; BLAKE2 digest "
                                 "1/28/48 bytes and key 1/64 bytes; HMAC over 5 more digests and with keys of block size, "
                                 "block size + 1; CMAC over AES-192/256, DES, Blowfish, CAST, ARC2, truncated tags; KMAC "
                                 "tag 8/16/137/200 bytes; cSHAKE without and with a customization longer than the rate; "
                                 "TurboSHAKE domain 0x01/0x7F; KangarooTwelve customization of 1 and 8190 bytes",
            "stream_lengths_per_class": {
                target(sp, True).name: " | ".join("%s: %s" % (st.name, ",".join(str(x) for x in st.lens))
                                                 for st in target(sp, True).streams) for sp, _ in specs},
            "all_compositions_windows_per_class": {
                target(sp, True).name: " | ".join("%s: %s" % (st.name, ",".join(str(x) for x in st.win))
                                                 for st in target(sp, True).streams) for sp, _ in specs},
            "calls_per_history_histogram": {str(k): v for k, v in sorted(calls.items())},
            "sweep_cases_with_4_parts": a.n.get("_sweep_4part", 0),
            "joint_cases_with_a_stream_in_3_parts": a.n.get("_joint_3part", 0),
            "combined_last_call_after_earlier_calls": a.n.get("_combo_multi", 0),
            "siv": "AES-128/192/256 SIV with and without nonce: all compositions of 1..%d bytes into components; vectors "
                   "of 0..3 components with lengths in {1,15,16,17,32,33} and of 4 components with lengths in %s; "
                   "messages 0,1,15,16,17,33,127,128,129 bytes (0,1,16,17 for 4 components); both directions"
                   % (SIV_SMALL_THOROUGH, list(SIV_LENS4)),
            "tuplehash": "all tuples (empty components included) over strings of 0..%d bytes with all groupings into "
                         "update(*items) calls; tuples of <= 3 components with lengths in {0,1,rate-4..rate+1}"
                         % TH_SMALL_THOROUGH,
        }
    ctx.assume("data values: seeded SHAKE256 stream for every case; ascending (quick) and ascending/zero/0xFF (thorough) "
               "on the <=3-part sweeps only; keys, nonces and IVs are seeded constants per class")
    if thorough:
        ctx.assume("segmentations beyond the stated families (e.g. 5+ parts with far-apart cuts on long streams) are not enumerated")
        ctx.assume("streams longer than the listed lengths (8 blocks + 1 for hashes and MACs, 4 rates + 1 for XOFs, 16 blocks "
                   "+ 1 for CTR, 24 blocks for ECB/CBC, 16 blocks + 1 inside AEADs, 0xFF00 + 1 bytes of CCM AAD, 3 chunks + 1 "
                   "for K12) are not covered")
    else:
        ctx.assume("segmentations beyond the stated families (e.g. 4+ parts with far-apart cuts on long streams) are not enumerated")
        ctx.assume("streams longer than 2 cache blocks + 1 (3 in thorough; 16 blocks for CTR/ECB/CBC; 3 chunks for K12) are not covered")
    ctx.assume("overlapping-but-not-identical input/output buffers, non-contiguous or non-byte-format memoryviews are "
               "outside the documented interface and not exercised")
    ctx.assume("a read-only memoryview whose underlying storage the caller overwrites after the call is logged as an "
               "observation only (the property text does not speak about mutation after return)")
    ctx.assume("every caller-owned mutable buffer is overwritten right after the call that received it (buffer reuse)")


# ---------------------------------------------------------------------------
def _tuplify(x):
    if isinstance(x, list):
        return tuple(_tuplify(v) for v in x)
    return x


def replay(case, acc):
    part = case["part"]
    if "seed" in case:
        common.SEED = int(case["seed"])      # keys/nonces of the classes are seeded constants
        _TCACHE.clear()
    if part == "base":
        T = target(_tuplify(case["spec"]), bool(case["thorough"]))
        ins = [v if isinstance(v, int) else bytes(v) for v in case["inputs"]]
        base_from_inputs(T, case["dirn"], ins, acc)
    elif part == "plan":
        T = target(_tuplify(case["spec"]), bool(case["thorough"]))
        ins = [v if isinstance(v, int) else bytes(v) for v in case["inputs"]]
        b = base_from_inputs(T, case["dirn"], ins, acc)
        if b is None:
            return
        steps = tuple(tuple(s) for s in case["steps"])
        check_plan(b, (steps, bool(case["ctor"]), bool(case["combo"])), acc)
    elif part == "ref":
        T = target(_tuplify(case["spec"]), bool(case["thorough"]))
        ins = [v if isinstance(v, int) else bytes(v) for v in case["inputs"]]
        check_reference(T, None, acc, inputs=ins)
    elif part == "k12dense":
        k12_dense_case(case["L"], case["clen"], tuple(case["cuts"]), acc)
    elif part == "siv":
        check_siv(case["klen"], case["nonce"], [bytes(c) for c in case["comps"]], bytes(case["pt"]),
                  tuple(case["kinds"]), case["ptkind"], case["ostyle"], case["dirn"], acc)
    elif part == "siv-distinct":
        siv_distinct(case["klen"], case["nonce"], [[bytes(c) for c in v] for v in case["vectors"]],
                     bytes(case["pt"]), acc)
    elif part == "tuplehash":
        check_tuplehash(case["bits"], case["dlen"], bytes(case["custom"]), [bytes(c) for c in case["vector"]],
                        tuple(case["groups"]), tuple(case["kinds"]), acc)
    elif part == "tuplehash-distinct":
        seen = {}
        for v in case["vectors"]:
            v = [bytes(c) for c in v]
            d = check_tuplehash(case["bits"], case["dlen"], bytes(case["custom"]), v, (len(v),),
                                ("bytes",) * len(v), acc)
            if d in seen:
                acc.violation("C09/TupleHash/split-not-distinguished", "two tuples with the same concatenation collide", case)
            seen[d] = v
    else:
        acc.error("unknown replay part %r" % part)
