"""C18 targets: one small-range sampler call = (run(tape) -> outcome, documented outcome set, reference attempt)."""
import itertools

from . import _c18_tape as T
from ._c18_tape import Tape, BitTape, Reader, RefMore, REJ

BACKENDS = ("Native", "Custom", "GMP")


def backend(name):
    if name == "Native":
        from Crypto.Math._IntegerNative import IntegerNative as C
    elif name == "Custom":
        from Crypto.Math._IntegerCustom import IntegerCustom as C
    elif name == "GMP":
        from Crypto.Math._IntegerGMP import IntegerGMP as C
    else:
        raise ValueError(name)
    return C


class Target(object):
    tapecls = Tape
    ref = None          # ref(cont) -> (outcome | REJ, request sizes) for ONE attempt on the bytes of cont
    base_calls = 1      # requests a run needs at least (composite selections)
    size = 0


def _ref_wrap(fn):
    """fn(reader) -> outcome or None(rejected)   =>   ref(cont)"""
    def ref(cont):
        rd = Reader(b"".join(cont))
        try:
            v = fn(rd)
        except RefMore:
            return ("<ref needs more>", tuple(rd.sizes))
        if rd.pos != len(rd.data):
            return ("<ref leaves bytes>", tuple(rd.sizes))
        return (REJ if v is None else v, tuple(rd.sizes))
    return ref


class _Seam(object):
    """StrongRandom whose getrandbits is the choice point (bit-level tape)"""
    _cls = None

    @classmethod
    def make(cls, tape, bypass):
        if cls._cls is None:
            from Crypto.Random.random import StrongRandom

            class SeamRandom(StrongRandom):
                def getrandbits(self, k):
                    return self._tape(k)
            cls._cls = SeamRandom
        o = cls._cls(randfunc=bypass)
        o._tape = tape
        return o


BYPASS = [0]


def _bypass(n):
    BYPASS[0] += 1
    raise AssertionError("byte-level randfunc called below the getrandbits seam")


def _strong(variant):
    """-> factory(tape) -> object with the StrongRandom methods"""
    from Crypto.Random import random as RR
    if variant == "randfunc":
        return lambda t: RR.StrongRandom(randfunc=t)
    if variant == "rng":
        return lambda t: RR.StrongRandom(rng=t)
    if variant == "module":
        # the module-level functions are bound methods of Crypto.Random.random._r
        class _Mod(object):
            pass

        def f(t):
            RR._r._randfunc = t
            m = _Mod()
            m.getrandbits, m.randrange, m.randint = RR.getrandbits, RR.randrange, RR.randint
            m.choice, m.shuffle, m.sample = RR.choice, RR.shuffle, RR.sample
            return m
        return f
    if variant == "bit":
        return lambda t: _Seam.make(t, _bypass)
    raise ValueError(variant)


def make_target(spec):
    spec = tuple(spec)
    kind = spec[0]
    tg = Target()
    tg.spec = spec
    if kind == "irange":
        _, be, lo, nm, incl = spec
        cls = backend(be)
        hi = lo + nm
        kw = {"min_inclusive": lo}
        if incl:
            kw["max_inclusive"] = hi
        else:
            kw["max_exclusive"] = hi + 1
        tg.fam = "Integer.random_range"
        tg.name = "Integer%s.random_range(min_inclusive=%d, %s=%d, randfunc=tape)" % (
            be, lo, "max_inclusive" if incl else "max_exclusive", hi if incl else hi + 1)
        tg.run = lambda t: int(cls.random_range(randfunc=t, **kw))
        tg.domain = range(lo, hi + 1)

        def att(rd):
            c = T.ref_range_attempt(nm, rd)
            return None if c is None else lo + c
        tg.ref = _ref_wrap(att)
        tg.size = nm * 8 + BACKENDS.index(be)
    elif kind == "irandom":
        _, be, bits, exact = spec
        cls = backend(be)
        tg.fam = "Integer.random"
        tg.name = "Integer%s.random(%s=%d, randfunc=tape)" % (be, "exact_bits" if exact else "max_bits", bits)
        if exact:
            tg.run = lambda t: int(cls.random(exact_bits=bits, randfunc=t))
            tg.domain = range(1 << (bits - 1), 1 << bits)
        else:
            tg.run = lambda t: int(cls.random(max_bits=bits, randfunc=t))
            tg.domain = range(0, 1 << bits)
        tg.ref = _ref_wrap(lambda rd: T.ref_random(bits, exact, rd))
        tg.size = bits * 8 + BACKENDS.index(be)
    elif kind == "grb":
        _, variant, k = spec
        mk = _strong(variant)
        tg.fam = "StrongRandom.getrandbits"
        tg.name = "StrongRandom[%s].getrandbits(%d)" % (variant, k)
        tg.run = lambda t: mk(t).getrandbits(k)
        tg.domain = range(0, 1 << k)
        tg.ref = _ref_wrap(lambda rd: T.ref_getrandbits(k, rd))
        tg.size = k
    elif kind == "randrange":
        _, variant, start, stop, step = spec
        mk = _strong(variant)
        tg.fam = "StrongRandom.randrange"
        if step == 1 and start == 0:
            args = (stop,)
        elif step == 1:
            args = (start, stop)
        else:
            args = (start, stop, step)
        tg.name = "StrongRandom[%s].randrange(%s)" % (variant, ", ".join(map(str, args)))
        tg.run = lambda t: mk(t).randrange(*args)
        tg.domain = range(start, stop, step)
        n = len(tg.domain)
        if variant == "bit":
            tg.tapecls = BitTape
        elif n > 0:
            def att(rd):
                r = T.ref_randrange_attempt(n, rd)
                return None if r is None else start + step * r
            tg.ref = _ref_wrap(att)
        tg.size = n * 4 + abs(step)
    elif kind == "randint":
        _, variant, a, b = spec
        mk = _strong(variant)
        tg.fam = "StrongRandom.randint"
        tg.name = "StrongRandom[%s].randint(%d, %d)" % (variant, a, b)
        tg.run = lambda t: mk(t).randint(a, b)
        tg.domain = range(a, b + 1)
        n = b - a + 1

        def att(rd):
            r = T.ref_randrange_attempt(n, rd)
            return None if r is None else a + r
        tg.ref = _ref_wrap(att)
        tg.size = n * 4
    elif kind == "choice":
        _, variant, n = spec
        mk = _strong(variant)
        seq = [10 + 3 * i for i in range(n)]
        tg.fam = "StrongRandom.choice"
        tg.name = "StrongRandom[%s].choice(%r)" % (variant, seq)
        tg.run = lambda t: mk(t).choice(seq)
        tg.domain = seq
        if variant == "bit":
            tg.tapecls = BitTape
        else:
            def att(rd):
                r = T.ref_randrange_attempt(n, rd)
                return None if r is None else seq[r]
            tg.ref = _ref_wrap(att)
        tg.size = n
    elif kind == "gri":
        _, N = spec
        from Crypto.Util import number
        tg.fam = "number.getRandomInteger"
        tg.name = "Crypto.Util.number.getRandomInteger(%d, randfunc=tape)" % N
        tg.run = lambda t: number.getRandomInteger(N, t)
        tg.domain = range(0, 1 << N)
        tg.ref = _ref_wrap(lambda rd: T.ref_legacy_integer(N, rd))
        tg.size = N
    elif kind == "grn":
        _, N = spec
        from Crypto.Util import number
        tg.fam = "number.getRandomNBitInteger"
        tg.name = "Crypto.Util.number.getRandomNBitInteger(%d, randfunc=tape)" % N
        tg.run = lambda t: number.getRandomNBitInteger(N, t)
        tg.domain = range(1 << (N - 1), 1 << N)
        tg.ref = _ref_wrap(lambda rd: T.ref_legacy_integer(N - 1, rd) | (1 << (N - 1)))
        tg.size = N
    elif kind == "grr":
        _, a, b = spec
        from Crypto.Util import number
        tg.fam = "number.getRandomRange"
        tg.name = "Crypto.Util.number.getRandomRange(%d, %d, randfunc=tape)" % (a, b)
        tg.run = lambda t: number.getRandomRange(a, b, t)
        tg.domain = range(a, b)
        nm = b - a - 1

        def att(rd):
            v = T.ref_legacy_range_attempt(nm, rd)
            return None if v is None else a + v
        tg.ref = _ref_wrap(att)
        tg.size = (b - a) * 4
    elif kind == "shuffle":
        _, variant, n = spec
        mk = _strong(variant)
        tg.fam = "StrongRandom.shuffle"
        tg.name = "StrongRandom[%s].shuffle(list(range(%d)))" % (variant, n)

        def run(t):
            x = list(range(n))
            r = mk(t).shuffle(x)
            return tuple(x) if r is None else ("returned", repr(r))
        tg.run = run
        tg.domain = list(itertools.permutations(range(n)))
        tg.base_calls = max(0, n - 1)
        if variant == "bit":
            tg.tapecls = BitTape
        else:
            tg.full_ref = lambda rd: T.ref_shuffle(n, rd)
        tg.size = n
    elif kind == "sample":
        _, variant, n, k = spec
        mk = _strong(variant)
        pop = list(range(n))
        tg.fam = "StrongRandom.sample"
        tg.name = "StrongRandom[%s].sample(list(range(%d)), %d)" % (variant, n, k)
        tg.run = lambda t: tuple(mk(t).sample(pop, k))
        tg.domain = list(itertools.permutations(range(n), k))
        tg.base_calls = k
        if variant == "bit":
            tg.tapecls = BitTape
        else:
            tg.full_ref = lambda rd: T.ref_sample(n, k, rd)
        tg.size = n * 8 + k
    else:
        raise ValueError("unknown spec %r" % (spec,))
    tg.variant = spec[1] if isinstance(spec[1], str) else "randfunc"
    tg.size = tg.size * 4 + {"randfunc": 0, "rng": 1, "module": 2, "bit": 3}.get(tg.variant, 0)
    return tg


def restore_module_rng(saved=[None, False]):
    """save (first call) / restore the module-level StrongRandom's entropy source"""
    from Crypto.Random import random as RR
    if not saved[1]:
        saved[0], saved[1] = RR._r._randfunc, True
    else:
        RR._r._randfunc = saved[0]
