"""C18 targets: one small-range sampler call = (run(tape) -> outcome, documented outcome set, reference attempt)."""
import itertools

from . import _c18_tape as T
from ._c18_tape import Tape, BitTape, Reader, RefMore, REJ

BACKENDS = ("Native", "Custom", "GMP")


def backend(name):
    if name == "Native":
        from Crypto.Math._IntegerNative import IntegerNative as C
    elif name == "Custom":
        from Crypto.Math._IntegerCustom import IntegerCustom as C
    elif name == "GMP":
        from Crypto.Math._IntegerGMP import IntegerGMP as C
    else:
        raise ValueError(name)
    return C


class Target(object):
    tapecls = Tape
    ref = None          # ref(cont) -> (outcome | REJ, request sizes) for ONE attempt on the bytes of cont
    base_calls = 1      # requests a run needs at least (composite selections)
    size = 0
    notes = None        # list of texts logged as observations (facts outside the property, e.g. a primality verdict)


def _ref_wrap(fn):
    """fn(reader) -> outcome or None(rejected)   =>   ref(cont)"""
    def ref(cont):
        rd = Reader(b"".join(cont))
        try:
            v = fn(rd)
        except RefMore:
            return ("<ref needs more>", tuple(rd.sizes))
        if rd.pos != len(rd.data):
            return ("<ref leaves bytes>", tuple(rd.sizes))
        return (REJ if v is None else v, tuple(rd.sizes))
    return ref


class _Seam(object):
    """StrongRandom whose getrandbits is the choice point (bit-level tape)"""
    _cls = None

    @classmethod
    def make(cls, tape, bypass):
        if cls._cls is None:
            from Crypto.Random.random import StrongRandom

            class SeamRandom(StrongRandom):
                def getrandbits(self, k):
                    return self._tape(k)
            cls._cls = SeamRandom
        o = cls._cls(randfunc=bypass)
        o._tape = tape
        return o


BYPASS = [0]


def _bypass(n):
    BYPASS[0] += 1
    raise AssertionError("byte-level randfunc called below the getrandbits seam")


def _strong(variant):
    """-> factory(tape) -> object with the StrongRandom methods"""
    from Crypto.Random import random as RR
    if variant == "randfunc":
        return lambda t: RR.StrongRandom(randfunc=t)
    if variant == "rng":
        return lambda t: RR.StrongRandom(rng=t)
    if variant == "module":
        # the module-level functions are bound methods of Crypto.Random.random._r
        class _Mod(object):
            pass

        def f(t):
            RR._r._randfunc = t
            m = _Mod()
            m.getrandbits, m.randrange, m.randint = RR.getrandbits, RR.randrange, RR.randint
            m.choice, m.shuffle, m.sample = RR.choice, RR.shuffle, RR.sample
            return m
        return f
    if variant == "bit":
        return lambda t: _Seam.make(t, _bypass)
    raise ValueError(variant)


class _RangeSpy(object):
    """While active, records the result of every IntegerBase.random_range call (behaviour unchanged).
    Installed per run: NeedMore/Diverged leave through __exit__, which restores the classmethod."""
    __slots__ = ("base", "orig", "seen")

    def __enter__(self):
        from Crypto.Math import _IntegerBase as IB
        self.base = IB.IntegerBase
        self.orig = self.base.__dict__["random_range"]
        self.seen = seen = []
        f = self.orig.__func__

        def random_range(cls, **kw):
            r = f(cls, **kw)
            seen.append(int(r))
            return r
        self.base.random_range = classmethod(random_range)
        return self

    def __exit__(self, *a):
        self.base.random_range = self.orig
        return False


class _NumberSpy(object):
    """While active, records the results of Crypto.Util.number.<name> (looked up as a module global by its callers)."""
    __slots__ = ("mod", "names", "orig", "seen")

    def __init__(self, *names):
        self.names = names

    def __enter__(self):
        from Crypto.Util import number
        self.mod = number
        self.orig = {}
        self.seen = seen = []
        for name in self.names:
            f = self.orig[name] = getattr(number, name)
            setattr(number, name, self._wrap(name, f, seen))
        return self

    @staticmethod
    def _wrap(name, f, seen):
        def spy(*a, **kw):
            r = f(*a, **kw)
            seen.append((name, tuple(int(x) for x in a if isinstance(x, int)), int(r)))
            return r
        return spy

    def __exit__(self, *a):
        for name, f in self.orig.items():
            setattr(self.mod, name, f)
        return False


_PRIME_CACHE = {}


def is_prime(n):
    r = _PRIME_CACHE.get(n)
    if r is None:
        from ..ref import nt
        r = _PRIME_CACHE[n] = bool(nt.is_prime(n))
    return r


def spp(n, base):
    from ..ref import nt
    return int(bool(nt.strong_probable_prime(n, base)))


# tiny RSA key (two 64-bit primes, k = 16 bytes) for the PKCS#1 v1.5 padding-octet trees
PS15_P = (1 << 63) + 12451
PS15_Q = (1 << 63) + 100000049
_PS15 = {}


def ps15_key():
    if not _PS15:
        from Crypto.PublicKey import RSA
        from ..ref import nt
        p, q = nt.next_prime(PS15_P), nt.next_prime(PS15_Q)
        n, e = p * q, 65537
        d = pow(e, -1, (p - 1) * (q - 1))
        _PS15.update(n=n, e=e, d=d, k=(n.bit_length() + 7) // 8, pub=RSA.construct((n, e)))
    return _PS15


def ps15_filler(kind, length):
    if kind == "01":
        return bytes([1]) * length
    if kind == "ff":
        return bytes([255]) * length
    if kind == "asc":
        return bytes(1 + (7 * i + 2) % 255 for i in range(length))
    raise ValueError(kind)


def make_target(spec):
    spec = tuple(spec)
    kind = spec[0]
    tg = Target()
    tg.spec = spec
    if kind == "irange":
        _, be, lo, nm, incl = spec
        cls = backend(be)
        hi = lo + nm
        kw = {"min_inclusive": lo}
        if incl == "obj":
            # the bounds are Integer objects of the caller, made once and passed to EVERY call (the library itself passes
            # Integer bounds, e.g. candidate - 2 in Miller-Rabin): they must not be consumed
            kw = {"min_inclusive": cls(lo), "max_inclusive": cls(hi)}
        elif incl:
            kw["max_inclusive"] = hi
        else:
            kw["max_exclusive"] = hi + 1
        tg.fam = "Integer.random_range"
        tg.name = "Integer%s.random_range(min_inclusive=%d, %s=%d, randfunc=tape)%s" % (
            be, lo, "max_inclusive" if incl else "max_exclusive", hi if incl else hi + 1,
            " with the same two Integer objects as bounds in every call" if incl == "obj" else "")
        if incl == "obj":
            def run(t):
                v = int(cls.random_range(randfunc=t, **kw))
                if int(kw["min_inclusive"]) != lo or int(kw["max_inclusive"]) != hi:
                    return hi + 10 ** 6 + int(kw["max_inclusive"])       # outside the domain: the caller's bound object was changed
                return v
            tg.run = run
        else:
            tg.run = lambda t: int(cls.random_range(randfunc=t, **kw))
        tg.domain = range(lo, hi + 1)

        def att(rd):
            c = T.ref_range_attempt(nm, rd)
            return None if c is None else lo + c
        tg.ref = _ref_wrap(att)
        tg.size = nm * 8 + BACKENDS.index(be)
    elif kind == "irandom":
        _, be, bits, exact = spec
        cls = backend(be)
        tg.fam = "Integer.random"
        tg.name = "Integer%s.random(%s=%d, randfunc=tape)" % (be, "exact_bits" if exact else "max_bits", bits)
        if exact:
            tg.run = lambda t: int(cls.random(exact_bits=bits, randfunc=t))
            tg.domain = range(1 << (bits - 1), 1 << bits)
        else:
            tg.run = lambda t: int(cls.random(max_bits=bits, randfunc=t))
            tg.domain = range(0, 1 << bits)
        tg.ref = _ref_wrap(lambda rd: T.ref_random(bits, exact, rd))
        tg.size = bits * 8 + BACKENDS.index(be)
    elif kind == "grb":
        _, variant, k = spec
        mk = _strong(variant)
        tg.fam = "StrongRandom.getrandbits"
        tg.name = "StrongRandom[%s].getrandbits(%d)" % (variant, k)
        tg.run = lambda t: mk(t).getrandbits(k)
        tg.domain = range(0, 1 << k)
        tg.ref = _ref_wrap(lambda rd: T.ref_getrandbits(k, rd))
        tg.size = k
    elif kind == "randrange":
        _, variant, start, stop, step = spec
        mk = _strong(variant)
        tg.fam = "StrongRandom.randrange"
        if step == 1 and start == 0:
            args = (stop,)
        elif step == 1:
            args = (start, stop)
        else:
            args = (start, stop, step)
        tg.name = "StrongRandom[%s].randrange(%s)" % (variant, ", ".join(map(str, args)))
        tg.run = lambda t: mk(t).randrange(*args)
        tg.domain = range(start, stop, step)
        n = len(tg.domain)
        if variant == "bit":
            tg.tapecls = BitTape
        elif n > 0:
            def att(rd):
                r = T.ref_randrange_attempt(n, rd)
                return None if r is None else start + step * r
            tg.ref = _ref_wrap(att)
        tg.size = n * 4 + abs(step)
    elif kind == "randint":
        _, variant, a, b = spec
        mk = _strong(variant)
        tg.fam = "StrongRandom.randint"
        tg.name = "StrongRandom[%s].randint(%d, %d)" % (variant, a, b)
        tg.run = lambda t: mk(t).randint(a, b)
        tg.domain = range(a, b + 1)
        n = b - a + 1

        def att(rd):
            r = T.ref_randrange_attempt(n, rd)
            return None if r is None else a + r
        tg.ref = _ref_wrap(att)
        tg.size = n * 4
    elif kind == "choice":
        _, variant, n = spec
        mk = _strong(variant)
        seq = [10 + 3 * i for i in range(n)]
        tg.fam = "StrongRandom.choice"
        tg.name = "StrongRandom[%s].choice(%r)" % (variant, seq)
        tg.run = lambda t: mk(t).choice(seq)
        tg.domain = seq
        if variant == "bit":
            tg.tapecls = BitTape
        else:
            def att(rd):
                r = T.ref_randrange_attempt(n, rd)
                return None if r is None else seq[r]
            tg.ref = _ref_wrap(att)
        tg.size = n
    elif kind == "choice_t":
        # choice on other sequence types (indexing path): tuple, str, bytes, range
        _, variant, n, ptype = spec
        mk = _strong(variant)
        seq = {"tuple": tuple(10 + 3 * i for i in range(n)), "str": "abcdefghijklmnopqrstuvwxyz"[:n],
               "bytes": bytes(range(65, 65 + n)), "range": range(5, 5 + 2 * n, 2)}[ptype]
        tg.fam = "StrongRandom.choice"
        tg.name = "StrongRandom[%s].choice(%r)" % (variant, seq)
        tg.run = lambda t: mk(t).choice(seq)
        tg.domain = list(seq)

        def att(rd):
            r = T.ref_randrange_attempt(n, rd)
            return None if r is None else seq[r]
        tg.ref = _ref_wrap(att)
        tg.size = n * 8 + 1
    elif kind == "sample_t":
        _, variant, n, k, ptype = spec
        mk = _strong(variant)
        pop = {"tuple": tuple(range(n)), "str": "abcdefghijklmnopqrstuvwxyz"[:n], "range": range(n),
               # elements that are EQUAL (and hash alike) yet distinguishable: a selection is one of positions, not of values
               "eqval": [1, 1.0, 2, 2.0, True][:n]}[ptype]
        tg.fam = "StrongRandom.sample"
        tg.name = "StrongRandom[%s].sample(%r, %d)" % (variant, pop, k)
        if ptype == "eqval":
            desc = lambda x: "%s:%r" % (type(x).__name__, x)                        # noqa: E731
            tg.run = lambda t: tuple(desc(x) for x in mk(t).sample(pop, k))
            tg.domain = list(itertools.permutations([desc(x) for x in pop], k))
        else:
            tg.run = lambda t: tuple(mk(t).sample(pop, k))
            tg.domain = list(itertools.permutations(list(pop), k))
        tg.base_calls = k
        if variant == "bit":
            tg.tapecls = BitTape
        tg.size = n * 8 + k + 1
    elif kind == "seq":
        # several calls on ONE StrongRandom object: the outcome tuple must be uniform on the product of the ranges
        _, variant, ops = spec
        mk = _strong(variant)
        doms = []
        for op in ops:
            if op[0] == "rr":
                doms.append(range(op[1]))
            elif op[0] == "ri":
                doms.append(range(op[1], op[2] + 1))
            elif op[0] == "ch":
                doms.append([10 + 3 * i for i in range(op[1])])
            elif op[0] == "grb":
                doms.append(range(1 << op[1]))
            else:
                raise ValueError(op)
        tg.fam = "StrongRandom.call-sequence"
        tg.name = "one StrongRandom[%s] object: %s" % (variant, ", ".join(
            {"rr": "randrange(%d)", "ri": "randint(%d, %d)", "ch": "choice(%d items)", "grb": "getrandbits(%d)"}[op[0]] % tuple(op[1:]) for op in ops))

        def run(t):
            o = mk(t)
            out = []
            for op, d in zip(ops, doms):
                if op[0] == "rr":
                    out.append(o.randrange(op[1]))
                elif op[0] == "ri":
                    out.append(o.randint(op[1], op[2]))
                elif op[0] == "ch":
                    out.append(o.choice(d))
                else:
                    out.append(o.getrandbits(op[1]))
            return tuple(out)
        tg.run = run
        tg.domain = list(itertools.product(*doms))
        tg.base_calls = len(ops)
        if variant == "bit":
            tg.tapecls = BitTape
        tg.size = sum(len(d) for d in doms) * 4 + len(ops)
    elif kind == "gri":
        _, N = spec
        from Crypto.Util import number
        tg.fam = "number.getRandomInteger"
        tg.name = "Crypto.Util.number.getRandomInteger(%d, randfunc=tape)" % N
        tg.run = lambda t: number.getRandomInteger(N, t)
        tg.domain = range(0, 1 << N)
        tg.ref = _ref_wrap(lambda rd: T.ref_legacy_integer(N, rd))
        tg.size = N
    elif kind == "grn":
        _, N = spec
        from Crypto.Util import number
        tg.fam = "number.getRandomNBitInteger"
        tg.name = "Crypto.Util.number.getRandomNBitInteger(%d, randfunc=tape)" % N
        tg.run = lambda t: number.getRandomNBitInteger(N, t)
        tg.domain = range(1 << (N - 1), 1 << N)
        tg.ref = _ref_wrap(lambda rd: T.ref_legacy_integer(N - 1, rd) | (1 << (N - 1)))
        tg.size = N
    elif kind == "grr":
        _, a, b = spec
        from Crypto.Util import number
        tg.fam = "number.getRandomRange"
        tg.name = "Crypto.Util.number.getRandomRange(%d, %d, randfunc=tape)" % (a, b)
        tg.run = lambda t: number.getRandomRange(a, b, t)
        tg.domain = range(a, b)
        nm = b - a - 1

        def att(rd):
            v = T.ref_legacy_range_attempt(nm, rd)
            return None if v is None else a + v
        tg.ref = _ref_wrap(att)
        tg.size = (b - a) * 4
    elif kind == "shuffle":
        _, variant, n = spec
        mk = _strong(variant)
        tg.fam = "StrongRandom.shuffle"
        tg.name = "StrongRandom[%s].shuffle(list(range(%d)))" % (variant, n)

        def run(t):
            x = list(range(n))
            r = mk(t).shuffle(x)
            return tuple(x) if r is None else ("returned", repr(r))
        tg.run = run
        tg.domain = list(itertools.permutations(range(n)))
        tg.base_calls = max(0, n - 1)
        if variant == "bit":
            tg.tapecls = BitTape
        else:
            tg.full_ref = lambda rd: T.ref_shuffle(n, rd)
        tg.size = n
    elif kind == "sample":
        _, variant, n, k = spec
        mk = _strong(variant)
        pop = list(range(n))
        tg.fam = "StrongRandom.sample"
        tg.name = "StrongRandom[%s].sample(list(range(%d)), %d)" % (variant, n, k)
        tg.run = lambda t: tuple(mk(t).sample(pop, k))
        tg.domain = list(itertools.permutations(range(n), k))
        tg.base_calls = k
        if variant == "bit":
            tg.tapecls = BitTape
        else:
            tg.full_ref = lambda rd: T.ref_sample(n, k, rd)
        tg.size = n * 8 + k
    elif kind == "mr":
        # Crypto.Math.Primality.miller_rabin_test: the bases are drawn with Integer.random_range(2, n-2)
        _, n, k = spec
        from Crypto.Math import Primality
        tg.fam = "Primality.miller_rabin_test"
        tg.name = "Crypto.Math.Primality.miller_rabin_test(%d, %d, randfunc=tape) -> bases drawn" % (n, k)
        prime = is_prime(n)
        if not prime and k != 1:
            raise ValueError("composite candidates only with one iteration (early exit makes the outcome set non-uniform)")
        tg.notes = notes = []
        verdicts = {}

        def run(t):
            with _RangeSpy() as spy:
                r = Primality.miller_rabin_test(n, k, randfunc=t)
            bases = tuple(spy.seen)
            # the verdict is not part of C18: a disagreement with the reference test is logged, never a violation
            exp = verdicts.get(bases)
            if exp is None:
                exp = verdicts[bases] = 1 if prime else min([spp(n, b) for b in bases if 0 < b < n] or [0])
            if int(r) != exp and not notes:
                notes.append("Primality.miller_rabin_test(%d, %d) with bases %r returns %r, the reference strong-probable-prime "
                             "test says %r" % (n, k, bases, int(r), exp))
            return bases
        tg.run = run
        tg.domain = list(itertools.product(range(2, n - 1), repeat=k))
        per = 1 if (n - 4).bit_length() <= 8 else 2
        tg.base_calls = k * per
        if k == 1:
            def att(rd):
                c = T.ref_range_attempt(n - 4, rd)
                return None if c is None else (2 + c,)
            tg.ref = _ref_wrap(att)
        else:
            tg.full_ref = lambda rd: tuple(T.ref_random_range(2, n - 2, rd) for _ in range(k))
        tg.size = n * 8 + k
    elif kind == "rmt":
        # Crypto.Util.number._rabinMillerTest: distinct bases drawn with getRandomRange(2, n)
        _, n, k = spec
        from Crypto.Util import number
        tg.fam = "number._rabinMillerTest"
        tg.name = "Crypto.Util.number._rabinMillerTest(%d, %d, randfunc=tape) -> distinct bases drawn" % (n, k)
        rounds = min(k, n - 2)
        prime = is_prime(n)
        if not prime and k != 1:
            raise ValueError("composite candidates only with one round")
        tg.notes = notes = []
        verdicts = {}

        def run(t):
            with _NumberSpy("getRandomRange") as spy:
                r = number._rabinMillerTest(n, k, t)
            kept = []                     # the bases that were kept (a repeated base is drawn again by the library)
            for x in spy.seen:
                if x[2] not in kept:
                    kept.append(x[2])
            kept = tuple(kept)
            exp = verdicts.get(kept)
            if exp is None:
                exp = verdicts[kept] = 1 if prime else min([spp(n, b) for b in kept if 0 < b < n] or [0])
            if int(r) != exp and not notes:
                notes.append("number._rabinMillerTest(%d, %d) with bases %r returns %r, the reference strong-probable-prime test "
                             "says %r" % (n, k, kept, int(r), exp))
            return kept
        tg.run = run
        tg.domain = list(itertools.permutations(range(2, n), rounds))
        bits = (n - 3).bit_length()
        per = 0 if bits == 0 else (1 if bits <= 8 else 2)
        tg.base_calls = rounds * per
        if k == 1 and bits:
            def att(rd):
                v = T.ref_legacy_range_attempt(n - 3, rd)
                return None if v is None else (2 + v,)
            tg.ref = _ref_wrap(att)
        tg.size = n * 8 + k
    elif kind == "getprime":
        _, N = spec
        from Crypto.Util import number
        tg.fam = "number.getPrime"
        tg.name = "Crypto.Util.number.getPrime(%d, randfunc=tape)" % N
        tg.run = lambda t: int(number.getPrime(N, t))
        # getRandomNBitInteger(N) | 1 is odd: the 2-bit prime 2 cannot be produced (logged as an observation by the driver)
        tg.domain = [p for p in range((1 << (N - 1)) | 1, 1 << N, 2) if is_prime(p)]

        def att(rd):
            v = T.ref_legacy_integer(N - 1, rd) | (1 << (N - 1)) | 1
            return v if is_prime(v) else None
        tg.ref = _ref_wrap(att)
        tg.size = N
    elif kind == "ps15":
        # PKCS#1 v1.5 encryption: the padding string PS consists of non-zero octets drawn one by one (zero octets are
        # drawn again).  The octets at positions pos..pos+nfree-1 come from the tape, all others from a fixed filler.
        _, pos, nfree, mlen, fill = spec
        from Crypto.Cipher import PKCS1_v1_5
        K = ps15_key()
        k, n, d = K["k"], K["n"], K["d"]
        pslen = k - mlen - 3
        if not (0 <= pos and pos + nfree <= pslen and pslen >= 8):
            raise ValueError(spec)
        filler = ps15_filler(fill, pslen)
        msg = bytes(0x61 + i for i in range(mlen))
        tg.fam = "PKCS1_v1_5.padding-octets"
        tg.name = ("PKCS1_v1_5.new(128-bit key, randfunc=...).encrypt(%d-byte message): padding octet%s %s of %d from the tape, "
                   "the others fixed (%s)" % (mlen, "s" if nfree > 1 else "", "..".join(map(str, sorted(set((pos, pos + nfree - 1))))), pslen, fill))

        def run(t):
            st = [0, 0]                               # non-zero octets handed out so far == position in PS; requests

            def rf(nbytes):
                if nbytes != 1:
                    return ("unexpected request", nbytes)          # makes the library fail visibly
                st[1] += 1
                if st[1] > 8 * pslen + 64:
                    raise RuntimeError("the padding loop does not terminate on non-zero octets")
                i = st[0]
                if pos <= i < pos + nfree:
                    b = t(1)
                else:
                    b = filler[i:i + 1] if i < pslen else b"\xa5"
                if b != b"\x00":
                    st[0] = i + 1
                return b
            ct = PKCS1_v1_5.new(K["pub"], randfunc=rf).encrypt(msg)
            em = pow(int.from_bytes(ct, "big"), d, n).to_bytes(k, "big")
            ps = em[2:2 + pslen]
            if len(ct) != k or em[:2] != b"\x00\x02" or em[2 + pslen:] != b"\x00" + msg:
                return ("malformed encryption block", em.hex())
            if ps[:pos] != filler[:pos] or ps[pos + nfree:] != filler[pos + nfree:]:
                return ("fixed padding octets changed", em.hex())
            return ps[pos] if nfree == 1 else tuple(ps[pos:pos + nfree])
        tg.run = run
        if nfree == 1:
            tg.domain = range(1, 256)
            tg.ref = _ref_wrap(lambda rd: (rd(1)[0] or None))
        else:
            tg.domain = list(itertools.product(range(1, 256), repeat=nfree))

            def full(rd):
                out = []
                while len(out) < nfree:
                    b = rd(1)[0]
                    if b:
                        out.append(b)
                return tuple(out)
            tg.full_ref = full
        tg.base_calls = nfree
        tg.size = pos * 8 + nfree + mlen
    else:
        raise ValueError("unknown spec %r" % (spec,))
    tg.variant = spec[1] if isinstance(spec[1], str) else "randfunc"
    tg.size = tg.size * 4 + {"randfunc": 0, "rng": 1, "module": 2, "bit": 3}.get(tg.variant, 0)
    return tg


def restore_module_rng(saved=[None, False]):
    """save (first call) / restore the module-level StrongRandom's entropy source"""
    from Crypto.Random import random as RR
    if not saved[1]:
        saved[0], saved[1] = RR._r._randfunc, True
    else:
        RR._r._randfunc = saved[0]
