"""C04 part DSS: DSA and ECDSA (FIPS 186 with a tape-driven nonce, RFC 6979 deterministic), binary and DER encodings.

References: mc.ref.dsa (FIPS 186-4 4.6/4.7, RFC 6979), mc.ref.ec (ECDSA, RFC 6979), mc.ref.der (strict DER).

Thorough tier only: six more boundary private keys per domain / curve (BOUNDARY_T), octet sweeps (dss_octet_sweep: one octet of
the authentic signature takes every value), the extended tape set (fips_tapes(q, "ext")), and DSA domains outside the FIPS
(L, N) list (NONFIPS_LN, nonfips_case: observations only, DSS.new documents the four pairs as a precondition).
"""
import hashlib

from ..common import Acc, exc_site, short, seeded_int
from ..ref import dsa as RD
from ..ref import ec as REC
from ..ref import der as D
from ..ref import nt
from . import _c04_base as B

MODE = {"det": "deterministic-rfc6979", "fips": "fips-186-3"}
CURVES = ("p192", "p224", "p256", "p384", "p521")
DSA_FIXT = (("dsa1024_160", 1024, 160), ("dsa2048_224", 2048, 224), ("dsa3072_256", 3072, 256))

# thorough tier only (observations, never judged): DSA domains outside the four FIPS 186-4 (L, N) pairs.  DSS.new documents the
# four pairs as a precondition but enforces them in mode 'fips-186-3' only; N = 159..168 walks through every N mod 8
NONFIPS_LN = ((1024, 159), (1024, 161), (1024, 162), (1024, 163), (1024, 164), (1024, 165), (1024, 166), (1024, 167), (1024, 168),
              (512, 160))

_KEYS = None
_THOROUGH_KEYS = False
_LIB = {}
_REFQ = {}
_VCACHE = {}


# ---------------------------------------------------------------------------
# keys
# ---------------------------------------------------------------------------
def _fixed_int(label, bits):
    """seed-independent integer with exactly `bits` bits"""
    v = int.from_bytes(hashlib.shake_256(b"verif|c04|" + label.encode()).digest((bits + 7) // 8), "big")
    return (v >> ((-bits) % 8)) | (1 << (bits - 1))


def gen_dsa_domain(L, N, label):
    """FIPS 186-4 A.1-shaped domain found by deterministic search (primality: mc.ref.nt.is_prime)"""
    q = nt.next_prime(_fixed_int(label + "/q", N))
    k = (_fixed_int(label + "/p", L) - 1) // q
    k += k & 1
    while True:
        p = k * q + 1
        if p.bit_length() == L and nt.is_prime(p):
            break
        k += 2
    h = 2
    while pow(h, (p - 1) // q, p) <= 1:
        h += 1
    return p, q, pow(h, (p - 1) // q, p)


def build_keys(acc, thorough=False):
    global _KEYS, _THOROUGH_KEYS
    if _KEYS is not None and (_THOROUGH_KEYS or not thorough):
        return _KEYS
    from ..keys import dsa_components
    ks = {}
    for name, L, N in DSA_FIXT:
        c = dsa_components(L, N)
        ks[name] = {"kind": "dsa", "name": name, "p": c["p"], "q": c["q"], "g": c["g"], "x": c["x"], "y": c["y"]}
    p, q, g = gen_dsa_domain(2048, 256, "dsa-2048-256")
    x = 1 + seeded_int("c04/dsa2048_256/x", 320) % (q - 1)
    ks["dsa2048_256"] = {"kind": "dsa", "name": "dsa2048_256", "p": p, "q": q, "g": g, "x": x, "y": pow(g, x, p)}
    for name, kd in list(ks.items()):
        bad = RD.dsa_check_key(kd["p"], kd["q"], kd["g"], kd["y"], kd["x"], fips_sizes=True)
        if bad:
            acc.error("DSA key %s fails the reference check: %s" % (name, bad))
        # second key in the same domain ("other key")
        x2 = 1 + seeded_int("c04/%s/x2" % name, kd["q"].bit_length() + 64) % (kd["q"] - 1)
        ks[name + "/2"] = dict(kd, name=name + "/2", x=x2, y=pow(kd["g"], x2, kd["p"]))
    for cn in CURVES:
        n = REC.CURVES[cn].order
        for suffix in ("", "/2"):
            d = 1 + seeded_int("c04/%s/d%s" % (cn, suffix), n.bit_length() + 64) % (n - 1)
            ks[cn + suffix] = {"kind": "ec", "name": cn + suffix, "curve": cn, "d": d}
    # boundary private keys 1, 2, order-2, order-1 of every domain / curve (public keys g, g^2, g^-2, g^-1 resp. G, 2G, -2G, -G:
    # the points closest to the shortcuts of the group arithmetic).  Their "other key" is the key with the negated
    # public point, and their public half is rebuilt from the reference's numbers instead of taken from the key object.
    for base in [n for n, _, _ in DSA_FIXT] + ["dsa2048_256"] + list(CURVES):
        kd = ks[base]
        q = order(kd)
        pairs = (("1", 1, "q-1"), ("2", 2, "q-2"), ("q-2", q - 2, "2"), ("q-1", q - 1, "1"))
        for tag, val, partner in pairs:
            name = "%s/x=%s" % (base, tag)
            if kd["kind"] == "dsa":
                ks[name] = dict(kd, name=name, x=val, y=pow(kd["g"], val, kd["p"]), boundary=True)
            else:
                ks[name] = {"kind": "ec", "name": name, "curve": kd["curve"], "d": val, "boundary": True, "pubxy": True}
        for tag, val, partner in pairs:
            ks["%s/x=%s/2" % (base, tag)] = ks["%s/x=%s" % (base, partner)]
        if thorough:
            # more scalars next to the shortcuts of the scalar multiplication: 3, only the top bit, the two halves of the
            # order, and their negatives (each one's "other key" is the key with the negated public point)
            n1 = 1 << (q.bit_length() - 1)
            pairs = (("3", 3, "q-3"), ("q-3", q - 3, "3"), ("2^(n-1)", n1, "q-2^(n-1)"), ("q-2^(n-1)", q - n1, "2^(n-1)"),
                     ("(q-1)/2", (q - 1) // 2, "(q+1)/2"), ("(q+1)/2", (q + 1) // 2, "(q-1)/2"))
            for tag, val, partner in pairs:
                name = "%s/x=%s" % (base, tag)
                if kd["kind"] == "dsa":
                    ks[name] = dict(kd, name=name, x=val, y=pow(kd["g"], val, kd["p"]), boundary=True)
                else:
                    ks[name] = {"kind": "ec", "name": name, "curve": kd["curve"], "d": val, "boundary": True, "pubxy": True}
            for tag, val, partner in pairs:
                ks["%s/x=%s/2" % (base, tag)] = ks["%s/x=%s" % (base, partner)]
    if thorough:
        for L, N in NONFIPS_LN:
            name = "dsaX%d_%d" % (L, N)
            p, q, g = gen_dsa_domain(L, N, "dsa-nonfips-%d-%d" % (L, N))
            x = 1 + _fixed_int("dsa-nonfips-x-%d-%d" % (L, N), N + 64) % (q - 1)
            ks[name] = {"kind": "dsa", "name": name, "p": p, "q": q, "g": g, "x": x, "y": pow(g, x, p), "nonfips": True}
            bad = RD.dsa_check_key(p, q, g, ks[name]["y"], x, fips_sizes=False)
            if bad or q.bit_length() != N or p.bit_length() != L:
                acc.error("non-FIPS DSA domain %s fails the reference check: %s" % (name, bad))
    _KEYS = ks
    _THOROUGH_KEYS = bool(thorough)
    return ks


BOUNDARY = ("1", "2", "q-2", "q-1")
BOUNDARY_T = ("3", "q-3", "2^(n-1)", "q-2^(n-1)", "(q-1)/2", "(q+1)/2")      # thorough tier, in addition


def keymat(kd):
    return {k: v for k, v in kd.items() if k in ("kind", "name", "p", "q", "g", "x", "y", "curve", "d", "pubxy")}


def order(kd):
    return kd["q"] if kd["kind"] == "dsa" else REC.CURVES[kd["curve"]].order


def obytes(kd):
    return (order(kd).bit_length() + 7) // 8


def algo(kd):
    return "dsa" if kd["kind"] == "dsa" else "ecdsa"


def libkey(kd, private=True):
    ident = (kd["kind"], kd.get("curve"), kd.get("p"), kd.get("d"), kd.get("x"))
    ent = _LIB.get(ident)
    if ent is None:
        if kd["kind"] == "dsa":
            from Crypto.PublicKey import DSA
            key = DSA.construct((kd["y"], kd["g"], kd["p"], kd["q"], kd["x"]), consistency_check=True)
        else:
            from Crypto.PublicKey import ECC
            key = ECC.construct(curve=kd["curve"], d=kd["d"])
        pub = key.public_key()
        if kd.get("pubxy"):
            Q = ref_Q(kd)
            pub = ECC.construct(curve=kd["curve"], point_x=Q[0], point_y=Q[1])
        ent = _LIB[ident] = (key, pub)
    return ent[0] if private else ent[1]


def ref_Q(kd):
    ident = (kd["curve"], kd["d"])
    if ident not in _REFQ:
        c = REC.CURVES[kd["curve"]]
        _REFQ[ident] = REC.mul(c, kd["d"], c.G)
    return _REFQ[ident]


def ref_sign(kd, digest, k):
    if kd["kind"] == "dsa":
        return RD.dsa_sign(kd["p"], kd["q"], kd["g"], kd["x"], digest, k)
    return REC.ecdsa_sign(kd["curve"], kd["d"], digest, k)


def ref_det(kd, digest, hashname):
    """RFC 6979 -> (k, r, s)"""
    if kd["kind"] == "dsa":
        return RD.dsa_sign_deterministic(kd["p"], kd["q"], kd["g"], kd["x"], digest, hashname)
    c = REC.CURVES[kd["curve"]]
    for k in REC.rfc6979_gen(c.order, kd["d"], digest, hashname):
        try:
            r, s = REC.ecdsa_sign(c, kd["d"], digest, k)
        except ValueError:
            continue
        return k, r, s


def ref_verify(kd, digest, r, s):
    ident = (kd["kind"], kd.get("curve"), kd.get("p"), kd.get("d"), kd.get("x"), digest, r, s)
    v = _VCACHE.get(ident)
    if v is None:
        if kd["kind"] == "dsa":
            v = RD.dsa_verify(kd["p"], kd["q"], kd["g"], kd["y"], digest, r, s)
        else:
            v = REC.ecdsa_verify(kd["curve"], ref_Q(kd), digest, r, s)
        if len(_VCACHE) > 20000:
            _VCACHE.clear()
        _VCACHE[ident] = v
    return v


def model_k(q, tape):
    """FIPS 186-4 B.2.2 / B.5.2 'testing candidates' on the tape: c = returned_bits; if c > q-2 try again; k = c+1.
    The first octet of each draw is masked to the bits needed. -> (k, octets consumed, draws)"""
    bits = (q - 2).bit_length()
    nb = (bits - 1) // 8 + 1
    sig = 8 - (nb * 8 - bits)
    pos = draws = 0
    while True:
        if pos + nb > len(tape):
            raise B.TapeExhausted("model: tape exhausted")
        c = int.from_bytes(bytes([tape[pos] & ((1 << sig) - 1)]) + tape[pos + 1:pos + nb], "big")
        pos += nb
        draws += 1
        if c <= q - 2:
            return c + 1, pos, draws


def fips_accepts(kd, hn):
    return kd["kind"] == "dsa" or hn != "sha1"


def encode_sig(kd, enc, r, s):
    if enc == "binary":
        ob = obytes(kd)
        return r.to_bytes(ob, "big") + s.to_bytes(ob, "big")
    return D.encode_sequence([D.encode_integer(r), D.encode_integer(s)])


# ---------------------------------------------------------------------------
# sign
# ---------------------------------------------------------------------------
def _key_script(kd):
    if kd["kind"] == "dsa":
        return ("from Crypto.PublicKey import DSA\nkey = DSA.construct((%d, %d, %d, %d, %d))\n"
                % (kd["y"], kd["g"], kd["p"], kd["q"], kd["x"]))
    if kd.get("pubxy"):
        Q = ref_Q(kd)
        return ("from Crypto.PublicKey import ECC\n# public key of d = %d\nkey = ECC.construct(curve=%r, point_x=%d, point_y=%d)\n"
                % (kd["d"], kd["curve"], Q[0], Q[1]))
    return "from Crypto.PublicKey import ECC\nkey = ECC.construct(curve=%r, d=%d)\n" % (kd["curve"], kd["d"])


def dss_sign_case(kd, mode, enc, hn, msg, tape, acc):
    """-> (signature bytes, r, s) | None"""
    from Crypto.Signature import DSS
    q = order(kd)
    A = algo(kd)
    case = {"part": "dss-sign", "key": keymat(kd), "mode": mode, "enc": enc, "hn": hn, "msg": msg, "tape": tape}
    pre = "%s %s %s/%s/%s, %d-byte message%s" % (A, kd["name"], MODE[mode], enc, hn, len(msg),
                                                 "" if tape is None else ", tape " + short(tape))
    digest = B.ref_digest(hn, msg)
    h = B.libhash(hn, msg)
    acc.count("sign_calls")
    t = B.TapeBytes(tape) if mode == "fips" else None
    signer = DSS.new(libkey(kd), MODE[mode], enc, randfunc=t)
    try:
        out = B.lib_outcome(signer.sign, h)
    except B.TapeExhausted:
        acc.error("entropy tape too short for " + pre)
        return None
    if mode == "det":
        k, r, s = ref_det(kd, digest, B.HASHES[hn][4])
    else:
        k, used, draws = model_k(q, tape)
        if kd["kind"] == "dsa" and k == 1 and out[0] == "ValueError":
            acc.observe("DSA fips-186-3 sign raises ValueError when the nonce drawn is k = 1 (FIPS 186-4 allows 1 <= k <= q-1)")
            return None
        r, s = ref_sign(kd, digest, k)
    if out[0] in ("ValueError", "TypeError"):
        if mode == "det":
            acc.violation("C04/dss/%s/sign-refuses-a-defined-signature" % A,
                          pre + ": sign() raised %s (%s) although RFC 6979 defines the signature (r=%s, s=%s)"
                          % (out[0], out[1], short(r), short(s)), case)
        else:
            acc.observe("DSS sign refuses (%s: %s): %s %s/%s/%s" % (out[0], out[1], A, kd["name"], MODE[mode], hn))
        return None
    if out[0] != "accept":
        acc.violation("C04/dss/%s/sign-raises/%s@%s" % (A, out[0], exc_site(out[1])), pre + ": sign raised %s: %s" % (out[0], out[1]), case)
        return None
    acc.count("signatures_ok")
    sig = out[1]
    # the output must be a well-formed encoding
    try:
        if enc == "binary":
            if len(sig) != 2 * obytes(kd):
                raise ValueError("length %d" % len(sig))
            lr, ls = int.from_bytes(sig[:obytes(kd)], "big"), int.from_bytes(sig[obytes(kd):], "big")
        else:
            lr, ls = D.read_ecdsa_sig(sig)
    except ValueError as e:
        acc.violation("C04/dss/%s/signature-not-%s-encoded" % (A, enc), pre + ": sign() output %s is not a %s signature (%s)"
                      % (short(sig), "fixed-length r||s" if enc == "binary" else "DER Dss-Sig-Value", e), case)
        return None
    exp = encode_sig(kd, enc, r, s)
    if sig != exp or type(sig) is not bytes:
        if mode == "det":
            acc.violation("C04/dss/%s/rfc6979-signature-differs" % A,
                          pre + ": sign() = %s, RFC 6979 gives k=%s, signature %s" % (short(sig), short(k), short(exp)), case)
        else:
            # which nonce did the library use?
            z = RD.bits2int(digest, q.bit_length())
            xx = kd["x"] if kd["kind"] == "dsa" else kd["d"]
            k2 = (z + xx * lr) * nt.inverse(ls, q) % q if 0 < ls < q else 0
            ok = False
            if 0 < k2 < q:
                try:
                    ok = ref_sign(kd, digest, k2) == (lr, ls)
                except ValueError:
                    ok = False
            if ok:
                acc.observe("fips-186-3 nonce differs from the FIPS 186-4 B.2.2 testing-candidates reading of the tape "
                            "(the signature is consistent with another k)")
            else:
                acc.violation("C04/dss/%s/fips-signature-differs-for-same-k" % A,
                              pre + ": sign() = %s, reference with k=%s gives %s (and no k explains the output)"
                              % (short(sig), short(k), short(exp)), case)
        return sig, lr, ls
    if mode == "fips" and t.pos != used:
        acc.observe("fips-186-3 sign consumed %d tape octets, the model %d" % (t.pos, used))
    # (iv) repeat with the same hash object
    if t is not None:
        t.pos = 0
    out2 = B.lib_outcome(signer.sign, h)
    if out2[0] != "accept" or out2[1] != sig:
        acc.violation("C04/dss/%s/repeated-sign-differs" % A, pre + ": second sign() with the same hash object%s gives %s"
                      % (" and tape" if t else "", short(out2[1]) if out2[0] == "accept" else out2[0]), case)
    if h.digest() != digest:
        acc.violation("C04/dss/%s/hash-object-changed-by-sign" % A, pre + ": digest() of the hash object changed", case)
    return sig, r, s


# ---------------------------------------------------------------------------
# verify
# ---------------------------------------------------------------------------
def _der_reason(e):
    t = str(e)
    for pat, name in (("non-minimal length", "der-nonminimal-length"), ("indefinite", "der-indefinite-length"),
                      ("INTEGER not minimal", "der-integer-not-minimal"), ("trailing", "der-trailing-bytes"),
                      ("expected 2 elements", "der-wrong-element-count"), ("expected tag", "der-wrong-tag"),
                      ("constructed encoding", "der-constructed-primitive-type"),
                      ("primitive encoding", "der-primitive-constructed-type"),
                      ("truncated", "der-truncated"), ("unsupported", "der-high-tag-number")):
        if pat in t:
            return name
    return "der-malformed"


def dss_ref_verify(kd, enc, digest, cand):
    """the standard's verdict on a candidate byte string -> ('accept'|'reject', reason)"""
    q = order(kd)
    if enc == "binary":
        ob = obytes(kd)
        if len(cand) != 2 * ob:
            return "reject", "wrong-length"
        r, s = int.from_bytes(cand[:ob], "big"), int.from_bytes(cand[ob:], "big")
    else:
        try:
            r, s = D.read_ecdsa_sig(cand)
        except ValueError as e:
            return "reject", _der_reason(e)
    if not 0 < r < q:
        return "reject", "r-out-of-range"
    if not 0 < s < q:
        return "reject", "s-out-of-range"
    if not ref_verify(kd, digest, r, s):
        return "reject", "equation-fails"
    return "accept", None


_SCRIPT = '''# stand-alone reproduction (needs only pycryptodome)
%sfrom Crypto.Signature import DSS
from Crypto.Hash import %s
h = %s
sig = bytes.fromhex("%s")
try:
    DSS.new(key.public_key(), %r, %r).verify(h, sig)
    print("library: accepted")
except Exception as e:
    print("library:", type(e).__name__, e)
print("standard: %s")
'''

EVAL_REF_ALWAYS = ("(r,q-s)", "authentic")


def dss_verify_case(kd, mode, enc, hn, msg, cand, tag, acc, demand=False):
    """one DSS verify of a candidate -> (reference verdict | 'n/e', reason, library outcome class)"""
    from Crypto.Signature import DSS
    A = algo(kd)
    digest = B.ref_digest(hn, msg)
    h = B.libhash(hn, msg)
    ver = DSS.new(libkey(kd, False), MODE[mode], enc)
    out = B.lib_outcome(ver.verify, h, cand)
    res = out[0]
    case = {"part": "dss-verify", "key": keymat(kd), "mode": mode, "enc": enc, "hn": hn, "msg": msg, "cand": cand,
            "tag": tag, "demand": demand}
    pre = "%s %s %s/%s/%s, %d-byte message, candidate '%s' %s" % (A, kd["name"], MODE[mode], enc, hn, len(msg), tag, short(cand))
    verdict, reason = "n/e", None

    def script(exp):
        return _SCRIPT % (_key_script(kd), B.HASHES[hn][0], B.libhash_expr(hn, "bytes.fromhex(%r)" % bytes(msg).hex()),
                          bytes(cand).hex(), MODE[mode], enc, exp)
    if res == "accept" or demand or tag in EVAL_REF_ALWAYS:
        verdict, reason = dss_ref_verify(kd, enc, digest, cand)
    if res not in ("accept", "ValueError"):
        acc.violation("C04/dss/%s/verify-raises/%s@%s" % (A, res, exc_site(out[1])),
                      pre + ": verify raised %s: %s (must be ValueError)" % (res, out[1]), case, script=script("not evaluated"))
    elif res == "accept":
        if verdict == "reject":
            acc.violation("C04/dss/%s/accepts-%s" % (A, reason), pre + ": accepted, but the standard rejects it (%s)" % reason,
                          case, script=script("invalid (%s)" % reason))
        out2 = B.lib_outcome(ver.verify, h, cand)
        if out2[0] != "accept":
            acc.violation("C04/dss/%s/repeated-verify-differs" % A, pre + ": second verify() with the same hash object gives %s" % out2[0], case)
        if h.digest() != digest:
            acc.violation("C04/dss/%s/hash-object-changed-by-verify" % A, pre + ": digest() of the hash object changed", case)
    elif verdict == "accept":
        if demand:
            acc.violation("C04/dss/%s/own-signature-rejected" % A, pre + ": the signature made by sign() is refused by verify()",
                          case, script=script("valid"))
        else:
            acc.observe("DSS verify refuses a standard-valid signature that sign() does not emit (%s)" % tag)
    return verdict, reason, res


# ---------------------------------------------------------------------------
# candidate alphabet
# ---------------------------------------------------------------------------
def _tlv(tag, content, form=None):
    n = len(content)
    if form is None:
        ln = D.encode_length(n)
    elif form == "long1":                 # 81 nn (non-minimal below 128)
        ln = bytes([0x81, n])
    elif form == "long2":                 # 82 00 nn / 82 hh ll with a leading zero
        ln = bytes([0x82]) + n.to_bytes(2, "big")
    elif form == "long3":
        ln = bytes([0x83]) + n.to_bytes(3, "big")
    elif form == "indef":
        return bytes([tag, 0x80]) + content + b"\x00\x00"
    return bytes([tag]) + ln + content


def _ic(v):
    """minimal two's complement content octets"""
    n = 1
    while True:
        try:
            return v.to_bytes(n, "big", signed=True)
        except OverflowError:
            n += 1


def pair_values(kd, r, s):
    """(tag, r', s') boundary pairs (DESIGN: 0, 1, q-1, q, q+1, +q, 2^bits-1, (r, q-s), swaps, negatives)"""
    q = order(kd)
    top = 256 ** obytes(kd) - 1
    out = [("(0,s)", 0, s), ("(r,0)", r, 0), ("(0,0)", 0, 0), ("(q,s)", q, s), ("(r,q)", r, q), ("(q,q)", q, q),
           ("(q+1,s)", q + 1, s), ("(r,q+1)", r, q + 1), ("(r+q,s)", r + q, s), ("(r,s+q)", r, s + q),
           ("(r+q,s+q)", r + q, s + q), ("(r+2q,s)", r + 2 * q, s), ("(max,s)", top, s), ("(r,max)", r, top),
           ("(q-r,s)", q - r, s), ("(r,q-s)", r, q - s), ("(s,r)", s, r), ("(1,s)", 1, s), ("(r,1)", r, 1), ("(1,1)", 1, 1),
           ("(q-1,s)", q - 1, s), ("(r,q-1)", r, q - 1), ("(q-1,q-1)", q - 1, q - 1), ("(r,r)", r, r), ("(s,s)", s, s),
           ("(-r,s)", -r, s), ("(r,-s)", r, -s), ("(r-q,s)", r - q, s), ("(r,s-q)", r, s - q)]
    return out


def dss_candidates(kd, enc, r, s, flips=None):
    """(tag, candidate bytes); flips: None | (part, nparts) selecting a slice of all single-bit flips"""
    q = order(kd)
    ob = obytes(kd)
    sig = encode_sig(kd, enc, r, s)
    other = encode_sig(kd, "der" if enc == "binary" else "binary", r, s)
    if flips is None or flips[0] == 0:
        yield "authentic", sig
        yield "empty", b""
        yield "other-encoding", other
        yield "appended-00", sig + b"\x00"
        yield "prepended-00", b"\x00" + sig
        yield "doubled", sig + sig
        if enc == "binary":
            yield "truncated-last", sig[:-1]
            yield "truncated-first", sig[1:]
            yield "r-only", sig[:ob]
            for tag, a, b in pair_values(kd, r, s):
                if 0 <= a < 256 ** ob and 0 <= b < 256 ** ob:
                    yield tag, a.to_bytes(ob, "big") + b.to_bytes(ob, "big")
            yield "one-octet-wider", r.to_bytes(ob + 1, "big") + s.to_bytes(ob + 1, "big")
        else:
            for i in range(len(sig)):
                yield "truncated@%d" % i, sig[:i]
            for tag, a, b in pair_values(kd, r, s):
                yield tag, _tlv(0x30, _tlv(2, _ic(a)) + _tlv(2, _ic(b)))
            ri, si = _tlv(2, _ic(r)), _tlv(2, _ic(s))
            rc, sc = _ic(r), _ic(s)
            body = ri + si
            if len(body) < 128:
                yield "der/seq-long-form-81", _tlv(0x30, body, "long1")
            yield "der/seq-long-form-82", _tlv(0x30, body, "long2")
            yield "der/seq-long-form-83", _tlv(0x30, body, "long3")
            yield "der/seq-indefinite", _tlv(0x30, body, "indef")
            yield "der/seq-length-ff", b"\x30\xff" + body
            yield "der/r-long-form-81", _tlv(0x30, _tlv(2, rc, "long1") + si)
            yield "der/s-long-form-81", _tlv(0x30, ri + _tlv(2, sc, "long1"))
            yield "der/s-long-form-82", _tlv(0x30, ri + _tlv(2, sc, "long2"))
            yield "der/r-indefinite", _tlv(0x30, _tlv(2, rc, "indef") + si)
            yield "der/r-leading-00", _tlv(0x30, _tlv(2, b"\x00" + rc) + si)
            yield "der/s-leading-00", _tlv(0x30, ri + _tlv(2, b"\x00" + sc))
            yield "der/r-leading-0000", _tlv(0x30, _tlv(2, b"\x00\x00" + rc) + si)
            yield "der/r-sign-octet-stripped", _tlv(0x30, _tlv(2, rc[1:] if rc[0] == 0 and len(rc) > 1 else b"\xff" + rc) + si)
            yield "der/s-sign-octet-stripped", _tlv(0x30, ri + _tlv(2, sc[1:] if sc[0] == 0 and len(sc) > 1 else b"\xff" + sc))
            yield "der/r-empty-integer", _tlv(0x30, b"\x02\x00" + si)
            yield "der/trailing-00-outside", sig + b"\x00"
            yield "der/trailing-0500-outside", sig + b"\x05\x00"
            yield "der/trailing-00-inside", _tlv(0x30, body + b"\x00")
            yield "der/trailing-0000-inside", _tlv(0x30, body + b"\x00\x00")
            yield "der/extra-null", _tlv(0x30, body + b"\x05\x00")
            yield "der/extra-integer", _tlv(0x30, body + b"\x02\x01\x01")
            yield "der/extra-leading-integer", _tlv(0x30, b"\x02\x01\x00" + body)
            yield "der/seq-length-one-short", bytes([0x30]) + D.encode_length(len(body) - 1) + body
            yield "der/seq-length-one-long", bytes([0x30]) + D.encode_length(len(body) + 1) + body
            yield "der/constructed-integer-r", _tlv(0x30, _tlv(0x22, ri) + si)
            yield "der/constructed-integer-s", _tlv(0x30, ri + _tlv(0x22, si))
            yield "der/octet-string-r", _tlv(0x30, _tlv(4, rc) + si)
            yield "der/bit-string-r", _tlv(0x30, _tlv(3, b"\x00" + rc) + si)
            yield "der/enumerated-r", _tlv(0x30, _tlv(10, rc) + si)
            yield "der/context-tag-r", _tlv(0x30, _tlv(0x80, rc) + si)
            yield "der/set-tag", _tlv(0x31, body)
            yield "der/primitive-sequence-tag", _tlv(0x10, body)
            yield "der/context-sequence-tag", _tlv(0xA0, body)
            yield "der/high-tag-number-sequence", b"\x3f\x10" + D.encode_length(len(body)) + body
            yield "der/one-element", _tlv(0x30, ri)
            yield "der/no-element", _tlv(0x30, b"")
            yield "der/nested-sequence", _tlv(0x30, _tlv(0x30, body))
            yield "der/s-in-nested-sequence", _tlv(0x30, ri + _tlv(0x30, si))
            yield "der/explicit-wrapped", _tlv(0xA0, sig)
            yield "der/octet-string-wrapped", _tlv(4, sig)
            yield "der/r-only-integer", ri
            yield "der/r-s-without-sequence", body
    if flips is not None:
        part, nparts = flips
        for bit in range(8 * len(sig)):
            if bit % nparts == part:
                yield "bit-flip", B.flip(sig, bit)


def sweep_positions(kd, enc, r, s):
    """(name, offset) of the octets of the authentic signature that get every one of the 255 other values (thorough tier):
    DER: every tag and length octet and the first / last content octet of both INTEGERs; binary: first / last octet of r, s"""
    ob = obytes(kd)
    if enc == "binary":
        return [("r-first", 0), ("r-last", ob - 1), ("s-first", ob), ("s-last", 2 * ob - 1)]
    rc, sc = _ic(r), _ic(s)
    body = len(_tlv(2, rc)) + len(_tlv(2, sc))
    out = [("seq-tag", 0), ("seq-len", 1)]
    pos = 2
    if body >= 128:
        out.append(("seq-len-2", 2))
        pos = 3
    for nm, c in (("r", rc), ("s", sc)):
        out += [(nm + "-tag", pos), (nm + "-len", pos + 1), (nm + "-first", pos + 2), (nm + "-last", pos + 1 + len(c))]
        pos += 2 + len(c)
    return out


def dss_octet_sweep(kd, enc, r, s, which=None):
    """(tag, candidate): the authentic signature with ONE octet replaced, every position of sweep_positions() x every value"""
    sig = encode_sig(kd, enc, r, s)
    for name, off in sweep_positions(kd, enc, r, s):
        if which is not None and name != which:
            continue
        for v in range(256):
            if v != sig[off]:
                yield "octet/%s@%02x" % (name, v), sig[:off] + bytes([v]) + sig[off + 1:]


SWEEP_NAMES = {"binary": ("r-first", "r-last", "s-first", "s-last"),
               "der": ("seq-tag", "seq-len", "r-tag", "r-len", "r-first", "r-last", "s-tag", "s-len", "s-first", "s-last")}


def fips_tapes(q, sweep):
    """(tag, tape) ; every tape ends with two more valid draws"""
    bits = (q - 2).bit_length()
    nb = (bits - 1) // 8 + 1
    sig = 8 - (nb * 8 - bits)
    mid = seeded_int("c04/tape-mid", bits - 1) | 1

    def e(c):
        return c.to_bytes(nb, "big")
    pad = e(mid) + e(mid ^ 5)
    if sweep in (False, "ext"):
        for tag, c in (("k=1", 0), ("k=2", 1), ("k=q-2", q - 3), ("k=q-1", q - 2), ("k=mid", mid)):
            yield tag, e(c) + pad
        top = (1 << bits) - 1
        for tag, c in (("draw q-1 rejected", q - 1), ("draw q rejected", q), ("draw 2^bits-1 rejected", top)):
            if c <= top:
                yield tag, e(c) + pad
        yield "two draws rejected", e(q - 1) + e(top) + pad
        if sig < 8:
            hi = (0xFF << sig) & 0xFF
            yield "junk above the top bits", bytes([e(mid)[0] | hi]) + e(mid)[1:] + pad
            yield "junk above the top bits, q-2", bytes([e(q - 2)[0] | hi]) + e(q - 2)[1:] + pad
        if sweep == "ext":
            # thorough tier: more accepted draws next to both ends, only the top / only the bottom bit, longer runs of
            # rejected draws, rejected draws followed by a boundary draw
            for tag, c in (("k=3", 2), ("k=4", 3), ("k=q-3", q - 4), ("k=q-4", q - 5), ("k=2^(bits-1)", (1 << (bits - 1)) - 1),
                           ("k=2^(bits-1)+1", 1 << (bits - 1)), ("k=256", 255), ("k=257", 256)):
                if 0 <= c <= q - 2:
                    yield tag, e(c) + pad
            for tag, c in (("draw q+1 rejected", q + 1), ("draw 2^bits-2 rejected", top - 1)):
                if q - 2 < c <= top:
                    yield tag, e(c) + pad
            yield "three draws rejected", e(q - 1) + e(top) + e(q - 1) + pad
            yield "four draws rejected", e(top) + e(q - 1) + e(top) + e(q - 1) + pad
            yield "eight draws rejected", (e(q - 1) + e(top)) * 4 + pad
            yield "draw rejected, then k=1", e(q - 1) + e(0) + pad
            yield "draw rejected, then k=q-1", e(top) + e(q - 2) + pad
            yield "two draws rejected, then k=2", e(q - 1) + e(q - 1) + e(1) + pad
    else:
        for b in range(256):
            yield "first octet %02x" % b, bytes([b]) + e(mid)[1:] + pad


# ---------------------------------------------------------------------------
# worker
# ---------------------------------------------------------------------------
def _tagclass(tag):
    return tag.split("@")[0]


def _tally(acc, kd, mode, enc, tag, verdict, reason, res):
    acc.count("evaluations")
    acc.count("dss_%s" % ("accept" if res == "accept" else "reject" if res == "ValueError" else "other"))
    acc.seen("classes", (algo(kd), kd["name"], mode, enc, _tagclass(tag), verdict, reason, res))


def worker(shards):
    acc = Acc()
    keys = _KEYS
    msgs = B.messages()
    last = None
    for sh in shards:
        kind = sh[0]
        kd = keys[sh[1]]
        q = order(kd)
        if kind == "sign":
            # ("sign", key, mode, enc, hashes, message names): signatures equal the reference; verify(sign) ; other key/message
            _, _, mode, enc, hashes, mnames = sh
            for hn in hashes:
                if mode == "fips" and not fips_accepts(kd, hn):
                    acc.seen("classes", (algo(kd), kd["name"], mode, enc, "hash-not-approved", hn))
                    continue
                for mn in mnames:
                    msg = B.message(mn, msgs)
                    tape = dict(fips_tapes(q, False))["k=mid"] if mode == "fips" else None
                    r0 = dss_sign_case(kd, mode, enc, hn, msg, tape, acc)
                    acc.seen("sign_cfgs", (kd["name"], mode, enc, hn))
                    if r0 is None:
                        continue
                    sig = r0[0]
                    _tally(acc, kd, mode, enc, "authentic", *dss_verify_case(kd, mode, enc, hn, msg, sig, "authentic", acc, demand=True))
                    _tally(acc, kd, mode, enc, "other-message",
                           *dss_verify_case(kd, mode, enc, hn, B.other_message(msg), sig, "other-message", acc))
                    _tally(acc, kd, mode, enc, "other-key",
                           *dss_verify_case(keys[kd["name"] + "/2"], mode, enc, hn, msg, sig, "other-key", acc))
                    oh = "sha256" if hn != "sha256" else "sha3_256"
                    _tally(acc, kd, mode, enc, "other-hash", *dss_verify_case(kd, mode, enc, oh, msg, sig, "other-hash", acc))
            last = {"part": "dss-sign", "key": kd["name"], "mode": MODE[mode], "encoding": enc, "hashes": list(hashes),
                    "messages": list(mnames)}
        elif kind == "cand":
            # ("cand", key, mode, enc, hash, message, flips | None)
            _, _, mode, enc, hn, mn, flips = sh
            msg = B.message(mn, msgs)
            acc.seen("cand_cfgs", (kd["name"], mode, enc, hn, mn, bool(flips)))
            # the authentic signature is the library's own RFC 6979 output (compared with the reference on the way)
            r0 = dss_sign_case(kd, "det", enc, hn, msg, None, acc)
            if r0 is None:
                continue
            _, r, s = r0
            n = 0
            for tag, cand in dss_candidates(kd, enc, r, s, tuple(flips) if flips else None):
                _tally(acc, kd, mode, enc, tag, *dss_verify_case(kd, mode, enc, hn, msg, cand, tag, acc, demand=(tag == "authentic")))
                n += 1
            last = {"part": "dss-candidates", "key": kd["name"], "mode": MODE[mode], "encoding": enc, "hash": hn,
                    "message": mn, "bit_flip_slice": list(flips) if flips else None, "candidates": n}
        elif kind == "tape":
            # ("tape", key, enc, hash, sweep?)
            _, _, enc, hn, sweep = sh
            msg = msgs["asc33"]
            n = 0
            for tag, tape in fips_tapes(q, sweep):
                r0 = dss_sign_case(kd, "fips", enc, hn, msg, tape, acc)
                acc.count("evaluations")
                acc.count("tapes")
                n += 1
                k, used, draws = model_k(q, tape)
                acc.seen("classes", (algo(kd), kd["name"], "tape", enc, "sweep" if sweep is True else tag, draws,
                                     "k=1" if k == 1 else "k=q-1" if k == q - 1 else "k", r0 is not None))
                if r0 is not None and sweep is not True:
                    _tally(acc, kd, "fips", enc, "authentic", *dss_verify_case(kd, "fips", enc, hn, msg, r0[0], "authentic", acc, demand=True))
            last = {"part": "dss-fips-tapes", "key": kd["name"], "encoding": enc, "hash": hn, "tapes": n,
                    "first_octet_sweep": sweep is True}
        elif kind == "sweep":
            # ("sweep", key, enc, hash, message, position names): one octet of the RFC 6979 signature takes every value
            _, _, enc, hn, mn, which = sh
            msg = B.message(mn, msgs)
            r0 = dss_sign_case(kd, "det", enc, hn, msg, None, acc)
            if r0 is None:
                continue
            _, r, s = r0
            n = 0
            for name in which:
                n0 = n
                for tag, cand in dss_octet_sweep(kd, enc, r, s, name):
                    _tally(acc, kd, "det", enc, tag, *dss_verify_case(kd, "det", enc, hn, msg, cand, tag, acc))
                    n += 1
                    acc.count("octet_sweep_cases")
                if n > n0:
                    acc.seen("sweep_cfgs", (kd["name"], enc, hn, name))
            last = {"part": "dss-octet-sweep", "key": kd["name"], "encoding": enc, "hash": hn, "message": mn,
                    "positions": list(which), "candidates": n}
        elif kind == "nonfips":
            # ("nonfips", key, enc, hashes, message): DSA domains outside the FIPS (L, N) list -- observations only
            _, _, enc, hashes, mn = sh
            for hn in hashes:
                nonfips_case(kd, enc, hn, B.message(mn, msgs), acc)
            last = {"part": "dss-nonfips-domain (observed, not judged)", "key": kd["name"], "encoding": enc, "hashes": list(hashes)}
    if last:
        acc.sample(last)
    return acc


def nonfips_case(kd, enc, hn, msg, acc):
    """A DSA domain whose (L, N) is not one of the four FIPS 186-4 pairs.  DSS.new documents the four pairs as a precondition
    (and enforces them in mode 'fips-186-3'), so nothing is judged here: what mode 'deterministic-rfc6979' does is recorded."""
    from Crypto.Signature import DSS
    L, N = kd["p"].bit_length(), kd["q"].bit_length()
    q, ob = kd["q"], obytes(kd)
    digest = B.ref_digest(hn, msg)
    acc.count("nonfips_cases")

    def seen(outcome):
        acc.seen("nonfips", ("L=%d" % L, "N=%d" % N, hn, enc, outcome))
    out = B.lib_outcome(DSS.new, libkey(kd), MODE["fips"], enc)
    if out[0] == "accept":
        acc.observe("DSS.new(mode='fips-186-3') accepts a DSA key with (L, N) = (%d, %d)" % (L, N))
    out = B.lib_outcome(DSS.new, libkey(kd), MODE["det"], enc)
    if out[0] != "accept":
        seen("refused by DSS.new: " + out[0])
        return
    o1 = B.lib_outcome(out[1].sign, B.libhash(hn, msg))
    if o1[0] != "accept":
        seen("refused by sign(): " + o1[0])
        return
    sig = o1[1]
    k, r, s = ref_det(kd, digest, B.HASHES[hn][4])
    o2 = B.lib_outcome(DSS.new(libkey(kd, False), MODE["det"], enc).verify, B.libhash(hn, msg), sig)
    if sig == encode_sig(kd, enc, r, s):
        seen("signature equals RFC 6979, verify(sign): " + o2[0])
        return
    # explain the difference: z taken as the first ceil(N/8) OCTETS of the digest instead of its leftmost N BITS?
    try:
        if enc == "binary":
            lr, ls = int.from_bytes(sig[:ob], "big"), int.from_bytes(sig[ob:], "big")
        else:
            lr, ls = D.read_ecdsa_sig(sig)
        zo = int.from_bytes(digest[:ob], "big")
        w = nt.inverse(ls, q)
        octets = 0 < lr < q and 0 < ls < q and pow(kd["g"], zo * w % q, kd["p"]) * pow(kd["y"], lr * w % q, kd["p"]) % kd["p"] % q == lr
    except (ValueError, ZeroDivisionError):
        octets = False
    o3 = B.lib_outcome(DSS.new(libkey(kd, False), MODE["det"], enc).verify, B.libhash(hn, msg), encode_sig(kd, enc, r, s))
    seen("signature differs from RFC 6979 (%s), verify(sign): %s, verify(RFC 6979 signature): %s"
         % ("z = first ceil(N/8) octets of the digest" if octets else "unexplained", o2[0], o3[0]))
    if octets:
        acc.observe("not judged (DSS.new documents the four FIPS (L, N) pairs as a precondition but mode 'deterministic-rfc6979' "
                    "does not enforce it): for a DSA q whose bit length N is not a multiple of 8 and a digest longer than N bits, "
                    "sign()/verify() use the first ceil(N/8) octets of the digest where FIPS 186-4 4.6 / RFC 6979 2.3.2 take the "
                    "leftmost N bits; the signature differs from RFC 6979 and the RFC 6979 signature is refused "
                    "(smallest example: L=1024, N=159, SHA-1)")
    else:
        acc.observe("not judged: deterministic-rfc6979 signature under a non-FIPS DSA domain (L=%d, N=%d, %s) differs from "
                    "RFC 6979 and is not explained by octet-wise truncation of the digest" % (L, N, hn))


def replay(case, acc):
    kd = dict(case["key"])
    p = case["part"]
    if p == "dss-sign":
        dss_sign_case(kd, case["mode"], case["enc"], case["hn"], case["msg"], case["tape"], acc)
    elif p == "dss-verify":
        dss_verify_case(kd, case["mode"], case["enc"], case["hn"], case["msg"], case["cand"], case["tag"], acc,
                        demand=case.get("demand", False))
    else:
        acc.error("unknown replay part %r" % p)
