"""C16 - interchangeable implementations (AES-NI, CLMUL, integer back-ends) agree exactly.

Purely differential bounded-exhaustive exploration (ShapeExplorer): the same input is evaluated under
every configuration and all observations must be pairwise identical.

  part A  AES use_aesni=True/False x key sizes x 16 mode variants x every data length 0..273 x buffer
          offsets 0..3 (memoryview slices, misaligned output= buffers) x encrypt/decrypt x one call and
          two incremental segmentations                                          (_c16_aes.aes_case)
  part B  GCM use_clmul=True/False (thorough: crossed with use_aesni) x nonce lengths x every
          AAD length 0..130 x every message length 0..130                         (_c16_aes.gcm_case)
  part C  IntegerGMP / IntegerCustom / IntegerNative imported directly in one process on the operand
          alphabet of DESIGN C14: value, type class of the result, exception class  (_c16_int.int_case)
  part D  whole-library transcripts in three subprocesses (GMP default / PYCRYPTODOME_DISABLE_GMP=1 /
          native forced by poisoning sys.modules): RSA signatures and encryption, RFC 6979 DSA/ECDSA,
          EdDSA, key export/import bytes, point decompression, Primality verdicts on pseudoprime
          families, prime generation from explicit entropy, RSA.construct factor recovery - the
          transcripts must be byte-identical                                      (_c16_script)

thorough tier, wave 2 (every added dimension is enumerated completely; described in coverage.grid.*.wave2):
  A  every CFB segment size; parameter variants of every mode (IV values, CTR nonce lengths / initial values / Counter
     layouts incl. little endian, CCM/EAX/GCM/OCB nonce x tag lengths, SIV nonce x components) on every length 0..273;
     the one-shot AEAD entry points; long inputs around every power of two up to 2^20 with large-piece segmentation;
     every (input, output) buffer address mod 16 and in-place operation; the AESAVS VarKey / one-byte-value key families
     on a message made of the VarTxt / one-byte-value blocks
  B  nonces 12 and 16 on AAD 0..273 x message 0..273; every nonce length 1..130 and 2^k+-1 up to 2^16; every tag length;
     long AAD/messages up to 2^16+49; every buffer placement; 32 GHASH keys; the GHASH function itself through the seam
     _mode_gcm._GHASH on a basis of GF(2^128) multiplication (single-bit H x single-bit X at every block position of
     1..9-block messages) and every two-call split of 0..40 blocks at every data alignment
  C  249-value operand alphabet (32-bit slot and 64-bit limb boundaries of the GMP glue); odd moduli at every word count
     1..33 and the special primes of mont.c (P-256, P-384, P-521, Ed448) with neighbours for pow / _mult_modulo_bytes
  D  five more transcript sections: rsa-sign2, dsa2, ecc2, primality2 (exhaustive range to 2^19), keygen
     (RSA/DSA/ElGamal/ECC generation from explicit entropy)
"""
import os
import subprocess
import sys
import time

from ..common import Acc, chunks, short
from . import _c16_aes as A
from . import _c16_int as I
from . import _c16_script as S

LEVEL = "exploration"
RULE = ("complete enumeration of the stated grids; every case is executed under each interchangeable "
        "configuration and the observations compared pairwise. A case is distinct by (part, mode/operation, "
        "key size, operand/shape, buffer offset, segmentation, direction); distinct_nontrivial counts the distinct "
        "behaviour classes actually observed: AES (mode, key size, number of blocks, partial block?, offset, "
        "direction, segmentation, outcome class), GCM (nonce length, AAD blocks, partial?, message blocks, "
        "partial?, offset, segmentation, direction, outcome), integers (operation, outcome type/exception, "
        "number of violated preconditions), transcripts (item family, outcome class); thorough wave 2 adds to the AES "
        "class the parameter variant (then without key size, with a coarser block count: 0, 1, 2-7, 8, 9-15, 16, 17+) "
        "or the buffer placement (then without key size and block count), and to the GCM class the tag length or the "
        "buffer placement (then without block counts)")
BUDGET = {"quick": 240, "thorough": 2400}

VERIF_DIR = os.path.dirname(os.path.dirname(os.path.dirname(os.path.abspath(__file__))))
CONFIGS = ("default", "nogmp", "native")

LEN_ALL = list(range(0, 2 * 8 * 16 + 17 + 1))            # 0..273
LEN_KW = [0, 1, 8, 9, 15, 16, 17, 24, 32, 40, 64, 65, 128, 136, 273]
LEN_EDGE = [0, 1, 15, 16, 17, 31, 32, 33, 127, 128, 129, 143, 144, 145, 255, 256, 257, 272, 273]


# ---------------------------------------------------------------------------
# part D plumbing
# ---------------------------------------------------------------------------
def run_script(cfg, section, part, nparts, tier, only=None):
    """-> dict(rc, backend, crypto, items=[(label, value)], complete, err)"""
    env = dict(os.environ)                       # inherits PYTHONPATH (scratch tree first)
    env.pop("PYCRYPTODOME_DISABLE_GMP", None)
    if cfg == "nogmp":
        env["PYCRYPTODOME_DISABLE_GMP"] = "1"
    cmd = [sys.executable, "-m", "mc.props._c16_script", cfg, section, str(part), str(nparts), tier]
    if only is not None:
        cmd.append(only)
    try:
        r = subprocess.run(cmd, cwd=VERIF_DIR, env=env, stdin=subprocess.DEVNULL, stdout=subprocess.PIPE,
                           stderr=subprocess.PIPE, timeout=1500)
        rc, out, err = r.returncode, r.stdout.decode("utf-8", "replace"), r.stderr.decode("utf-8", "replace")
    except subprocess.TimeoutExpired:
        rc, out, err = 124, "", "timeout"
    res = {"rc": rc, "backend": None, "crypto": None, "items": [], "complete": False, "err": err[-1500:]}
    for line in out.split("\n"):
        if not line:
            continue
        if line.startswith("#backend\t"):
            res["backend"] = line.split("\t", 1)[1]
        elif line.startswith("#crypto\t"):
            res["crypto"] = line.split("\t", 1)[1]
        elif line == "#end":
            res["complete"] = True
        else:
            lab, _, val = line.partition("\t")
            res["items"].append((lab, val))
    return res


def stem(label):
    """item family = first path component of the label (rsa-sign, rsa-export, dsa-sign, ecdsa, primality, ...)"""
    return label.split("/")[0]


def transcript_compare(section, tier, part, nparts, only, acc):
    import Crypto
    res = {}
    for cfg in CONFIGS:
        res[cfg] = r = run_script(cfg, section, part, nparts, tier, only)
        acc.count("transcript_subprocesses")
        if r["rc"] < 0 or r["rc"] == 124:
            continue
        if r["rc"] != 0 or not r["complete"]:
            acc.error("transcript subprocess %s/%s part %d failed rc=%d: %s" % (cfg, section, part, r["rc"], r["err"]))
            return
        if r["crypto"] != os.path.realpath(os.path.dirname(Crypto.__file__)):
            acc.error("transcript subprocess imported Crypto from %s, driver uses %s"
                      % (r["crypto"], os.path.dirname(Crypto.__file__)))
            return
        acc.seen("transcript_backends", (cfg, r["backend"]))
    died = [c for c in CONFIGS if res[c]["rc"] < 0 or res[c]["rc"] == 124]
    if died:
        if len(died) == len(CONFIGS):
            acc.error("all transcript subprocesses died (%s part %d): %s" % (section, part, res[died[0]]["err"]))
            return
        last = res[died[0]]["items"][-1][0] if res[died[0]]["items"] else "(first item)"
        acc.violation("C16/transcript/%s/process-died/%s" % (section, "+".join(died)),
                      "section %s part %d/%d: the interpreter died or hung (rc=%s) under configuration %s after item %s "
                      "while the other configurations completed"
                      % (section, part, nparts, res[died[0]]["rc"], "+".join(died), last),
                      {"part": "transcript", "section": section, "tier": tier, "p": part, "n": nparts, "label": only})
        return
    base = res["default"]["items"]
    labels = [l for l, _ in base]
    for cfg in CONFIGS[1:]:
        if [l for l, _ in res[cfg]["items"]] != labels:
            acc.error("transcript item labels differ between default and %s in section %s" % (cfg, section))
            return
    if only is not None and not base:
        acc.error("transcript item %r not found in section %s" % (only, section))
        return
    for i, (lab, v0) in enumerate(base):
        acc.count("transcript_items")
        acc.seen("transcript_classes", (stem(lab), v0.split(":")[1][:24] if v0.startswith("EXC:") else "ok"))
        differing = []
        for cfg in CONFIGS[1:]:
            v = res[cfg]["items"][i][1]
            acc.count("evaluations")
            if v != v0:
                differing.append((cfg, v))
        if differing:
            # one key per item family and set of diverging back-ends
            names = "+".join(res[c]["backend"] for c, _ in differing)
            acc.violation("C16/transcript/%s/%s-vs-%s" % (stem(lab), names, res["default"]["backend"]),
                          "transcript item %s: %s -> %s ; %s"
                          % (lab, res["default"]["backend"], _sh(v0, differing[0][1]),
                             " ; ".join("%s -> %s" % (res[c]["backend"], _sh(v, v0)) for c, v in differing)),
                          {"part": "transcript", "section": section, "tier": tier, "p": part, "n": nparts,
                           "label": lab})
    if base:
        acc.sample({"part": "transcript", "section": section, "items": len(base), "first_item": base[0][0],
                    "value": base[0][1][:80]})


def _sh(v, other):
    """show the neighbourhood of the first difference"""
    i = 0
    while i < min(len(v), len(other)) and v[i] == other[i]:
        i += 1
    a = max(0, i - 24)
    return "%s[%d chars, differs at %d: ..%s..]" % (v[:16], len(v), i, v[a:i + 40])


def transcript_worker(shards):
    acc = Acc()
    for section, part, nparts, tier in shards:
        transcript_compare(section, tier, part, nparts, None, acc)
    return acc


# ---------------------------------------------------------------------------
# thorough tier, part A ------------------------------------------------------------------------
# long inputs: around every power of two 2^9..2^20, with 0, 1 and 7 blocks left over after the 8-block
# (128 byte) loop of AESNI.c / the 8-block key stream of raw_ctr.c, and a partial block
LEN_LONG = sorted(set(2 ** k + d for k in range(9, 21) for d in (-16, -1, 0, 1, 16, 112, 113)))
LEN_ALIGN = [0, 1, 15, 16, 17, 31, 32, 33, 112, 127, 128, 129, 143, 144, 145, 255, 256, 257, 272, 273]
PLACES_OUT = [(i, o) for i in range(16) for o in range(16)] + [(i, "inplace") for i in range(16)]
PLACES_IN = [(i, None) for i in range(16)]


def aes_shards_deep():
    """the thorough-only grids of part A (heaviest first)"""
    sh = []
    honour = list(A.HONOUR) + list(A.CFB_EXTRA)
    # long: every mode, every key size, seeded key, offsets 0/1; one call + large pieces (+ the two small-piece
    # segmentations up to 8193 bytes)
    for mode in honour:
        if mode == "CTRwrap":
            continue                              # OverflowError after 80 bytes: nothing long to compare
        heavy = mode.startswith("CFB") and int(mode[3:]) <= 32
        for klen in (16, 24, 32):
            for part in chunks(LEN_LONG, 6 if heavy else 2):
                sh.append((3 * sum(part) * (128 // int(mode[3:]) if mode.startswith("CFB") else 1),
                           [(mode, klen, 3, part, (0, 1), {"grid": "long", "incs": (0, 3), "incs_short": (0, 1, 2, 3)})]))
    # short counters on long inputs: the key stream of a 1-byte (2-byte) counter is exhausted after 4096 bytes (1 MiB)
    for pv in (["ctr", 15, 0], ["ctr", 15, 253], ["ctr", 14, 0], ["ctr", 14, 65533]):
        for klen in (16, 24, 32):
            sh.append((3 * sum(LEN_LONG), [("CTR", klen, 3, LEN_LONG, (0, 1),
                                            {"grid": "long", "pv": pv, "incs": (0, 3), "incs_short": (0, 1, 2, 3)})]))
    # parameter variants: every variant x key size x every length 0..273 x offsets 0/1, seeded key,
    # all segmentations and the one-shot AEAD entry points
    for mode in honour:
        pvs = A.param_variants(mode)
        if mode in A.CFB_EXTRA:
            pvs = [None] + pvs                    # these segment sizes have no basic grid
        if not pvs:
            continue                              # ECB, CTRwrap: nothing but the key
        for klen in (16, 24, 32):
            for grp in chunks(pvs, max(1, len(pvs) // 3)):
                sh.append((2 * 10 ** 6 * len(grp),
                           [(mode, klen, 3, LEN_ALL, (0, 1), {"grid": "params", "pv": pv, "incs": (0, 1, 2, 4)})
                            for pv in grp]))
    # the one-shot entry points on the basic parameters
    for mode in ("CCM", "EAX", "GCM", "OCB"):
        sh.append((10 ** 6, [(mode, klen, 3, LEN_ALL, (0, 1), {"grid": "oneshot", "incs": (4,)}) for klen in (16, 24, 32)]))
    # alignment: every (input address, output address) mod 16 and in-place operation
    for mode in honour:
        places = PLACES_OUT if (mode in A.OUT_OK or mode == "SIV") else PLACES_IN
        for klen in (16, 24, 32):
            for grp in chunks(places, 4 if len(places) > 16 else 1):
                sh.append((len(grp) * 15000,
                           [(mode, klen, 3, LEN_ALIGN, (0,), {"grid": "align", "places": grp})]))
    # key / block value families on a 6144-byte message holding the 384 block values
    for mode in honour:
        for klen in (16, 24, 32):
            kb = (klen * 2 if mode == "SIV" else klen) * 8
            fams = [kv for kv in range(4)] + [("varkey", lo, min(lo + 64, kb + 1)) for lo in range(1, kb + 1, 64)] + \
                   [("bytekey", lo, lo + 64) for lo in range(0, 256, 64)]
            for grp in chunks(fams, 2):
                sh.append((len(grp) * 64 * 12000,
                           [(mode, klen, f, [6144], (0,), {"grid": "values", "data": "kat"}) for f in grp]))
    sh.sort(key=lambda x: -x[0])
    return [x[1] for x in sh]


def aes_shards(quick):
    sh = []
    for mode in A.MODES:
        for klen in (16, 24, 32):
            if mode in A.IGNORES_AESNI_EXPECTED:
                # the switch is not forwarded (measured, reported as an observation): a small grid only,
                # enough to notice if that ever changes
                sh.append([(mode, klen, kv, LEN_KW, (0, 1)) for kv in ((3,) if quick else range(4))])
                continue
            if quick:
                sh.append([(mode, klen, 3, LEN_ALL, (0, 1, 2, 3))])
                sh.append([(mode, klen, kv, LEN_EDGE, (0, 1)) for kv in (0, 1, 2)])
            else:
                for kv in range(4):
                    sh.append([(mode, klen, kv, LEN_ALL, (0, 1, 2, 3))])
    if not quick:
        sh = aes_shards_deep() + sh
    return sh


GCM_ALL2 = list(range(0, 274))                # thorough: nonces 12 and 16 get the full cross product up to 17 blocks


def gcm_shards(quick):
    T, F = True, False
    two = [(T, T), (F, T)]
    four = [(T, T), (F, T), (T, F), (F, F)]
    allr = list(range(0, 131))
    sh = []
    if quick:
        for c in chunks(allr, 8):
            sh.append([("full1", 3, 12, c, allr, (0,), two)])
        sh.append([("band", 3, 12, allr, allr, (0,), two)])
        for nl in A.GCM_NONCES_QUICK:
            sh.append([("band", 3, nl, allr, allr, (0,), two)])
        sh.append([("band", 3, 12, allr, allr, (1, 2, 3), two)])
        for ki in range(10):
            sh.append([("full", ki, nl, A.BAND, A.BAND, (0, 1), four) for nl in (12, 16)])
    else:
        # nonce 12 and 16: AAD 0..273 x message 0..273 (the square 0..130 x 0..130 is in the shards below)
        for nl in (12, 16):
            for c in chunks(GCM_ALL2, 40):
                sh.append([("full", 3, nl, c, GCM_ALL2, (0,), four, {"skip_below": 130})])
        for nl in A.GCM_NONCES_FULL:
            for c in chunks(allr, 6):
                sh.append([("full", 3, nl, c, allr, (0,), four)])
            sh.append([("band", 3, nl, allr, allr, (1, 2, 3), two)])
        # every tag length, on the band grid
        for ml in range(4, 16):
            sh.append([("band", 3, nl, allr, allr, (0,), two, {"mac_len": ml}) for nl in (12, 16)])
        # long AAD / message
        long_opts = {"incs": (0, 3), "incs_short": (0, 1, 2, 3)}
        for nl in (12, 16):
            cf = four if nl == 12 else two
            for c in chunks(A.GCM_LONG, 6):
                sh.append([("full", 3, nl, c, A.BAND, (0, 1), cf, long_opts),
                           ("full", 3, nl, A.BAND, c, (0, 1), cf, long_opts)])
            for c in chunks(A.GCM_LONG_SMALL, 6):
                sh.append([("full", 3, nl, c, A.GCM_LONG_SMALL, (0,), cf, long_opts)])
        # every alignment of the AAD/message and of the output buffer, in-place operation
        for grp in chunks(PLACES_OUT, 16):
            sh.append([("full", 3, nl, A.BAND, A.BAND, (0,), two, {"places": grp}) for nl in (12, 16)])
        # every nonce length 1..130 and around the powers of two up to 2^16
        others = [nl for nl in A.GCM_NONCES_ALL if nl not in A.GCM_NONCES_FULL]
        for grp in chunks(others, 12):
            sh.append([("full", 3, nl, A.BAND, A.BAND, (0, 1), four) for nl in grp])
        # GHASH keys
        for ki in range(A.GCM_KEYS_FULL):
            sh.append([("full", ki, nl, A.BAND, A.BAND, (0, 1, 2, 3), four) for nl in (12, 16, 17)])
        sh = sh + A.ghash_shards()
    return sh


TRANSCRIPT_PARTS = {"quick": {"rsa-sign": 4, "rsa-keys": 6, "dsa": 8, "ecc": 4, "primality": 6, "misc": 1},
                    "thorough": {"rsa-sign": 8, "rsa-keys": 8, "dsa": 12, "ecc": 6, "primality": 40, "misc": 1,
                                 # wave 2 (thorough only); keygen: one item per shard (0 = number of items)
                                 "keygen": 0, "primality2": 120, "rsa-sign2": 12, "ecc2": 12, "dsa2": 3}}
SECTION_ORDER = ("keygen", "primality2", "dsa", "rsa-keys", "primality", "rsa-sign2", "ecc2", "rsa-sign", "ecc", "dsa2",
                 "misc")


def run(ctx):
    q = ctx.quick
    a = ctx.acc
    phases = {}

    cpus = {}

    def timed(name, fn, shards):
        t, c = time.time(), sum(os.times()[:4])
        ctx.pmap(fn, shards)
        phases[name] = round(time.time() - t, 1)
        cpus[name] = round(sum(os.times()[:4]) - c, 1)
    ctx.coverage_extra["phase_wall_s"] = phases
    ctx.coverage_extra["phase_cpu_s"] = cpus

    # ---- what exists on this machine ---------------------------------------------------
    have_ni, have_clmul = A.cpu()
    try:
        ni_lib = A.install_counters()
    except RuntimeError as e:
        a.error(str(e))
        return
    from Crypto.Cipher import _mode_gcm
    clmul_lib = getattr(_mode_gcm, "_ghash_clmul", None) is not None
    ctx.coverage_extra["cpu"] = {"aes_ni": have_ni, "clmul": have_clmul, "aesni_library_loaded": ni_lib,
                                 "clmul_library_loaded": clmul_lib}
    if not ni_lib:
        ctx.assume("this machine offers no AES-NI (or the _raw_aesni extension is absent): use_aesni=True and False "
                   "run the same portable code, part A compares nothing meaningful")
    if not clmul_lib:
        ctx.assume("this machine offers no CLMUL (or _ghash_clmul is absent): part B compares nothing meaningful")
    try:
        names = [n for n, _ in I.backends()]
    except Exception as e:  # noqa
        a.error("harness cannot reach seam Crypto.Math._Integer{GMP,Custom,Native}: %r" % (e,))
        return
    from ..ref import nt
    try:
        nt.selftest()
    except Exception as e:  # noqa
        a.error("mc.ref.nt selftest failed (generator of the pseudoprime families): %r" % (e,))
        return

    # ---- D first (subprocess start-up latency overlaps nothing else, longest shards first) ----
    tier = ctx.tier
    tsh = []
    for sec in (("dsa", "rsa-keys", "primality", "rsa-sign", "ecc", "misc") if q else SECTION_ORDER):
        n = TRANSCRIPT_PARTS[tier][sec] or len(list(S.SECTIONS[sec](tier)))
        tsh += [[(sec, p, n, tier)] for p in range(n)]
    timed("D-transcripts", transcript_worker, tsh)
    timed("A-aesni", A.aes_worker, aes_shards(q))
    timed("B-gcm-clmul", A.gcm_worker, gcm_shards(q))
    ish = I.int_shards(q)
    timed("C-integers", I.int_worker, [[s] for s in ish])

    # ---- vacuity guards -----------------------------------------------------------------------
    d = a.distinct
    # A: the switch must really have selected the other library, in every mode that forwards it
    honoured, ignored = [], []
    for mode in A.MODES:
        recs = set(r[1:] for r in d.get("aes_backend", ()) if r[0] == mode)
        if recs == {(True, True, False), (False, False, True)}:
            honoured.append(mode)
        else:
            ignored.append(mode)
    if ni_lib:
        for mode in ignored:
            a.observe("AES.new(key, MODE_%s, use_aesni=False) still runs the AES-NI library: the switch is not "
                      "forwarded by this mode, so both configurations execute the same code (no divergence possible, "
                      "nothing compared)" % mode)
        unexpected = [m for m in ignored if m not in A.IGNORES_AESNI_EXPECTED]
        if not a.caps:      # (a shard abandoned after a native crash has no measurements; the crash is the verdict)
            ctx.require(not unexpected, "use_aesni is not effective in modes %s: part A would be vacuous there"
                        % unexpected)
            ctx.require(len(honoured) >= 14, "fewer than 14 mode variants honour use_aesni (%s)" % honoured)
    outc = set(c[-1] for c in d.get("aes_classes", ()))
    ctx.require("ok" in outc and "raises:ValueError" in outc, "AES part saw outcomes %s only" % sorted(outc))
    ctx.require(len(d.get("aes_classes", ())) >= (3000 if q else 3000), "AES part: too few behaviour classes")
    if not q and not a.caps:
        # wave 2 grids of part A: every stated element was really executed
        for mode in A.CFB_EXTRA:
            recs = set(r[1:] for r in d.get("aes_backend", ()) if r[0] == mode)
            if ni_lib:
                ctx.require(recs == {(True, True, False), (False, False, True)},
                            "use_aesni is not effective for %s: %s" % (mode, sorted(recs)))
        npv = sum(len(A.param_variants(m)) for m in list(A.HONOUR) + list(A.CFB_EXTRA))
        ctx.require(len(d.get("aes_param_variants", ())) == npv,
                    "parameter variants executed: %d, stated: %d" % (len(d.get("aes_param_variants", ())), npv))
        ctx.require(set(d.get("aes_places", ())) == set(PLACES_OUT) | set(PLACES_IN),
                    "buffer placements executed: %d of %d" % (len(d.get("aes_places", ())), len(PLACES_OUT) + len(PLACES_IN)))
        ctx.require(set(d.get("aes_long_lengths", ())) == set(LEN_LONG) | {6144},
                    "long lengths executed: %s" % sorted(d.get("aes_long_lengths", ()))[-3:])
        # (the zero and ones keys of the alphabet are also one-byte-value keys; so is the last VarKey key)
        nkeys = sum(8 * (klen * (2 if m == "SIV" else 1)) + 256 + 1
                    for m in list(A.HONOUR) + list(A.CFB_EXTRA) for klen in (16, 24, 32))
        ctx.require(len(d.get("aes_value_keys", ())) == nkeys,
                    "value-family keys executed: %d, stated: %d" % (len(d.get("aes_value_keys", ())), nkeys))
        incs_seen = set(c[6] for c in d.get("aes_classes", ()))
        ctx.require(incs_seen >= {0, 1, 2, 3, 4}, "segmentations seen: %s" % sorted(incs_seen))
        ctx.require("raises:OverflowError" in outc, "no counter wrap-around (OverflowError) among the CTR variants")
    # B
    if not q and not a.caps:
        ctx.require(set(d.get("gcm_nonce_lens", ())) == set(A.GCM_NONCES_ALL),
                    "GCM nonce lengths executed: %d of %d" % (len(d.get("gcm_nonce_lens", ())), len(A.GCM_NONCES_ALL)))
        ctx.require(set(d.get("gcm_mac_lens", ())) == set(range(4, 17)), "GCM tag lengths executed: %s"
                    % sorted(d.get("gcm_mac_lens", ())))
        ctx.require(set(d.get("gcm_places", ())) == set(PLACES_OUT), "GCM buffer placements executed: %d of %d"
                    % (len(d.get("gcm_places", ())), len(PLACES_OUT)))
        ctx.require(set(d.get("gcm_long_lengths", ())) == set(x for x in A.GCM_LONG if x > 273),
                    "GCM long lengths executed: %d of %d" % (len(d.get("gcm_long_lengths", ())), len(A.GCM_LONG)))
        if clmul_lib:
            nh, nx = len(A.ghash_h_family()), len(A.ghash_x_family())
            nb = A.GHASH_MAX_BLOCKS
            cb = A.GHASH_CHUNK_BLOCKS
            expect = nh * nx * nb * (nb + 1) // 2 + (nh - 128) * 17 * (cb + 1) * (cb + 2) // 2
            ctx.require(a.n.get("ghash_pairs", 0) == expect, "GHASH seam: %d pairs compared, %d stated"
                        % (a.n.get("ghash_pairs", 0), expect))
            ctx.require(set(d.get("ghash_align", ())) == set(range(16)), "GHASH data alignments: %s"
                        % sorted(d.get("ghash_align", ())))
    if clmul_lib:
        ctx.require(set(d.get("gcm_backend", ())) == {(True, "clmul"), (False, "portable")},
                    "use_clmul did not select the expected GHASH implementations: %s" % sorted(d.get("gcm_backend", ())))
    hb = d.get("gcm_h_bits", set())
    ctx.require({x[0] for x in hb} == {0, 1} and {x[1] for x in hb} == {0, 1},
                "GHASH keys do not cover both values of H's first and last bit: %s" % sorted(hb))
    ctx.require(len(d.get("gcm_classes", ())) >= 1000, "GCM part: too few behaviour classes")
    # C
    ic = d.get("int_classes", set())
    kinds = set(c[1] for c in ic)
    ctx.require({"Integer", "bool", "bytes", "self", "raises:ValueError", "raises:ZeroDivisionError"} <= kinds,
                "integer part saw result kinds %s only" % sorted(kinds))
    ctx.require(len(ic) >= 100, "integer part: fewer than 100 (operation, outcome, preconditions) classes")
    ctx.require(a.n.get("int_excluded_multi_precondition", 0) > 0 or
                any(c[2] == 2 for c in ic), "no operand violating two preconditions was generated")
    tags = d.get("int_tags", set())
    ctx.require(("pow", "modulus-1") in tags and ("pow", "negative-base-odd-modulus") in tags,
                "the inputs of known defect #18 (pow modulus 1 / negative base, odd modulus) were not enumerated")
    if not q:
        ctx.require(("pow", "special-modulus") in tags and ("_mult_modulo_bytes", "special-modulus") in tags,
                    "the special moduli of mont.c (P-256, P-384, P-521, Ed448) were not enumerated")
        ctx.require(len(I.alphabet(q)) >= 240 and len(I.moduli(q)) >= 110, "integer alphabets smaller than stated")
    # D
    tb = dict(d.get("transcript_backends", ()))
    ctx.coverage_extra["transcript_backends"] = tb
    ctx.require(set(tb) == set(CONFIGS), "transcript subprocesses did not all run: %s" % tb)
    if tb.get("default") != "IntegerGMP":
        ctx.assume("libgmp could not be loaded: the default configuration is %s, the GMP back-end is not covered "
                   "by part D" % tb.get("default"))
    ctx.require(tb.get("nogmp") in ("IntegerCustom", "IntegerNative") and tb.get("native") == "IntegerNative",
                "configuration switches did not select the expected integer back-ends: %s" % tb)
    if tb.get("nogmp") != "IntegerCustom":
        ctx.assume("the custom C back-end (_modexp) could not be loaded: PYCRYPTODOME_DISABLE_GMP=1 selects the "
                   "native back-end")
    tc = d.get("transcript_classes", set())
    ctx.require(a.n.get("transcript_items", 0) >= (900 if q else 6500), "too few transcript items (%d)"
                % a.n.get("transcript_items", 0))
    if not q:
        stems = set(c[0] for c in tc)
        ctx.require({"keygen", "ecc-point", "ecc-key", "ecdsa-verify", "dsa-verify", "rsa-enc", "primality"} <= stems,
                    "transcript item families of wave 2 missing: %s" % sorted(stems))
    ctx.require(any(c[1] == "ok" for c in tc) and any(c[1] != "ok" for c in tc),
                "transcripts contain no refusal or no success")

    V = I.alphabet(q)
    ctx.coverage_extra.update({
        "evaluations": a.n.get("evaluations", 0),
        "distinct_nontrivial": sum(len(d.get(k, ())) for k in ("aes_classes", "gcm_classes", "int_classes",
                                                               "transcript_classes")),
        "exhaustive": not a.caps,
        "grid": {
            "A": {"modes": list(A.MODES), "honour_use_aesni": honoured, "ignore_use_aesni": ignored,
                  "key_sizes": [16, 24, 32], "key_values": "zero, ones, ascending, seeded"
                  + (" (quick: seeded on the full grid; the other three on %d boundary lengths x offsets 0,1)"
                     % len(LEN_EDGE) if q else ""),
                  "lengths": "0..273 all", "offsets": [0, 1, 2, 3], "directions": ["encrypt", "decrypt"],
                  "segmentations": ["one call"] + [list(p) for p in A.PAT_STREAM] + [list(p) for p in A.PAT_BLOCK],
                  "pairs_compared": a.n.get("aes_pairs", 0)},
            "B": {"nonce_lengths": list(A.GCM_NONCES_QUICK if q else A.GCM_NONCES_FULL) + ([12] if q else []),
                  "aad_lengths": "0..130 all", "message_lengths": "0..130 all",
                  "full_cross_product_for": "nonce 12, offset 0, one-call segmentation (the two incremental "
                  "segmentations on the band grid)" if q else "every nonce length, offset 0, 4 configurations",
                  "band_grid": "other nonce lengths / offsets 1..3: (a, m) with a or m in %s" % (list(A.BAND),),
                  "ghash_keys": 10 if q else A.GCM_KEYS_FULL, "pairs_compared": a.n.get("gcm_pairs", 0)},
            "C": {"operand_alphabet_size": len(V), "k": list(I.KS_QUICK if q else I.KS_FULL + I.KS_DEEP),
                  "operations": len(I.OPS), "binary_ops_on_all_ordered_pairs": len(I.BIN_OPS),
                  "moduli": len(I.moduli(q)), "shift_counts": list(I.SHIFTS),
                  "cases": a.n.get("int_cases", 0),
                  "excluded_two_preconditions": a.n.get("int_excluded_multi_precondition", 0),
                  "pow_cost_restriction_skipped": a.n.get("int_pow_skipped_cost", 0)},
            "D": {"configurations": list(CONFIGS), "sections": sorted(TRANSCRIPT_PARTS[tier]),
                  "items": a.n.get("transcript_items", 0),
                  "subprocesses": a.n.get("transcript_subprocesses", 0)},
        },
    })
    if not q:
        g = ctx.coverage_extra["grid"]
        allm = list(A.HONOUR) + list(A.CFB_EXTRA)
        g["A"]["wave2"] = {
            "cfb_segment_sizes": "all of 8, 16, .., 128 (%d more mode variants: %s)" % (len(A.CFB_EXTRA), list(A.CFB_EXTRA)),
            "params": {"what": "every parameter variant x 3 key sizes x every length 0..273 x offsets 0,1, seeded key, "
                               "segmentations one call / the two incremental / one-shot encrypt_and_digest+decrypt_and_verify",
                       "variants_per_mode": {m: len(A.param_variants(m)) for m in allm if A.param_variants(m)},
                       "variants": "IV value zero/ones/seeded (CBC, CFB*, OFB, OPENPGP); CTR nonce length 0..15 x initial "
                                   "value {0, 255, max-3, max-1} and 11 Counter.new layouts x big/little endian x 3 "
                                   "initial values; CCM nonce 7..13 x tag 4,6,..,16; EAX nonce {1,15,16,17,33} x tag "
                                   "2..16; GCM nonce {1,8,12,13,16,17,33} x tag 4..16; OCB nonce 1..15 x tag 8..16; "
                                   "SIV nonce {none,1,16,17} x 0..3 associated-data components",
                       "cases": a.n.get("aes_cases_params", 0)},
            "oneshot": {"what": "encrypt_and_digest / decrypt_and_verify on the basic parameters of CCM, EAX, GCM, OCB, "
                                "3 key sizes x 0..273 x offsets 0,1", "cases": a.n.get("aes_cases_oneshot", 0)},
            "long": {"lengths": "2^k + d for k = 9..20, d in {-16, -1, 0, 1, 16, 112, 113} (%d lengths up to %d bytes)"
                                % (len(LEN_LONG), max(LEN_LONG)),
                     "what": "%d mode variants (all but CTRwrap) and CTR with a 1-byte / 2-byte counter (initial value 0 "
                             "and max-3: key stream exhausted after 4096 bytes / 1 MiB, OverflowError) x 3 key sizes x "
                             "offsets 0,1, seeded key; one call and "
                             "large pieces %s / %s; up to 8193 bytes also the two small-piece segmentations"
                             % (len(allm) - 1, list(A.PAT_LONG_STREAM), list(A.PAT_LONG_BLOCK)),
                     "cases": a.n.get("aes_cases_long", 0)},
            "align": {"placements": "input address mod 16 in 0..15 x output address mod 16 in 0..15, plus in-place "
                                    "(output= the input buffer) at 16 input alignments: %d; modes without output= "
                                    "(OPENPGP, OCB): 16 input alignments" % len(PLACES_OUT),
                      "lengths": LEN_ALIGN, "what": "every mode variant x 3 key sizes, seeded key, all segmentations",
                      "cases": a.n.get("aes_cases_align", 0)},
            "values": {"keys": "per mode variant and key size: the 4 alphabet keys, every key with i leading one bits "
                               "(AESAVS VarKey, i = 1..key bits) and every key made of one repeated byte (256)",
                       "distinct_keys": len(d.get("aes_value_keys", ())),
                       "data": "6144 bytes = the 128 leading-ones blocks (AESAVS VarTxt) + the 256 one-byte-value blocks",
                       "cases": a.n.get("aes_cases_values", 0)},
        }
        g["B"]["wave2"] = {
            "nonce12_and_16_full_cross_product": "AAD 0..273 x message 0..273, 4 configurations, all segmentations",
            "nonce_lengths_all": "every nonce length 1..130 and 2^k-1, 2^k, 2^k+1 for k = 8..16 (%d lengths) on "
                                 "AAD, message in %s, offsets 0,1, 4 configurations" % (len(A.GCM_NONCES_ALL), list(A.BAND)),
            "mac_len": "every tag length 4..16 for nonce 12 and 16 on the band grid",
            "long": "AAD or message in %s (%d lengths up to %d) against %s, and the cross product of the lengths up to "
                    "%d; nonce 12 (4 configurations) and 16; offsets 0,1; one call, large pieces, small pieces up to 8193"
                    % ("2^k + {-1,0,1,16,48,49}, k = 8..16", len(A.GCM_LONG), max(A.GCM_LONG), list(A.BAND),
                       max(A.GCM_LONG_SMALL)),
            "align": "%d placements (input x output address mod 16, in-place) x AAD, message in the band values, "
                     "nonce 12 and 16" % len(PLACES_OUT),
            "ghash_keys": "%d AES keys on the band x band grid, nonce 12/16/17, offsets 0..3, 4 configurations"
                          % A.GCM_KEYS_FULL,
            "ghash_seam": {"what": "_mode_gcm._GHASH(H, implementation) called directly, CLMUL against portable",
                           "basis": "H in {128 single-bit values, 0, ones, ascending, 5 seeded} x messages of 1..%d "
                                    "blocks that are zero except one block, at every position, holding one of %d "
                                    "values (128 single bits, ones, seeded)" % (A.GHASH_MAX_BLOCKS,
                                                                                len(A.ghash_x_family())),
                           "chunking": "8 dense H x seeded data of 0..%d blocks x every split into two update() calls "
                                       "x data address mod 16 in 0..15 and a bytes object" % A.GHASH_CHUNK_BLOCKS,
                           "pairs_compared": a.n.get("ghash_pairs", 0)},
        }
        g["C"]["wave2"] = {
            "operand_alphabet": "%d values for every operation but pow3/ipow3/_mult_modulo_bytes, which keep the %d-value "
                                "alphabet of k = %s" % (len(V), len(I.pow_alphabet(q)), list(I.KS_FULL)),
            "moduli": "odd moduli 2^(64w)-1 and 2^(64w-1)+1 at every word count w = 1..33 (even shapes at w in %s), "
                      "the curve primes %s and their neighbours p-2, p+2"
                      % (list(I.WORDS_OLD), "P-256, P-384, P-521, Ed448, 2^255-19, P-224, P-192"),
            "sqrt_mod_curve_primes": "%d primes x (40 seeded residues and their squares + 8 boundary residues)"
                                     % len(I.CURVE_PRIMES_DEEP),
            "from_bytes_lengths": "0..139",
        }
        g["D"]["wave2"] = {
            "rsa-sign2": "11 keys x 7 more hash functions x 4 messages (PKCS#1 v1.5, PSS); PSS salt lengths "
                         "{0,1,hLen-1,hLen+1,max-1,max,max+1} x 3 hashes, MGF1 over another hash; OAEP 3 hashes x labels, "
                         "EVERY plaintext length 0..max+1 for the first two keys (SHA-1, SHA-256), boundary lengths otherwise; "
                         "PKCS#1 v1.5 encryption likewise; 14 more raw operands",
            "dsa2": "6 more hash functions x 4 messages x 2 encodings, 9 more messages, 11 forged/altered signatures, "
                    "per key size",
            "ecc2": "ECDSA 6 hashes x 4 private keys x 3 messages x 5 curves; 8 boundary private keys per curve; forged "
                    "signatures; 36 more decompression inputs + 5 boundary x; point arithmetic on 14 scalars x "
                    "Integer/int on 7 curves; point validation; 9 more EdDSA and XDH seeds; ECDH pairs",
            "primality2": "exhaustive range continued 2^17..2^19; 10 derived candidates per RSA fixture key, 8 per DSA "
                          "key, large Mersenne numbers, neighbours/products of curve primes; generation: 3 more seeds per "
                          "size, sizes up to 1024 bits, 5 more safe primes",
            "keygen": "RSA.generate (1024..3072 bits, e in {3,17,257,65537}, 41 runs), DSA.generate (1024 x 8, 2048 x 3, "
                      "4 with a given domain), ElGamal.generate (256 x 6, 320 x 2), ECC.generate (9 curves x 4) from "
                      "explicit entropy: complete keys and the amount of entropy consumed",
        }
    ctx.assume("data VALUES are limited to the alphabet (keys: zero/ones/ascending/seeded; data: ascending patterns); "
               "only shapes (lengths, offsets, segmentations, operand boundary values) are enumerated completely")
    if not q:
        ctx.assume("part B wave 2: the GHASH subkey H can be chosen only below AES.new (H = AES_K(0)); the single-bit H "
                   "family is run through the internal class Crypto.Cipher._mode_gcm._GHASH, the object GCM itself uses")
    ctx.assume("part C: modular pow with an exponent above %d bits is crossed only with moduli of at most %s "
               "(cost bound; counted in pow_cost_restriction_skipped)" % ((130, "4 (and 1)") if q else (600, "1100 bits")))
    ctx.assume("part C: exception classes are compared only when the operands violate exactly one documented "
               "precondition; operands violating two or more are logged as observations")
    ctx.assume("part C: left shifts by more than 70000 bits are not executed (result size); right shifts and get_bit go to 2^64")
    ctx.assume("exception MESSAGES are never compared, only classes")
    ctx.assume("RsaKey.export_key(pkcs=8, passphrase=...) does not forward randfunc to PKCS8.wrap, so for that item only "
               "the length of the container and the re-imported key are compared")
    ctx.assume("OS-level selection (a machine without AES-NI/CLMUL/libgmp) is emulated through the library's own "
               "switches (use_aesni, use_clmul, PYCRYPTODOME_DISABLE_GMP, unimportable modules); cpuid itself is not faked")


def replay(case, acc):
    part = case["part"]
    place = case.get("place")
    if part == "aes":
        A.install_counters()
        A.aes_case(case["mode"], case["key"], case["data"], case["off"], acc, case.get("pv"), place,
                   tuple(case.get("incs", (0, 1, 2))))
    elif part == "gcm":
        A.install_counters()
        A.gcm_case(case["key"], case["nonce"], case["aad"], case["msg"], case["off"],
                   [tuple(c) for c in case["cfgs"]], acc, incs=tuple(case.get("incs", (0, 1, 2))),
                   mac_len=case.get("mac_len", 16), place=place)
    elif part == "aes-crash":
        A.aes_crash_case(case["mode"], case["key"], case["data"], case["off"], acc, case.get("pv"), place,
                         tuple(case.get("incs", (0, 1, 2))))
    elif part == "gcm-crash":
        A.gcm_crash_case(case["key"], case["nonce"], case["aad"], case["msg"], case["off"],
                         [tuple(c) for c in case["cfgs"]], tuple(case.get("incs", (0, 1, 2))), acc,
                         case.get("mac_len", 16), place)
    elif part == "ghash":
        A.ghash_case(case["h"], case["chunks"], case["align"], acc, case.get("what", "basis"))
    elif part == "int":
        I.int_case(case["op"], tuple(case["args"]), acc)
    elif part == "transcript":
        transcript_compare(case["section"], case["tier"], case.get("p", 0), case.get("n", 1), case.get("label"), acc)
    else:
        acc.error("unknown replay part %r" % (part,))
