"""C16 - interchangeable implementations (AES-NI, CLMUL, integer back-ends) agree exactly.

Purely differential bounded-exhaustive exploration (ShapeExplorer): the same input is evaluated under
every configuration and all observations must be pairwise identical.

  part A  AES use_aesni=True/False x key sizes x 16 mode variants x every data length 0..273 x buffer
          offsets 0..3 (memoryview slices, misaligned output= buffers) x encrypt/decrypt x one call and
          two incremental segmentations                                          (_c16_aes.aes_case)
  part B  GCM use_clmul=True/False (thorough: crossed with use_aesni) x nonce lengths x every
          AAD length 0..130 x every message length 0..130                         (_c16_aes.gcm_case)
  part C  IntegerGMP / IntegerCustom / IntegerNative imported directly in one process on the operand
          alphabet of DESIGN C14: value, type class of the result, exception class  (_c16_int.int_case)
  part D  whole-library transcripts in three subprocesses (GMP default / PYCRYPTODOME_DISABLE_GMP=1 /
          native forced by poisoning sys.modules): RSA signatures and encryption, RFC 6979 DSA/ECDSA,
          EdDSA, key export/import bytes, point decompression, Primality verdicts on pseudoprime
          families, prime generation from explicit entropy, RSA.construct factor recovery - the
          transcripts must be byte-identical                                      (_c16_script)
"""
import os
import subprocess
import sys
import time

from ..common import Acc, chunks, short
from . import _c16_aes as A
from . import _c16_int as I
from . import _c16_script as S

LEVEL = "exploration"
RULE = ("complete enumeration of the stated grids; every case is executed under each interchangeable "
        "configuration and the observations compared pairwise. A case is distinct by (part, mode/operation, "
        "key size, operand/shape, buffer offset, segmentation, direction); distinct_nontrivial counts the distinct "
        "behaviour classes actually observed: AES (mode, key size, number of blocks, partial block?, offset, "
        "direction, segmentation, outcome class), GCM (nonce length, AAD blocks, partial?, message blocks, "
        "partial?, offset, segmentation, direction, outcome), integers (operation, outcome type/exception, "
        "number of violated preconditions), transcripts (item family, outcome class)")
BUDGET = {"quick": 240, "thorough": 1800}

VERIF_DIR = os.path.dirname(os.path.dirname(os.path.dirname(os.path.abspath(__file__))))
CONFIGS = ("default", "nogmp", "native")

LEN_ALL = list(range(0, 2 * 8 * 16 + 17 + 1))            # 0..273
LEN_KW = [0, 1, 8, 9, 15, 16, 17, 24, 32, 40, 64, 65, 128, 136, 273]
LEN_EDGE = [0, 1, 15, 16, 17, 31, 32, 33, 127, 128, 129, 143, 144, 145, 255, 256, 257, 272, 273]


# ---------------------------------------------------------------------------
# part D plumbing
# ---------------------------------------------------------------------------
def run_script(cfg, section, part, nparts, tier, only=None):
    """-> dict(rc, backend, crypto, items=[(label, value)], complete, err)"""
    env = dict(os.environ)                       # inherits PYTHONPATH (scratch tree first)
    env.pop("PYCRYPTODOME_DISABLE_GMP", None)
    if cfg == "nogmp":
        env["PYCRYPTODOME_DISABLE_GMP"] = "1"
    cmd = [sys.executable, "-m", "mc.props._c16_script", cfg, section, str(part), str(nparts), tier]
    if only is not None:
        cmd.append(only)
    try:
        r = subprocess.run(cmd, cwd=VERIF_DIR, env=env, stdin=subprocess.DEVNULL, stdout=subprocess.PIPE,
                           stderr=subprocess.PIPE, timeout=1500)
        rc, out, err = r.returncode, r.stdout.decode("utf-8", "replace"), r.stderr.decode("utf-8", "replace")
    except subprocess.TimeoutExpired:
        rc, out, err = 124, "", "timeout"
    res = {"rc": rc, "backend": None, "crypto": None, "items": [], "complete": False, "err": err[-1500:]}
    for line in out.split("\n"):
        if not line:
            continue
        if line.startswith("#backend\t"):
            res["backend"] = line.split("\t", 1)[1]
        elif line.startswith("#crypto\t"):
            res["crypto"] = line.split("\t", 1)[1]
        elif line == "#end":
            res["complete"] = True
        else:
            lab, _, val = line.partition("\t")
            res["items"].append((lab, val))
    return res


def stem(label):
    """item family = first path component of the label (rsa-sign, rsa-export, dsa-sign, ecdsa, primality, ...)"""
    return label.split("/")[0]


def transcript_compare(section, tier, part, nparts, only, acc):
    import Crypto
    res = {}
    for cfg in CONFIGS:
        res[cfg] = r = run_script(cfg, section, part, nparts, tier, only)
        acc.count("transcript_subprocesses")
        if r["rc"] < 0 or r["rc"] == 124:
            continue
        if r["rc"] != 0 or not r["complete"]:
            acc.error("transcript subprocess %s/%s part %d failed rc=%d: %s" % (cfg, section, part, r["rc"], r["err"]))
            return
        if r["crypto"] != os.path.realpath(os.path.dirname(Crypto.__file__)):
            acc.error("transcript subprocess imported Crypto from %s, driver uses %s"
                      % (r["crypto"], os.path.dirname(Crypto.__file__)))
            return
        acc.seen("transcript_backends", (cfg, r["backend"]))
    died = [c for c in CONFIGS if res[c]["rc"] < 0 or res[c]["rc"] == 124]
    if died:
        if len(died) == len(CONFIGS):
            acc.error("all transcript subprocesses died (%s part %d): %s" % (section, part, res[died[0]]["err"]))
            return
        last = res[died[0]]["items"][-1][0] if res[died[0]]["items"] else "(first item)"
        acc.violation("C16/transcript/%s/process-died/%s" % (section, "+".join(died)),
                      "section %s part %d/%d: the interpreter died or hung (rc=%s) under configuration %s after item %s "
                      "while the other configurations completed"
                      % (section, part, nparts, res[died[0]]["rc"], "+".join(died), last),
                      {"part": "transcript", "section": section, "tier": tier, "p": part, "n": nparts, "label": only})
        return
    base = res["default"]["items"]
    labels = [l for l, _ in base]
    for cfg in CONFIGS[1:]:
        if [l for l, _ in res[cfg]["items"]] != labels:
            acc.error("transcript item labels differ between default and %s in section %s" % (cfg, section))
            return
    if only is not None and not base:
        acc.error("transcript item %r not found in section %s" % (only, section))
        return
    for i, (lab, v0) in enumerate(base):
        acc.count("transcript_items")
        acc.seen("transcript_classes", (stem(lab), v0.split(":")[1][:24] if v0.startswith("EXC:") else "ok"))
        differing = []
        for cfg in CONFIGS[1:]:
            v = res[cfg]["items"][i][1]
            acc.count("evaluations")
            if v != v0:
                differing.append((cfg, v))
        if differing:
            # one key per item family and set of diverging back-ends
            names = "+".join(res[c]["backend"] for c, _ in differing)
            acc.violation("C16/transcript/%s/%s-vs-%s" % (stem(lab), names, res["default"]["backend"]),
                          "transcript item %s: %s -> %s ; %s"
                          % (lab, res["default"]["backend"], _sh(v0, differing[0][1]),
                             " ; ".join("%s -> %s" % (res[c]["backend"], _sh(v, v0)) for c, v in differing)),
                          {"part": "transcript", "section": section, "tier": tier, "p": part, "n": nparts,
                           "label": lab})
    if base:
        acc.sample({"part": "transcript", "section": section, "items": len(base), "first_item": base[0][0],
                    "value": base[0][1][:80]})


def _sh(v, other):
    """show the neighbourhood of the first difference"""
    i = 0
    while i < min(len(v), len(other)) and v[i] == other[i]:
        i += 1
    a = max(0, i - 24)
    return "%s[%d chars, differs at %d: ..%s..]" % (v[:16], len(v), i, v[a:i + 40])


def transcript_worker(shards):
    acc = Acc()
    for section, part, nparts, tier in shards:
        transcript_compare(section, tier, part, nparts, None, acc)
    return acc


# ---------------------------------------------------------------------------
def aes_shards(quick):
    sh = []
    for mode in A.MODES:
        for klen in (16, 24, 32):
            if mode in A.IGNORES_AESNI_EXPECTED:
                # the switch is not forwarded (measured, reported as an observation): a small grid only,
                # enough to notice if that ever changes
                sh.append([(mode, klen, kv, LEN_KW, (0, 1)) for kv in ((3,) if quick else range(4))])
                continue
            if quick:
                sh.append([(mode, klen, 3, LEN_ALL, (0, 1, 2, 3))])
                sh.append([(mode, klen, kv, LEN_EDGE, (0, 1)) for kv in (0, 1, 2)])
            else:
                for kv in range(4):
                    sh.append([(mode, klen, kv, LEN_ALL, (0, 1, 2, 3))])
    return sh


def gcm_shards(quick):
    T, F = True, False
    two = [(T, T), (F, T)]
    four = [(T, T), (F, T), (T, F), (F, F)]
    allr = list(range(0, 131))
    sh = []
    if quick:
        for c in chunks(allr, 8):
            sh.append([("full1", 3, 12, c, allr, (0,), two)])
        sh.append([("band", 3, 12, allr, allr, (0,), two)])
        for nl in A.GCM_NONCES_QUICK:
            sh.append([("band", 3, nl, allr, allr, (0,), two)])
        sh.append([("band", 3, 12, allr, allr, (1, 2, 3), two)])
        for ki in range(10):
            sh.append([("full", ki, nl, A.BAND, A.BAND, (0, 1), four) for nl in (12, 16)])
    else:
        for nl in A.GCM_NONCES_FULL:
            for c in chunks(allr, 6):
                sh.append([("full", 3, nl, c, allr, (0,), four)])
            sh.append([("band", 3, nl, allr, allr, (1, 2, 3), two)])
        for ki in range(10):
            sh.append([("full", ki, nl, A.BAND, A.BAND, (0, 1, 2, 3), four) for nl in (12, 16, 17)])
    return sh


TRANSCRIPT_PARTS = {"quick": {"rsa-sign": 4, "rsa-keys": 6, "dsa": 8, "ecc": 4, "primality": 6, "misc": 1},
                    "thorough": {"rsa-sign": 8, "rsa-keys": 8, "dsa": 12, "ecc": 6, "primality": 40, "misc": 1}}


def run(ctx):
    q = ctx.quick
    a = ctx.acc
    phases = {}

    def timed(name, fn, shards):
        t = time.time()
        ctx.pmap(fn, shards)
        phases[name] = round(time.time() - t, 1)
    ctx.coverage_extra["phase_wall_s"] = phases

    # ---- what exists on this machine ---------------------------------------------------
    have_ni, have_clmul = A.cpu()
    try:
        ni_lib = A.install_counters()
    except RuntimeError as e:
        a.error(str(e))
        return
    from Crypto.Cipher import _mode_gcm
    clmul_lib = getattr(_mode_gcm, "_ghash_clmul", None) is not None
    ctx.coverage_extra["cpu"] = {"aes_ni": have_ni, "clmul": have_clmul, "aesni_library_loaded": ni_lib,
                                 "clmul_library_loaded": clmul_lib}
    if not ni_lib:
        ctx.assume("this machine offers no AES-NI (or the _raw_aesni extension is absent): use_aesni=True and False "
                   "run the same portable code, part A compares nothing meaningful")
    if not clmul_lib:
        ctx.assume("this machine offers no CLMUL (or _ghash_clmul is absent): part B compares nothing meaningful")
    try:
        names = [n for n, _ in I.backends()]
    except Exception as e:  # noqa
        a.error("harness cannot reach seam Crypto.Math._Integer{GMP,Custom,Native}: %r" % (e,))
        return
    from ..ref import nt
    try:
        nt.selftest()
    except Exception as e:  # noqa
        a.error("mc.ref.nt selftest failed (generator of the pseudoprime families): %r" % (e,))
        return

    # ---- D first (subprocess start-up latency overlaps nothing else, longest shards first) ----
    tier = ctx.tier
    tsh = []
    for sec in ("dsa", "rsa-keys", "primality", "rsa-sign", "ecc", "misc"):
        n = TRANSCRIPT_PARTS[tier][sec]
        tsh += [[(sec, p, n, tier)] for p in range(n)]
    timed("D-transcripts", transcript_worker, tsh)
    timed("A-aesni", A.aes_worker, aes_shards(q))
    timed("B-gcm-clmul", A.gcm_worker, gcm_shards(q))
    ish = I.int_shards(q)
    timed("C-integers", I.int_worker, [[s] for s in ish])

    # ---- vacuity guards -----------------------------------------------------------------------
    d = a.distinct
    # A: the switch must really have selected the other library, in every mode that forwards it
    honoured, ignored = [], []
    for mode in A.MODES:
        recs = set(r[1:] for r in d.get("aes_backend", ()) if r[0] == mode)
        if recs == {(True, True, False), (False, False, True)}:
            honoured.append(mode)
        else:
            ignored.append(mode)
    if ni_lib:
        for mode in ignored:
            a.observe("AES.new(key, MODE_%s, use_aesni=False) still runs the AES-NI library: the switch is not "
                      "forwarded by this mode, so both configurations execute the same code (no divergence possible, "
                      "nothing compared)" % mode)
        unexpected = [m for m in ignored if m not in A.IGNORES_AESNI_EXPECTED]
        if not a.caps:      # (a shard abandoned after a native crash has no measurements; the crash is the verdict)
            ctx.require(not unexpected, "use_aesni is not effective in modes %s: part A would be vacuous there"
                        % unexpected)
            ctx.require(len(honoured) >= 14, "fewer than 14 mode variants honour use_aesni (%s)" % honoured)
    outc = set(c[-1] for c in d.get("aes_classes", ()))
    ctx.require("ok" in outc and "raises:ValueError" in outc, "AES part saw outcomes %s only" % sorted(outc))
    ctx.require(len(d.get("aes_classes", ())) >= (3000 if q else 3000), "AES part: too few behaviour classes")
    # B
    if clmul_lib:
        ctx.require(set(d.get("gcm_backend", ())) == {(True, "clmul"), (False, "portable")},
                    "use_clmul did not select the expected GHASH implementations: %s" % sorted(d.get("gcm_backend", ())))
    hb = d.get("gcm_h_bits", set())
    ctx.require({x[0] for x in hb} == {0, 1} and {x[1] for x in hb} == {0, 1},
                "GHASH keys do not cover both values of H's first and last bit: %s" % sorted(hb))
    ctx.require(len(d.get("gcm_classes", ())) >= 1000, "GCM part: too few behaviour classes")
    # C
    ic = d.get("int_classes", set())
    kinds = set(c[1] for c in ic)
    ctx.require({"Integer", "bool", "bytes", "self", "raises:ValueError", "raises:ZeroDivisionError"} <= kinds,
                "integer part saw result kinds %s only" % sorted(kinds))
    ctx.require(len(ic) >= 100, "integer part: fewer than 100 (operation, outcome, preconditions) classes")
    ctx.require(a.n.get("int_excluded_multi_precondition", 0) > 0 or
                any(c[2] == 2 for c in ic), "no operand violating two preconditions was generated")
    tags = d.get("int_tags", set())
    ctx.require(("pow", "modulus-1") in tags and ("pow", "negative-base-odd-modulus") in tags,
                "the inputs of known defect #18 (pow modulus 1 / negative base, odd modulus) were not enumerated")
    # D
    tb = dict(d.get("transcript_backends", ()))
    ctx.coverage_extra["transcript_backends"] = tb
    ctx.require(set(tb) == set(CONFIGS), "transcript subprocesses did not all run: %s" % tb)
    if tb.get("default") != "IntegerGMP":
        ctx.assume("libgmp could not be loaded: the default configuration is %s, the GMP back-end is not covered "
                   "by part D" % tb.get("default"))
    ctx.require(tb.get("nogmp") in ("IntegerCustom", "IntegerNative") and tb.get("native") == "IntegerNative",
                "configuration switches did not select the expected integer back-ends: %s" % tb)
    if tb.get("nogmp") != "IntegerCustom":
        ctx.assume("the custom C back-end (_modexp) could not be loaded: PYCRYPTODOME_DISABLE_GMP=1 selects the "
                   "native back-end")
    tc = d.get("transcript_classes", set())
    ctx.require(a.n.get("transcript_items", 0) >= (900 if q else 1500), "too few transcript items (%d)"
                % a.n.get("transcript_items", 0))
    ctx.require(any(c[1] == "ok" for c in tc) and any(c[1] != "ok" for c in tc),
                "transcripts contain no refusal or no success")

    V = I.alphabet(q)
    ctx.coverage_extra.update({
        "evaluations": a.n.get("evaluations", 0),
        "distinct_nontrivial": sum(len(d.get(k, ())) for k in ("aes_classes", "gcm_classes", "int_classes",
                                                               "transcript_classes")),
        "exhaustive": not a.caps,
        "grid": {
            "A": {"modes": list(A.MODES), "honour_use_aesni": honoured, "ignore_use_aesni": ignored,
                  "key_sizes": [16, 24, 32], "key_values": "zero, ones, ascending, seeded"
                  + (" (quick: seeded on the full grid; the other three on %d boundary lengths x offsets 0,1)"
                     % len(LEN_EDGE) if q else ""),
                  "lengths": "0..273 all", "offsets": [0, 1, 2, 3], "directions": ["encrypt", "decrypt"],
                  "segmentations": ["one call"] + [list(p) for p in A.PAT_STREAM] + [list(p) for p in A.PAT_BLOCK],
                  "pairs_compared": a.n.get("aes_pairs", 0)},
            "B": {"nonce_lengths": list(A.GCM_NONCES_QUICK if q else A.GCM_NONCES_FULL) + ([12] if q else []),
                  "aad_lengths": "0..130 all", "message_lengths": "0..130 all",
                  "full_cross_product_for": "nonce 12, offset 0, one-call segmentation (the two incremental "
                  "segmentations on the band grid)" if q else "every nonce length, offset 0, 4 configurations",
                  "band_grid": "other nonce lengths / offsets 1..3: (a, m) with a or m in %s" % (list(A.BAND),),
                  "ghash_keys": 10, "pairs_compared": a.n.get("gcm_pairs", 0)},
            "C": {"operand_alphabet_size": len(V), "k": list(I.KS_QUICK if q else I.KS_FULL),
                  "operations": len(I.OPS), "binary_ops_on_all_ordered_pairs": len(I.BIN_OPS),
                  "moduli": len(I.moduli(q)), "shift_counts": list(I.SHIFTS),
                  "cases": a.n.get("int_cases", 0),
                  "excluded_two_preconditions": a.n.get("int_excluded_multi_precondition", 0),
                  "pow_cost_restriction_skipped": a.n.get("int_pow_skipped_cost", 0)},
            "D": {"configurations": list(CONFIGS), "sections": sorted(S.SECTIONS), "items": a.n.get("transcript_items", 0),
                  "subprocesses": a.n.get("transcript_subprocesses", 0)},
        },
    })
    ctx.assume("data VALUES are limited to the alphabet (keys: zero/ones/ascending/seeded; data: ascending patterns); "
               "only shapes (lengths, offsets, segmentations, operand boundary values) are enumerated completely")
    ctx.assume("part C: modular pow with an exponent above %d bits is crossed only with moduli of at most %s "
               "(cost bound; counted in pow_cost_restriction_skipped)" % ((130, "4 (and 1)") if q else (600, "1100 bits")))
    ctx.assume("part C: exception classes are compared only when the operands violate exactly one documented "
               "precondition; operands violating two or more are logged as observations")
    ctx.assume("part C: left shifts by more than 70000 bits are not executed (result size); right shifts and get_bit go to 2^64")
    ctx.assume("exception MESSAGES are never compared, only classes")
    ctx.assume("RsaKey.export_key(pkcs=8, passphrase=...) does not forward randfunc to PKCS8.wrap, so for that item only "
               "the length of the container and the re-imported key are compared")
    ctx.assume("OS-level selection (a machine without AES-NI/CLMUL/libgmp) is emulated through the library's own "
               "switches (use_aesni, use_clmul, PYCRYPTODOME_DISABLE_GMP, unimportable modules); cpuid itself is not faked")


def replay(case, acc):
    part = case["part"]
    if part == "aes":
        A.install_counters()
        A.aes_case(case["mode"], case["key"], case["data"], case["off"], acc)
    elif part == "gcm":
        A.install_counters()
        A.gcm_case(case["key"], case["nonce"], case["aad"], case["msg"], case["off"],
                   [tuple(c) for c in case["cfgs"]], acc, incs=tuple(case.get("incs", (0, 1, 2))))
    elif part == "aes-crash":
        A.aes_crash_case(case["mode"], case["key"], case["data"], case["off"], acc)
    elif part == "gcm-crash":
        A.gcm_crash_case(case["key"], case["nonce"], case["aad"], case["msg"], case["off"],
                         [tuple(c) for c in case["cfgs"]], tuple(case.get("incs", (0, 1, 2))), acc)
    elif part == "int":
        I.int_case(case["op"], tuple(case["args"]), acc)
    elif part == "transcript":
        transcript_compare(case["section"], case["tier"], case.get("p", 0), case.get("n", 1), case.get("label"), acc)
    else:
        acc.error("unknown replay part %r" % (part,))
