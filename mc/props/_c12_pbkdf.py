"""C12 parts: PBKDF2, PBKDF1, HKDF, SP 800-108 counter mode."""
import hashlib

from ..common import short
from ..ref import kdf as rkdf
from ._c12_base import (HarnessError, HSPEC, ALL_HASHES, MODULE_HASHES, OBJECT_HASHES, FAST_EXPECTED,
                        have_ref, lib_hash, ref_name, hlen, hblock, mk, as_bytes, lenclass, digest8,
                        run_lib, raised, cmp_bytes, cmp_multi)

# ---------------------------------------------------------------------------
# PBKDF2
# ---------------------------------------------------------------------------
PRFS = {"prf:HMAC-SHA256": (32, 64), "prf:py-sha3-24": (24, 64), "prf:CMAC-AES": (16, 16)}


def _py_prf24(p, s):
    return hashlib.sha3_256(len(p).to_bytes(4, "big") + p + s).digest()[:24]


def _lib_prf(label):
    if label == "prf:HMAC-SHA256":
        from Crypto.Hash import HMAC, SHA256
        return lambda p, s: HMAC.new(p, s, SHA256).digest()
    if label == "prf:py-sha3-24":
        return _py_prf24
    if label == "prf:CMAC-AES":
        from Crypto.Hash import CMAC
        from Crypto.Cipher import AES
        return lambda p, s: CMAC.new(p, s, ciphermod=AES).digest()
    raise HarnessError("unknown prf %r" % label)


def _ref_cmac_prf():
    from ..ref import modes, aes
    cache = {}

    def prf(p, s):
        c = cache.get(p)
        if c is None:
            c = cache[p] = aes.AES(p)
        return modes.cmac(c, s)
    return prf


def sizes(label):
    if label in PRFS:
        return PRFS[label]
    return hlen(label), hblock(label)


_PATH = {}


def path_of(label):
    p = _PATH.get(label)
    if p is None:
        if label in PRFS:
            p = "prf"
        else:
            p = "fast" if hasattr(lib_hash(label), "_pbkdf2_hmac_assist") else "generic"
        _PATH[label] = p
    return p


def pbkdf2_refs(label, pw, salt, count, maxlen):
    """the specified stream of maxlen bytes, from two independent oracles where two exist"""
    if label in HSPEC or label == "prf:HMAC-SHA256":
        name = ref_name(label) if label in HSPEC else "sha256"
        a = rkdf.pbkdf2_hmac(name, pw, salt, count, maxlen)
        if name in hashlib.algorithms_available:
            b = hashlib.pbkdf2_hmac(name, pw, salt, count, maxlen)
            if a != b:
                raise HarnessError("PBKDF2 oracles disagree: %s pw=%s salt=%s count=%d len=%d"
                                   % (name, short(pw), short(salt), count, maxlen))
        return a
    if label == "prf:py-sha3-24":
        return rkdf.pbkdf2(_py_prf24, pw, salt, count, maxlen)
    if label == "prf:CMAC-AES":
        return rkdf.pbkdf2(_ref_cmac_prf(), pw, salt, count, maxlen)
    raise HarnessError("unknown label %r" % label)


_SCRIPT_PBKDF2 = '''# stand-alone reproduction (needs only pycryptodome + hashlib)
import hashlib
from Crypto.Protocol.KDF import PBKDF2
from Crypto.Hash import %(mod)s
pw, salt = bytes.fromhex("%(pw)s"), bytes.fromhex("%(salt)s")
got = PBKDF2(pw, salt, %(dk)d, %(count)d, hmac_hash_module=%(mod)s)
exp = hashlib.pbkdf2_hmac("%(name)s", pw, salt, %(count)d, %(dk)d)
print(got.hex()); print(exp.hex()); print("equal" if got == exp else "DIFFERENT")
'''


def pbkdf2_line(label, pw, salt, count, dklens, acc, light=False, countclass=False):
    """light: part of a large length product; no sample / output digest is recorded"""
    from Crypto.Protocol import KDF
    pwb, sb = as_bytes(pw), as_bytes(salt)
    h, blk = sizes(label)
    dklens = list(dklens)
    stream = pbkdf2_refs(label, pwb, sb, count, max(dklens))
    path = path_of(label)
    kb = "C12/pbkdf2/" + (("fast/" + label) if path == "fast" else path)
    if label in PRFS:
        prf = _lib_prf(label)
        call = lambda dk: KDF.PBKDF2(pw, salt, dk, count, prf=prf)
    else:
        hm = lib_hash(label)
        call = lambda dk: KDF.PBKDF2(pw, salt, dk, count, hmac_hash_module=hm)
    pc, sc = lenclass(len(pwb), blk), lenclass(len(sb), blk)
    for dk in dklens:
        acc.count("evaluations")
        acc.count("pbkdf2/" + path)
        nb = -(-dk // h)
        if nb > 1:
            acc.count("pbkdf2/multiblock")
        if len(pwb) > blk:
            acc.count("pbkdf2/longpw")
        case = {"part": "pbkdf2", "h": label, "pw": pw, "salt": salt, "count": count, "dk": dk}
        what = "PBKDF2(%s [%s path], password %s, salt %s, dkLen=%d, count=%d)" % (
            label, path, short(pw, 24), short(salt, 24), dk, count)
        script = None
        if label in MODULE_HASHES and ref_name(label) in hashlib.algorithms_available:
            script = _SCRIPT_PBKDF2 % {"mod": label, "pw": pwb.hex(), "salt": sb.hex(), "dk": dk,
                                       "count": count, "name": ref_name(label)}
        r = run_lib(lambda: call(dk))
        if r[0] == "exc":
            raised(acc, kb, what, case, r[1], script)
            out = "exc"
        else:
            out = "ok" if cmp_bytes(acc, kb, what, case, r[1], stream[:dk], script) else "bad"
        acc.seen("classes", ("pbkdf2", label, path, count if not countclass else "all-counts", nb, dk % h != 0, pc, sc, out))
        if nb >= 256:
            acc.count("pbkdf2/blocks>=256")
        if nb >= 65536:
            acc.count("pbkdf2/blocks>=65536")
    if light:
        return
    acc.seen("outputs", digest8(stream))
    acc.sample({"part": "pbkdf2", "hash": label, "path": path, "password_len": len(pwb), "salt_len": len(sb),
                "count": count, "dkLens": "%d..%d (%d values)" % (min(dklens), max(dklens), len(dklens)),
                "stream": stream[:16]})


def _lens(blk):
    out = []
    for v in (0, 1, blk - 1, blk, blk + 1, 200):
        if v not in out and v >= 0:
            out.append(v)
    return out


def _combos(label, quick):
    h, blk = sizes(label)
    if label == "prf:CMAC-AES":
        pws = [16, 24, 32]
        sl = _lens(16)
        return [(p, s) for p in pws for s in (sl if not quick else (0, 1, 17))]
    L = _lens(blk)
    if quick and label in OBJECT_HASHES:
        return [(p, 1) for p in L] + [(1, s) for s in L if s != 1]
    return [(p, s) for p in L for s in L]


def _bound(h):
    return [1, h - 1, h, h + 1, 2 * h, 2 * h + 1, 3 * h, 3 * h + 1]


def _pb_cost(label, count, dklens, path):
    h, _ = sizes(label)
    per = 0.8e-6 if path == "fast" else 30e-6
    blocks = sum(-(-d // h) for d in dklens)
    c = 40e-6 * len(dklens) + blocks * count * per
    nbmax = -(-max(dklens) // h)
    rname = ref_name(label) if label in HSPEC else ""
    refper = {"md2": 350e-6, "md4": 150e-6}.get(rname, 90e-6 if label == "prf:CMAC-AES" else 6e-6)
    return c + nbmax * count * refper


def pbkdf2_labels():
    return [l for l in ALL_HASHES if have_ref(l)] + list(PRFS)


# thorough tier only -----------------------------------------------------------------------------
PB_DK_BLOCKS = {True: 3, False: 8}          # every dkLen 1..k*hLen+1 (quick: 3, thorough: 8)
PB_EXTRA_COUNTS = (4, 5, 8, 16, 100)        # all paths, cross grid, every dkLen 1..3h+1
PB_EXTRA_COUNTS_FAST = (255, 256, 257, 4096)  # C fast path only, cross grid, every dkLen 1..3h+1
PB_LENS_COUNTS = (1, 2)                     # full password x salt length product
PB_ALLCOUNTS = {"fast": 1024, "generic": 256, "prf": 256}     # every iteration count 1..n on one shape
# 65537 output blocks: the library appends block by block (quadratic copying), so only small-hLen PRFs, one per code path
PB_64K = ("MD5", "SHA1", "SHA256", "RIPEMD160", "SHA3_224", "SHA1.new()", "prf:py-sha3-24", "prf:CMAC-AES")


def _cross(label):
    """one of (password length, salt length) varies over the length grid, the other is 1"""
    h, blk = sizes(label)
    if label == "prf:CMAC-AES":
        return [(p, s) for p in (16, 24, 32) for s in (0, 1, 17)]
    L = _lens(blk)
    return [(p, 1) for p in L] + [(1, s) for s in L if s != 1]


def _ctr_dklens(h):
    """output lengths around the block counter values 255, 256, 257 (second counter byte becomes non-zero)"""
    return (254 * h + 1, 255 * h, 255 * h + 1, 256 * h, 256 * h + 1, 257 * h)


def _ctr64k_dklens(h):
    """65537 blocks: block counters 65535 / 65536 / 65537 (third counter byte becomes non-zero) all contribute to the
    one output, which is compared in full"""
    return (65536 * h + 1,)


def _lens_pw_range(label):
    h, blk = sizes(label)
    return [16, 24, 32] if label == "prf:CMAC-AES" else list(range(0, 2 * blk + 2))


def pbkdf2_tasks(quick):
    T = []
    for label in pbkdf2_labels():
        h, blk = sizes(label)
        path = "fast" if label in FAST_EXPECTED else ("prf" if label in PRFS else "generic")
        top = PB_DK_BLOCKS[quick] * h + 1
        alldk = (1, top)
        combos = _combos(label, quick)
        for (p, s) in combos:
            for count in (1, 2, 3):
                dl = range(1, top + 1)
                T.append((_pb_cost(label, count, dl, path),
                          ("pbkdf2", label, ("asc", p), ("seed", s), count, "range", alldk)))
            if path == "fast" and (not quick or p == 1 or s == 1):
                dl = range(1, top + 1)
                T.append((_pb_cost(label, 1000, dl, path),
                          ("pbkdf2", label, ("asc", p), ("seed", s), 1000, "range", alldk)))
        if path != "fast":
            # count = 1000 on the slow paths: boundary dkLens on the (password, salt) length grid ...
            if quick:
                cs = [combos[0], combos[len(combos) // 2], combos[-1]]
                if label != "prf:CMAC-AES":
                    cs = [(1, 1), (blk + 1, 1), (1, blk + 1)]
            else:
                cs = combos
            for (p, s) in cs:
                T.append((_pb_cost(label, 1000, _bound(h), path),
                          ("pbkdf2", label, ("asc", p), ("seed", s), 1000, "list", tuple(_bound(h)))))
            # ... and every dkLen on one shape (thorough), cut in pieces to spread the work
            if not quick:
                shapes = [(blk + 1, blk + 1), (blk, 1), (200, 0)] if label != "prf:CMAC-AES" else [(32, 17), (16, 0)]
                step = max(8, (3 * h + 1) // 6)
                for (p, s) in shapes:
                    for lo in range(1, 3 * h + 2, step):
                        rg = (lo, min(lo + step - 1, 3 * h + 1))
                        T.append((_pb_cost(label, 1000, range(rg[0], rg[1] + 1), path),
                                  ("pbkdf2", label, ("asc", p), ("seed", s), 1000, "range", rg)))
        T.append((0.02, ("pbkdf2-values", label)))
        if not quick:
            # more iteration counts (cross grid, every dkLen 1..3h+1)
            counts = PB_EXTRA_COUNTS + (PB_EXTRA_COUNTS_FAST if path == "fast" else ())
            for (p, s) in _cross(label):
                for count in counts:
                    T.append((_pb_cost(label, count, range(1, 3 * h + 2), path),
                              ("pbkdf2", label, ("asc", p), ("seed", s), count, "range", (1, 3 * h + 1))))
            # block counter 255 -> 256 -> 257 and 65535 -> 65536 -> 65537
            shapes = [(1, 1), (blk + 1, blk + 1)] if label != "prf:CMAC-AES" else [(16, 1), (32, 17)]
            for (p, s) in shapes:
                for count in (1, 2):
                    T.append((_pb_cost(label, count, _ctr_dklens(h), path) * 2,
                              ("pbkdf2", label, ("asc", p), ("seed", s), count, "list", _ctr_dklens(h))))
            if label in PB_64K:
                pl = 16 if label == "prf:CMAC-AES" else 8
                T.append((6.0 * h / 16,
                          ("pbkdf2", label, ("asc", pl), ("seed", 8), 1, "list", _ctr64k_dklens(h))))
            # complete (password length) x (salt length) product, 0..2B+1 each
            pws = _lens_pw_range(label)
            per_line = (2.0e-3 if ref_name(label) == "md2" else 0.8e-3 if ref_name(label) == "md4" else 0.25e-3) \
                if label in HSPEC else (1.6e-3 if label == "prf:CMAC-AES" else 0.25e-3)
            nsalt = 2 * blk + 2
            step = max(1, int(3.0 / (per_line * nsalt)))
            for count in PB_LENS_COUNTS:
                for i in range(0, len(pws), step):
                    chunk = pws[i:i + step]
                    T.append((per_line * nsalt * len(chunk) * (1 + 0.3 * (count - 1)),
                              ("pbkdf2-lens", label, count, chunk[0], chunk[-1])))
            T.append((0.2, ("pbkdf2-values2", label)))
            # every iteration count 1..n
            ctop = PB_ALLCOUNTS[path]
            cstep = ctop // 4
            slow = {"md2": 12.0, "md4": 5.0}.get(ref_name(label) if label in HSPEC else "", 3.0 if label == "prf:CMAC-AES" else 1.0)
            for lo in range(1, ctop + 1, cstep):
                hi = lo + cstep - 1
                T.append(((lo + hi) / 2.0 * cstep * 2 * (7e-6 if path == "fast" else 40e-6) * slow,
                          ("pbkdf2-counts", label, lo, hi)))
    T.append((0.05, ("pbkdf2-misc",)))
    return T


def t_pbkdf2_lens(t, acc):
    """every password length x every salt length (0..2B+1 each), dkLen in {hLen, hLen+1}"""
    _, label, count, plo, phi = t
    h, blk = sizes(label)
    salts = [mk(("seed", n), "pbkdf2-salt") for n in range(0, 2 * blk + 2)]
    for p in _lens_pw_range(label):
        if not plo <= p <= phi:
            continue
        pw = mk(("asc", p))
        for salt in salts:
            pbkdf2_line(label, pw, salt, count, (h, h + 1), acc, light=True)
        acc.count("pbkdf2/lens-rows")
    acc.sample({"part": "pbkdf2-lens", "hash": label, "count": count, "password_lens": "%d..%d" % (plo, phi),
                "salt_lens": "0..%d" % (2 * blk + 1), "dkLens": [h, h + 1]})


def t_pbkdf2_counts(t, acc):
    """every iteration count lo..hi on one shape (password B+1 bytes, salt 16 bytes), dkLen hLen+1 (two blocks)"""
    _, label, lo, hi = t
    h, blk = sizes(label)
    pw = mk(("asc", 32 if label == "prf:CMAC-AES" else blk + 1))
    salt = mk(("seed", 16), "pbkdf2-salt")
    for count in range(lo, hi + 1):
        pbkdf2_line(label, pw, salt, count, (h + 1,), acc, light=True, countclass=True)
    acc.count("pbkdf2/all-counts", hi - lo + 1)


def t_pbkdf2_values2(t, acc):
    """value alphabet on more shapes (thorough)"""
    label = t[1]
    h, blk = sizes(label)
    pls = (16, 24, 32) if label == "prf:CMAC-AES" else (1, blk, blk + 1, 200)
    for pl in pls:
        for sl in (0, 16, blk + 1):
            for count in (1, 3):
                for pk in ("zero", "ones", "asc", "seed"):
                    for sk in ("zero", "ones", "asc", "seed"):
                        pbkdf2_line(label, mk((pk, pl), "pbkdf2-pwv"), mk((sk, sl), "pbkdf2-saltv"), count,
                                    [h - 1, 2 * h + 1], acc, light=True)


def t_pbkdf2(t, acc):
    _, label, pws, ss, count, kind, arg = t
    dl = range(arg[0], arg[1] + 1) if kind == "range" else list(arg)
    pbkdf2_line(label, mk(pws), mk(ss, "pbkdf2-salt"), count, dl, acc)


def t_pbkdf2_values(t, acc):
    label = t[1]
    h, blk = sizes(label)
    pl = 32 if label == "prf:CMAC-AES" else blk + 1
    for pk in ("zero", "ones", "asc", "seed"):
        for sk in ("zero", "ones", "asc", "seed"):
            pbkdf2_line(label, mk((pk, pl), "pbkdf2-pwv"), mk((sk, 16), "pbkdf2-saltv"), 2, [h + 1], acc)


def check_pbkdf2_default(pw, salt, acc):
    from Crypto.Protocol import KDF
    acc.count("evaluations")
    pwb, sb = as_bytes(pw), as_bytes(salt)
    exp = hashlib.pbkdf2_hmac("sha1", pwb, sb, 1000, 16)
    case = {"part": "pbkdf2-default", "pw": pw, "salt": salt}
    r = run_lib(lambda: KDF.PBKDF2(pw, salt))
    what = "PBKDF2(%r, %r) with default dkLen/count/hash" % (pw, salt)
    if r[0] == "exc":
        raised(acc, "C12/pbkdf2/defaults", what, case, r[1])
    else:
        cmp_bytes(acc, "C12/pbkdf2/defaults", what, case, r[1], exp)
    acc.seen("classes", ("pbkdf2", "defaults", type(pw).__name__, r[0]))


def t_pbkdf2_misc(t, acc):
    """defaults (HMAC-SHA1, dkLen 16, count 1000), text inputs (Latin-1), observations"""
    from Crypto.Protocol import KDF
    for pw, salt in ((b"password", b"salt"), ("p\xe4ssword", "s\xe4lt"), ("", b"\x00" * 8)):
        check_pbkdf2_default(pw, salt, acc)
        for label in ("SHA1", "SHA3_256", "prf:HMAC-SHA256"):
            pbkdf2_line(label, pw, salt, 3, [1, 33, 70], acc)
    # observations only: parameters the property text does not name
    for label, kw in (("fast", {}), ("generic", {"prf": _lib_prf("prf:HMAC-SHA256")})):
        r = run_lib(lambda: KDF.PBKDF2(b"p", b"s", 20, 0, **kw))
        acc.observe("PBKDF2 count=0 on the %s path: %s" % (
            label, ("returns %d bytes" % len(r[1])) if r[0] == "ok" else "refused with " + type(r[1]).__name__))
    from Crypto.Hash import BLAKE2b, BLAKE2s
    for name, hm in (("BLAKE2b module", BLAKE2b), ("BLAKE2b.new(digest_bits=256) object", BLAKE2b.new(digest_bits=256)),
                     ("BLAKE2s.new(digest_bits=256) object", BLAKE2s.new(digest_bits=256))):
        r = run_lib(lambda: KDF.PBKDF2(b"p", b"s", 20, 1, hmac_hash_module=hm))
        acc.observe("PBKDF2 with hmac_hash_module=%s: %s" % (
            name, "accepted (NOT compared with a reference)" if r[0] == "ok" else
            "not usable with HMAC (%s)" % type(r[1]).__name__))
    r = run_lib(lambda: KDF.PBKDF2(b"p", b"s", 20, 1, prf=_lib_prf("prf:HMAC-SHA256"),
                                   hmac_hash_module=lib_hash("SHA256")))
    acc.observe("PBKDF2 with both prf and hmac_hash_module: %s" % (
        "accepted" if r[0] == "ok" else "refused with " + type(r[1]).__name__))


def probe_fast_path(acc):
    """count the calls that reach <hash>._pbkdf2_hmac_assist (module attribute = seam)"""
    from Crypto.Protocol import KDF
    fast = []
    for label in MODULE_HASHES:
        mod = lib_hash(label)
        real = getattr(mod, "_pbkdf2_hmac_assist", None)
        if real is None:
            continue
        calls = []

        def spy(inner, outer, first, iterations, _real=real, _calls=calls):
            _calls.append(iterations)
            return _real(inner, outer, first, iterations)
        mod._pbkdf2_hmac_assist = spy
        try:
            out = KDF.PBKDF2(b"pw", b"salt", 2 * hlen(label) + 1, 7, hmac_hash_module=mod)
        finally:
            mod._pbkdf2_hmac_assist = real
        if calls == [7, 7, 7] and out == hashlib.pbkdf2_hmac(ref_name(label), b"pw", b"salt", 7, 2 * hlen(label) + 1):
            fast.append(label)
        else:
            acc.observe("PBKDF2 fast-path probe for %s: helper calls %r" % (label, calls))
    missing = [l for l in FAST_EXPECTED if l not in fast]
    if missing:
        acc.observe("hashes expected to have the PBKDF2 C helper but do not: %s" % ",".join(missing))
    return fast


# ---------------------------------------------------------------------------
# PBKDF1
# ---------------------------------------------------------------------------
PBKDF1_HASHES = ("MD2", "MD5", "SHA1", "default", "RIPEMD160", "SHA256", "SHA512", "SHA3_256")


def pbkdf1_line(label, pw, salt, count, dklens, acc, pwclass=False, countclass=False):
    """pwclass: classify the password by its length class (used by the all-lengths sweep)"""
    from Crypto.Protocol import KDF
    hl = "SHA1" if label == "default" else label
    h = hlen(hl)
    pwb = as_bytes(pw)
    stream = rkdf.pbkdf1(ref_name(hl), pwb, salt, count, h)
    if ref_name(hl) in hashlib.algorithms_available:       # second, inline oracle: RFC 8018 5.1
        t = hashlib.new(ref_name(hl), pwb + salt).digest()
        for _ in range(count - 1):
            t = hashlib.new(ref_name(hl), t).digest()
        if t != stream:
            raise HarnessError("PBKDF1 oracles disagree for %s" % hl)
    for dk in dklens:
        acc.count("evaluations")
        case = {"part": "pbkdf1", "h": label, "pw": pw, "salt": salt, "count": count, "dk": dk}
        what = "PBKDF1(password %s, salt %s, dkLen=%d, count=%d, hash=%s)" % (
            short(pw, 24), short(salt), dk, count, label)
        if label == "default":
            r = run_lib(lambda: KDF.PBKDF1(pw, salt, dk, count))
        else:
            r = run_lib(lambda: KDF.PBKDF1(pw, salt, dk, count, lib_hash(label)))
        too_long, bad_salt = dk > h, len(salt) != 8
        if too_long or bad_salt:
            if r[0] == "ok":
                if too_long:
                    acc.violation("C12/pbkdf1/too-long-accepted",
                                  "%s returned %d bytes although dkLen > hLen = %d must be refused"
                                  % (what, len(r[1]), h), case)
                else:
                    acc.violation("C12/pbkdf1/bad-salt-length-accepted",
                                  "%s returned a key although RFC 8018 5.1 defines an eight-octet salt" % what, case)
                out = "accepted"
            else:
                acc.count("pbkdf1/refused-too-long" if too_long else "pbkdf1/refused-salt")
                out = "refused:" + type(r[1]).__name__
                if not isinstance(r[1], ValueError):
                    acc.observe("PBKDF1 refuses %s with %s (not ValueError)"
                                % ("dkLen > hLen" if too_long else "a bad salt length", type(r[1]).__name__))
        elif r[0] == "exc":
            raised(acc, "C12/pbkdf1", what, case, r[1])
            out = "exc"
        else:
            acc.count("pbkdf1/ok")
            out = "ok" if cmp_bytes(acc, "C12/pbkdf1", what, case, r[1], stream[:dk]) else "bad"
        acc.seen("classes", ("pbkdf1", label, count if not countclass else min(count, 4),
                             lenclass(len(pwb), hblock(hl)) if pwclass else len(pwb),
                             len(salt), dk if dk <= 2 else
                             ("<h" if dk < h else ("=h" if dk == h else ">h")), out))
    acc.seen("outputs", digest8(stream))


PBKDF1_EXTRA_COUNTS = (4, 5, 16, 100, 255, 256, 257)      # thorough


def pbkdf1_tasks(quick):
    T = []
    for label in PBKDF1_HASHES:
        for count in (1, 2, 3, 1000):
            T.append((0.5 if (label == "MD2" and count == 1000) else 0.05, ("pbkdf1", label, count, quick)))
        if not quick:
            for count in PBKDF1_EXTRA_COUNTS:
                T.append((0.3 if label == "MD2" else 0.05, ("pbkdf1", label, count, quick)))
            for count in (1, 2, 3):
                T.append((0.1 if label == "MD2" else 0.03, ("pbkdf1-lens", label, count)))
            T.append((10.0 if label == "MD2" else 0.5, ("pbkdf1-counts", label)))
    T.append((0.01, ("pbkdf1-misc",)))
    return T


PBKDF1_ALLCOUNTS = 256


def t_pbkdf1_counts(t, acc):
    """every iteration count 1..256, dkLen hLen and hLen-1"""
    label = t[1]
    h = hlen("SHA1" if label == "default" else label)
    pw, salt = mk(("asc", 9)), mk(("seed", 8), "pbkdf1-salt")
    for count in range(1, PBKDF1_ALLCOUNTS + 1):
        pbkdf1_line(label, pw, salt, count, [h - 1, h], acc, countclass=True)
    acc.count("pbkdf1/all-counts", PBKDF1_ALLCOUNTS)


def t_pbkdf1_lens(t, acc):
    """every password length 0..2B+1 (B = block size of the hash) x 4 salt values, dkLen in {0,1,h-1,h} and h+1 refused"""
    _, label, count = t
    hl = "SHA1" if label == "default" else label
    h, blk = hlen(hl), hblock(hl)
    salts = [mk((k, 8), "pbkdf1-salt") for k in ("seed", "zero", "ones", "asc")]
    for n in range(0, 2 * blk + 2):
        pw = mk(("asc", n))
        for salt in (salts if n in (0, 1, blk - 1, blk, blk + 1) else salts[:1]):
            pbkdf1_line(label, pw, salt, count, [0, 1, h - 1, h, h + 1], acc, pwclass=True)
    acc.count("pbkdf1/lens-sweeps")


def t_pbkdf1(t, acc):
    _, label, count, quick = t
    h = hlen("SHA1" if label == "default" else label)
    good = list(range(0, h + 1))
    bad = [h + 1, h + 2, 2 * h, 1000]
    pwl = (0, 1, 55, 56, 64, 65, 200) if not (quick and count == 1000) else (1, 65)
    for n in pwl:
        pbkdf1_line(label, mk(("asc", n)), mk(("seed", 8), "pbkdf1-salt"), count, good + bad, acc)
    for sk in ("zero", "ones"):
        pbkdf1_line(label, b"password", mk((sk, 8)), count, [1, h, h + 1], acc)
    if count <= 2:
        for sl in (0, 1, 7, 9, 16):
            pbkdf1_line(label, b"password", mk(("seed", sl), "pbkdf1-salt"), count, [1, h], acc)


def t_pbkdf1_misc(t, acc):
    from Crypto.Protocol import KDF
    pbkdf1_line("SHA1", "p\xe4ssword", b"12345678", 2, [16, 20], acc)
    r0 = run_lib(lambda: KDF.PBKDF1(b"p", b"12345678", 20, 0))
    r1 = run_lib(lambda: KDF.PBKDF1(b"p", b"12345678", 20, 1))
    if r0[0] == "ok":
        acc.observe("PBKDF1 count=0 is accepted and %s" % (
            "silently treated as count=1" if r0[1] == r1[1] else "returns something else than count=1"))
    else:
        acc.observe("PBKDF1 count=0 refused with " + type(r0[1]).__name__)


# ---------------------------------------------------------------------------
# HKDF
# ---------------------------------------------------------------------------
def hkdf_line(label, master, salt, context, cases, acc, light=False):
    from Crypto.Protocol import KDF
    h, blk = hlen(label), hblock(label)
    limit = 255 * h
    totals = [kl * nk for kl, nk in cases if kl * nk <= limit]
    info = b"" if context is None else bytes(context)
    stream = rkdf.hkdf(ref_name(label), master, max(totals) if totals else 0, salt, info)
    hm = lib_hash(label)
    sclass = "none" if salt is None else lenclass(len(salt), blk)
    for kl, nk in cases:
        acc.count("evaluations")
        total = kl * nk
        case = {"part": "hkdf", "h": label, "master": master, "salt": salt, "context": context,
                "kl": kl, "nk": nk}
        what = "HKDF(master %s, key_len=%d, salt=%s, %s, num_keys=%d, context=%s)" % (
            short(master, 24), kl, short(salt, 24) if salt is not None else None, label, nk,
            short(context, 24) if context is not None else None)
        r = run_lib(lambda: KDF.HKDF(master, kl, salt, hm, nk, context))
        nb = -(-total // h)
        if total > limit:
            if r[0] == "ok":
                acc.violation("C12/hkdf/too-long-accepted",
                              "%s returned keys although %d bytes > 255*HashLen = %d must be refused"
                              % (what, total, limit), case)
                out = "accepted"
            else:
                acc.count("hkdf/refused")
                out = "refused:" + type(r[1]).__name__
                if not isinstance(r[1], ValueError):
                    acc.observe("HKDF refuses an over-long output with %s (not ValueError)" % type(r[1]).__name__)
        elif r[0] == "exc":
            if nb >= 254:
                acc.violation("C12/hkdf/valid-length-refused",
                              "%s raised %s: %s although %d bytes <= 255*HashLen" % (what, type(r[1]).__name__,
                                                                                    r[1], total), case)
            else:
                raised(acc, "C12/hkdf", what, case, r[1])
            out = "exc"
        else:
            acc.count("hkdf/ok")
            if total == limit:
                acc.count("hkdf/maxlen-ok")
            if nk == 1:
                ok = cmp_bytes(acc, "C12/hkdf", what, case, r[1], stream[:kl])
            else:
                acc.count("hkdf/multikey")
                ok = cmp_multi(acc, "C12/hkdf", what, case, r[1], stream, kl, nk)
            out = "ok" if ok else "bad"
        acc.seen("classes", ("hkdf", label, nk, min(nb, 5) if nb < 254 else nb, total % h != 0, sclass,
                             "none" if context is None else min(len(context), 2), lenclass(len(master), blk), out))
    if light:
        return
    acc.seen("outputs", digest8(stream))
    acc.sample({"part": "hkdf", "hash": label, "master_len": len(master), "salt": sclass,
                "cases": len(cases), "stream": stream[:16]})


def hkdf_labels():
    return [l for l in ALL_HASHES if have_ref(l)]


HKDF_NK = {True: (2, 3, 4), False: (2, 3, 4, 5, 6, 7, 8)}


def _hkdf_all_chunks(h, pieces=24):
    """cut 0..255h+2 into ranges of about equal total output (cost ~ key_len)"""
    top = 255 * h + 2
    total = top * (top + 1) // 2
    out, lo, run = [], 0, 0
    for kl in range(0, top + 1):
        run += kl + 8 * h
        if run >= (total + 8 * h * (top + 1)) / pieces or kl == top:
            out.append((lo, kl))
            lo, run = kl + 1, 0
    return out


def hkdf_tasks(quick):
    T = []
    for label in hkdf_labels():
        h = hlen(label)
        slow = 20.0 if ref_name(label) == "md2" else (8.0 if ref_name(label) == "md4" else 1.0)
        for si in range(5):
            for ci in range(5):
                if quick and not (si == 2 or ci == 1):
                    continue
                T.append((0.1 * h / 32 * (1 if quick else 1.6), ("hkdf-grid", label, si, ci, quick)))
        T.append((0.4 + 0.1 * slow, ("hkdf-bound", label)))
        T.append((0.02, ("hkdf-lens", label)))
        if not quick:
            ch = _hkdf_all_chunks(h)
            for lo, hi in ch:
                T.append((0.7 * h / 32 * (1.6 if h > 32 else 1.0) * 24.0 / len(ch), ("hkdf-all", label, lo, hi)))
            T.append((0.2 + 0.03 * slow, ("hkdf-bound2", label)))
            T.append((0.3, ("hkdf-lines", label)))
    return T


def t_hkdf_all(t, acc):
    """every key_len lo..hi of 0..255*hLen+2 with num_keys = 1 (the last two are refused)"""
    _, label, lo, hi = t
    h = hlen(label)
    hkdf_line(label, mk(("asc", 22)), mk(("seed", h), "hkdf-salt"), mk(("asc", 10)),
              [(kl, 1) for kl in range(lo, hi + 1)], acc)
    acc.count("hkdf/all-lengths", hi - lo + 1)


def t_hkdf_bound2(t, acc):
    """many keys: num_keys 5..8 around floor(255h/nk); num_keys 255, 256, 255h, 255h+1, h keys of 255/256 bytes"""
    label = t[1]
    h = hlen(label)
    limit = 255 * h
    cases = []
    for nk in (5, 6, 7, 8, 16, 255):
        k0 = limit // nk
        cases += [(k0 - 1, nk), (k0, nk), (k0 + 1, nk)]
    cases += [(h - 1, 255), (h, 256), (1, limit - 1), (1, limit), (1, limit + 1), (2, limit // 2), (2, limit // 2 + 1),
              (255, h), (256, h), (255, h + 1), (254, h), (1, 256), (1, 257)]
    for salt, ctxv in ((None, None), (mk(("seed", h + 1), "hkdf-salt"), mk(("seed", 200), "hkdf-ctx"))):
        hkdf_line(label, mk(("seed", 32), "hkdf-master"), salt, ctxv, cases, acc)


def t_hkdf_lines(t, acc):
    """every master / salt / context length 0..2B+1 (one of them varies at a time)"""
    label = t[1]
    h, blk = hlen(label), hblock(label)
    top = 2 * blk + 2
    short_cases = [(h + 1, 1), (h, 2)]
    for ml in range(top):
        for salt in (None, mk(("seed", 1), "hkdf-salt"), mk(("seed", blk + 1), "hkdf-salt")):
            hkdf_line(label, mk(("asc", ml)), salt, b"ctx", short_cases, acc, light=True)
    for sl in range(top):
        for ml in (0, 22):
            hkdf_line(label, mk(("asc", ml)), mk(("seed", sl), "hkdf-salt"), b"ctx", short_cases, acc, light=True)
    for cl in range(top):
        hkdf_line(label, mk(("asc", 22)), mk(("seed", h), "hkdf-salt"), mk(("seed", cl), "hkdf-ctx"),
                  [(1, 1), (h + 1, 1), (2 * h + 1, 1), (h, 3)], acc, light=True)
    acc.count("hkdf/length-lines", 3 * top)


def _hkdf_salt(label, i):
    h, blk = hlen(label), hblock(label)
    return [None, b"", mk(("seed", 1), "hkdf-salt"), mk(("seed", h), "hkdf-salt"),
            mk(("seed", blk + 1), "hkdf-salt")][i]


def _hkdf_ctx(i):
    return [None, b"", b"\x01", mk(("asc", 10)), mk(("seed", 200), "hkdf-ctx")][i]


def t_hkdf_grid(t, acc):
    _, label, si, ci, quick = t
    h = hlen(label)
    cases = [(0, 1)] + [(kl, 1) for kl in range(1, 3 * h + 2)]
    top = h + 1 if quick else 3 * h + 1
    for nk in HKDF_NK[bool(quick)]:
        cases += [(kl, nk) for kl in range(1, top + 1)]
    hkdf_line(label, mk(("asc", 22)), _hkdf_salt(label, si), _hkdf_ctx(ci), cases, acc)


def t_hkdf_bound(t, acc):
    label = t[1]
    h = hlen(label)
    limit = 255 * h
    cases = [(v, 1) for v in (254 * h, limit - 1, limit, limit + 1, limit + 2, 256 * h, 2 * limit)]
    for nk in (2, 3, 4):
        k0 = limit // nk
        cases += [(k0 - 1, nk), (k0, nk), (k0 + 1, nk), (limit, nk)]
    for salt, ctxv in ((None, None), (mk(("asc", h)), mk(("asc", 10)))):
        hkdf_line(label, mk(("seed", 32), "hkdf-master"), salt, ctxv, cases, acc)


def t_hkdf_lens(t, acc):
    label = t[1]
    h, blk = hlen(label), hblock(label)
    L = _lens(blk)
    for ml in L:
        for sl in L:
            hkdf_line(label, mk(("asc", ml)), mk(("seed", sl), "hkdf-salt"), b"ctx", [(h + 1, 1), (h, 2)], acc)
    for mkind in ("zero", "ones", "asc", "seed"):
        for skind in ("zero", "ones", "asc", "seed"):
            hkdf_line(label, mk((mkind, 22), "hkdf-mv"), mk((skind, h), "hkdf-sv"), None, [(h + 1, 1)], acc)


# ---------------------------------------------------------------------------
# SP 800-108 counter mode
# ---------------------------------------------------------------------------
SP_PRFS = {  # label -> (output length, master lengths)
    "HMAC-SHA1": (20, (1, 16, 64, 65, 200)), "HMAC-SHA256": (32, (1, 16, 64, 65, 200)),
    "HMAC-SHA512": (64, (1, 16, 128, 129, 200)), "HMAC-MD5": (16, (16, 65)),
    "HMAC-SHA3_256": (32, (16, 137)),
    "CMAC-AES128": (16, (16,)), "CMAC-AES256": (16, (32,)),
    "py-blake2b-24": (24, (1, 16, 64)),
}


def _py_blake(k, x):
    return hashlib.blake2b(x, key=k[:64], digest_size=24).digest()


def _sp_prfs(label):
    """-> (library-side prf, reference prf)"""
    if label.startswith("HMAC-"):
        from Crypto.Hash import HMAC
        mod = lib_hash(label[5:])
        return (lambda k, x: HMAC.new(k, x, mod).digest()), rkdf.hmac_prf(ref_name(label[5:]))
    if label.startswith("CMAC-"):
        from Crypto.Hash import CMAC
        from Crypto.Cipher import AES
        return (lambda k, x: CMAC.new(k, x, ciphermod=AES).digest()), _ref_cmac_prf()
    if label == "py-blake2b-24":
        return _py_blake, _py_blake
    raise HarnessError("unknown SP800-108 prf %r" % label)


def sp108_line(label, master, lab, context, cases, acc, light=False):
    from Crypto.Protocol import KDF
    h = SP_PRFS[label][0]
    lprf, rprf = _sp_prfs(label)
    for kl, nk in cases:
        acc.count("evaluations")
        n = 1 if nk is None else nk
        total = kl * n
        case = {"part": "sp108", "prf": label, "master": master, "label": lab, "context": context,
                "kl": kl, "nk": nk}
        what = "SP800_108_Counter(master %s, key_len=%d, prf=%s, num_keys=%r, label=%s, context=%s)" % (
            short(master, 24), kl, label, nk, short(lab, 24), short(context, 24))
        stream = rkdf.sp800_108_counter(rprf, h, master, total, lab, context)
        r = run_lib(lambda: KDF.SP800_108_Counter(master, kl, lprf, nk, lab, context))
        nul = b"\x00" in lab or b"\x00" in context
        if r[0] == "exc":
            if nul:
                acc.count("sp108/refused-nul")
                out = "refused-nul"
            else:
                raised(acc, "C12/sp800-108", what, case, r[1])
                out = "exc"
        else:
            acc.count("sp108/ok")
            if nul:
                acc.observe("SP800_108_Counter accepts a zero byte in the %s (documented: must not contain zero bytes)"
                            % ("label" if b"\x00" in lab else "context"))
            res = r[1]
            if n == 1 and not isinstance(res, (bytes, bytearray)) and hasattr(res, "__len__") and len(res) == 1:
                res = res[0]          # documented: a tuple when num_keys is given
            if n == 1:
                ok = cmp_bytes(acc, "C12/sp800-108", what, case, res, stream)
            else:
                acc.count("sp108/multikey")
                ok = cmp_multi(acc, "C12/sp800-108", what, case, res, stream, kl, n)
            out = "ok" if ok else "bad"
        nb = -(-total // h)
        acc.seen("classes", ("sp108", label, nk, min(nb, 6), total % h != 0, min(len(lab), 2), min(len(context), 2),
                             len(master) if not light else lenclass(len(master), _sp_block(label)), out))
        if nb >= 256:
            acc.count("sp108/blocks>=256")
    if light:
        return
    acc.seen("outputs", digest8(stream))
    acc.sample({"part": "sp800-108", "prf": label, "master_len": len(master), "label_len": len(lab),
                "context_len": len(context), "cases": len(cases)})


_SP_LABELS = (b"", b"L", b"label for the derived keys", ("seed", 200), b"a\x00b")
_SP_CTX = (b"", b"C", b"context: alice, bob, #17", ("seed", 200), b"\x00")


def _spv(v, tag):
    if isinstance(v, tuple):
        return bytes(b or 1 for b in mk(v, tag))      # seeded, zero bytes replaced
    return v


def sp108_tasks(quick):
    T = []
    for label, (h, mls) in SP_PRFS.items():
        if label.startswith("HMAC-") and not have_ref(label[5:]):
            continue
        for mi, ml in enumerate(mls):
            if quick and mi not in (0, len(mls) - 1):
                continue
            for li in range(len(_SP_LABELS)):
                for ci in range(len(_SP_CTX)):
                    if quick and not (li == 1 or ci == 1):
                        continue
                    T.append(((0.03 if quick else 0.2) * h / 32 * (4 if label.startswith("CMAC") else 1),
                              ("sp108", label, ml, li, ci, quick)))
        if not quick:
            T.append(((0.6 if label.startswith("CMAC") else 0.3) + ((10.0 if label.startswith("CMAC") else 6.0)
                                                                     if label in SP_64K else 0), ("sp108-ctr", label)))
            T.append((0.15, ("sp108-lines", label)))
    T.append((0.01, ("sp108-misc",)))
    return T


def _sp_block(label):
    """block size of the PRF's underlying primitive (for length classes and sweeps)"""
    if label.startswith("HMAC-"):
        return hblock(label[5:])
    return 16 if label.startswith("CMAC-") else 128


# 65537 PRF blocks (third counter byte): the library appends block by block (quadratic copying): small outputs only
SP_64K = ("HMAC-SHA1", "HMAC-MD5", "CMAC-AES128", "py-blake2b-24")
SP_NK = {True: (2, 3, 4), False: (2, 3, 4, 5, 6, 7, 8)}


def t_sp108_ctr(t, acc):
    """counter field [i]_32: 255/256/257 and 65535/65536/65537 PRF blocks, as one key and as many keys"""
    label = t[1]
    h, mls = SP_PRFS[label]
    master = mk(("seed", mls[0] if label.startswith("CMAC") else 16), "sp-master")
    cases = [(254 * h + 1, None), (255 * h, None), (255 * h + 1, None), (256 * h, None), (256 * h + 1, 1), (257 * h, None),
             (h, 255), (h, 256), (h, 257), (h + 1, 255), (1, 255 * h + 1), (1, 256 * h + 1), (255, h + 1), (257, h),
             ]
    if label in SP_64K:
        cases += [(65536 * h + 1, None), (h, 65537)]
    sp108_line(label, master, b"label", b"context", cases, acc)


def t_sp108_lines(t, acc):
    """every label / context / master length 0..2B+1 (one of them varies at a time)"""
    label = t[1]
    h, mls = SP_PRFS[label]
    blk = _sp_block(label)
    top = 2 * blk + 2
    cases = [(1, None), (h + 1, None), (h, 2)]
    master = mk(("seed", mls[0] if label.startswith("CMAC") else 16), "sp-master")
    for n in range(top):
        sp108_line(label, master, _spv(("seed", n), "sp-label"), b"C", cases, acc, light=True)
        sp108_line(label, master, b"L", _spv(("seed", n), "sp-ctx"), cases, acc, light=True)
        sp108_line(label, master, _spv(("seed", n), "sp-label"), _spv(("seed", top - 1 - n), "sp-ctx"), cases, acc,
                   light=True)
    if not label.startswith("CMAC"):
        for n in range(top):
            sp108_line(label, mk(("asc", n)), b"L", b"C", cases, acc, light=True)
    acc.count("sp108/length-lines", 3 * top)


class _Captured(Exception):
    pass


def t_sp108_misc(t, acc):
    """observation only: total length >= 2^32 bits does not fit the [L]_32 field the library uses"""
    from Crypto.Protocol import KDF
    for kl, nk in ((2 ** 29 - 1, None), (2 ** 29, None), (2 ** 27, 4)):
        seen = []

        def prf(k, x):
            seen.append(bytes(x))
            raise _Captured()
        acc.count("evaluations")
        r = run_lib(lambda: KDF.SP800_108_Counter(b"k" * 16, kl, prf, nk, b"L", b"C"))
        bits = kl * (nk or 1) * 8
        if seen:
            tail = seen[0][4 + 1 + 1 + 1:]
            res = "prf called with a %d-byte length field %s" % (len(tail), tail.hex())
            exp = bits.to_bytes(4, "big") if bits < 2 ** 32 else None
            if exp is not None and tail != exp:
                acc.violation("C12/sp800-108/wrong-length-field",
                              "SP800_108_Counter(key_len=%d, num_keys=%r): PRF input ends with %s, expected [L]_32 = %s"
                              % (kl, nk, tail.hex(), exp.hex()),
                              {"part": "sp108-misc"})
        else:
            res = "refused with %s" % type(r[1]).__name__ if r[0] == "exc" else "returned without calling the prf"
        acc.seen("classes", ("sp108", "L-field", bits >= 2 ** 32, res))
        if bits >= 2 ** 32:
            acc.observe("SP800_108_Counter with L = %d bits (>= 2^32, does not fit [L]_32): %s" % (bits, res))


def t_sp108(t, acc):
    _, label, ml, li, ci, quick = t
    h = SP_PRFS[label][0]
    cases = [(kl, None) for kl in range(1, (3 if quick else 6) * h + 2)]
    cases += [(kl, 1) for kl in ((1, h, h + 1) if quick else range(1, 3 * h + 2))]
    top = h + 1 if quick else 3 * h + 1
    for nk in SP_NK[bool(quick)]:
        cases += [(kl, nk) for kl in range(1, top + 1)]
    master = mk(("asc", ml)) if not label.startswith("CMAC") else mk(("seed", ml), "sp-master")
    sp108_line(label, master, _spv(_SP_LABELS[li], "sp-label"), _spv(_SP_CTX[ci], "sp-ctx"), cases, acc)
