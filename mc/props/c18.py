"""C18 - random integers and selections are within their bounds and exactly uniform given uniform entropy.

TapeExplorer: the entropy source of every sampler is replaced by a tape; each request randfunc(n)
is a choice point with 256^n answers.  For small ranges the COMPLETE tape tree is enumerated
depth-first with exact rational weights (a leaf that consumed b bits weighs 2^-b) up to a stated
number of rejections; per attempt every documented outcome must have the same weight and the
attempt after a rejection must be the same map as a fresh one.  Cryptographic sizes (EC scalars,
DSA x, FIPS nonces, RSA/DSA generation, blinding factors) are driven with boundary tapes around the
accept/reject edge and compared with a plain reference rejection sampler on the same bytes.

The thorough tier additionally drives (see _more_entry_points / _more_consumers): the Miller-Rabin base
draws of Crypto.Math.Primality and Crypto.Util.number (outcome = the recorded bases), number.getPrime,
the non-zero padding octets of PKCS#1 v1.5 encryption, call sequences on one StrongRandom object, other
population types, negative / beyond-64-bit lower bounds, three-byte first attempts (2^24 tapes) of seven
samplers, and boundary tapes for the prime generators, getStrongPrime, ElGamal and HPKE ephemeral keys.
"""
import itertools
import time
from fractions import Fraction

from ..common import Acc, short, seeded, seeded_int, SEED
from . import _c18_tape as T
from ._c18_tape import Tape, BitTape, NeedMore, Diverged, TooWide, REJ, expand, group_weights
from ._c18_targets import make_target, BACKENDS, restore_module_rng, BYPASS

LEVEL = "exploration"
RULE = ("a case is one sampler call (function, back-end/variant, bounds) together with its COMPLETE entropy-tape tree: "
        "every answer (all 256^n byte strings) to every entropy request, depth-first, to the stated rejection depth; "
        "evaluations = executions of the real sampler on a tape prefix; a case is non-trivial when its tree has both "
        "accepting leaves and (where the range is not a power of two) rejected prefixes; distinct_nontrivial counts "
        "distinct (function, back-end, request shape per attempt, rejection-rate class, rejection depth explored) "
        "classes actually observed; for the Miller-Rabin and PKCS#1 v1.5 padding cases the outcome is the recorded draw (bases, "
        "padding octets), not the caller-visible result; cryptographic sizes: one case per (consumer, curve/size, boundary tape)")
BUDGET = {"quick": 240, "thorough": 3000}

MAX_ATTEMPT_NODES = 70000       # a single attempt is enumerated completely only up to this many tapes


def _fr(count, cost):
    return str(Fraction(count, 1 << cost))


class _Ctl(object):
    """per-process state: tripwire, deadline (inherited by the forked workers)"""
    trip = None
    deadline = None


def _trip_count():
    return _Ctl.trip.count if _Ctl.trip is not None else 0


# ---------------------------------------------------------------------------
# analysis of one attempt map
# ---------------------------------------------------------------------------
def analyze(leaves, tg, where=""):
    """leaves: continuation -> outcome for ONE complete attempt (or one group of a composite tree).
    -> None or (tag, text): exception, out-of-range, non-uniform."""
    show = tg.tapecls.show
    dom = tg.domain
    domset = dom if isinstance(dom, range) else set(dom)
    bad = None
    for cont, out in leaves.items():
        if isinstance(out, tuple) and len(out) == 2 and out[0] == "exc":
            return ("raises-%s" % out[1], "%stape %s makes the call raise %s" % (where, show(cont), out[1]))
        if out not in domset:
            if bad is None or cont < bad[0]:
                bad = (cont, out)
    if bad is not None:
        return ("out-of-range", "%stape %s gives %r, outside the documented range [%r .. %r]"
                % (where, show(bad[0]), bad[1], dom[0], dom[-1]))
    groups = group_weights(leaves, tg.tapecls)
    N = len(dom)
    for cost in sorted(groups):
        g = groups[cost]
        lo_v, lo_c, hi_v, hi_c = None, None, None, None
        for v in dom:
            c = g.get(v, 0)
            if lo_c is None or c < lo_c:
                lo_v, lo_c = v, c
            if hi_c is None or c > hi_c:
                hi_v, hi_c = v, c
        if lo_c != hi_c:
            ex = [show(c) for c, o in sorted(leaves.items()) if o == hi_v][:3]
            certain = Fraction(hi_c, 1 << cost) > Fraction(1, N)
            return ("nonuniform", "%samong the tapes that produce a result after %d entropy bits, outcome %r has weight %s "
                    "but outcome %r has weight %s (%d documented outcomes; tapes giving %r: %s)%s"
                    % (where, cost, hi_v, _fr(hi_c, cost), lo_v, _fr(lo_c, cost), N, hi_v, ", ".join(ex),
                       "; weight above 1/%d: no continuation can restore uniformity" % N if certain else ""))
    return None


def _cost(cont, tapecls):
    return sum(tapecls.bits(a) for a in cont)


# ---------------------------------------------------------------------------
# single draw: attempt map, uniformity per attempt, attempt after rejection == fresh attempt
# ---------------------------------------------------------------------------
def check_single(spec, limit, maxdepth, cross, acc):
    """limit: a further rejection level is enumerated completely while it has <= limit tapes;
    maxdepth: maximum number of rejections; cross: for levels too large, enumerate the 'cross'
    {every rejected prefix} x {representative continuations}  +  {representative prefixes} x {every continuation}."""
    tg = make_target(spec)
    case = {"part": "single", "spec": list(spec), "limit": limit, "maxdepth": maxdepth, "cross": cross}
    acc.count("configs_done")

    def viol(tag, text):
        acc.violation("C18/%s/%s" % (tg.fam, tag), "%s: %s" % (tg.name, text), case, size=tg.size)

    try:
        _single(tg, limit, maxdepth, cross, acc, viol)
        if tg.notes:
            acc.observe(tg.notes[0])
    except Diverged as e:
        viol("not-a-function-of-the-tape", "replaying a recorded tape prefix the sampler behaved differently (%s)" % e)
    except TooWide as e:
        acc.cap("%s: an entropy request/attempt too wide to branch completely (%s)" % (tg.fam, e))
    finally:
        if spec[1] == "module":
            restore_module_rng()


def _single(tg, limit, maxdepth, cross, acc, viol):
    run, tapecls, dom = tg.run, tg.tapecls, tg.domain
    show = tapecls.show
    N = len(dom)
    trip0 = _trip_count()
    # ---- root: does the call consult the tape at all?
    t = tapecls(())
    acc.count("evaluations")
    try:
        out = run(t)
    except NeedMore:
        out = NeedMore
    except Exception as e:  # noqa
        acc.seen("classes", (tg.fam, tg.variant, "raises", type(e).__name__))
        if N == 0 or tg.spec[0] == "randrange" and tg.spec[4] < 0:
            acc.observe("%s with a negative step raises %s before drawing anything (range(start, stop, step) is not "
                        "empty); no value is produced, so bounds/uniformity are not concerned" % (tg.fam, type(e).__name__))
            acc.count("negative_step_refused")
            return
        viol("raises-%s" % type(e).__name__, "raises %s(%s) before reading any entropy" % (type(e).__name__, e))
        return
    if out is not NeedMore:
        if N > 1:
            viol("randfunc-ignored", "returned %r without reading a single byte from the supplied entropy source "
                 "(%d requests seen, system RNG consulted %d times): the result is not a function of randfunc"
                 % (out, t.calls, _trip_count() - trip0))
        elif out != dom[0]:
            viol("out-of-range", "returned %r, the only documented value is %r" % (out, dom[0]))
        else:
            acc.seen("classes", (tg.fam, tg.variant, "single-value-range-no-entropy"))
            acc.count("tapes")
        return
    # ---- first attempt: smallest number of requests after which some tape produces a result
    A = 0
    leaves, opens = {}, [()]
    while not leaves and A < 3 and len(opens) <= 256:
        A += 1
        leaves, opens, n = _expand(run, (), A, tapecls)
        acc.count("evaluations", n)
    if not leaves:
        acc.cap("%s: no tape of up to %d requests produced a result" % (tg.name, A))
        return
    acc.count("tapes", len(leaves) + len(opens))
    shape = tuple(tapecls.bits(a) for a in next(iter(leaves)))
    # ---- determinism / system RNG
    if _trip_count() != trip0:
        l2, o2, n = _expand(run, (), A, tapecls)
        acc.count("evaluations", n)
        if l2 != leaves or o2 != opens:
            viol("not-a-function-of-the-tape", "the process-wide RNG was consulted %d times and two enumerations of the same "
                 "tapes gave different results" % (_trip_count() - trip0))
            return
        acc.observe("%s consulted the process-wide RNG although an entropy source was supplied (results unaffected)" % tg.fam)
    elif len(leaves) + len(opens) <= 256:
        # two runs on the same tape agree (cheap for one-byte attempts; larger trees re-execute prefixes anyway)
        l2, o2, n = _expand(run, (), A, tapecls)
        acc.count("evaluations", n)
        acc.count("attempts_enumerated_twice")
        if l2 != leaves or o2 != opens:
            viol("not-a-function-of-the-tape", "two enumerations of the same %d tapes gave different results although the "
                 "process-wide RNG was not consulted" % (len(leaves) + len(opens)))
            return
    # ---- bounds and exact uniformity of the fresh attempt
    r = analyze(leaves, tg)
    if r:
        viol(r[0], r[1])
        return
    acc_w = sum(Fraction(1, 1 << _cost(c, tapecls)) for c in leaves)
    rej_w = sum(Fraction(1, 1 << _cost(c, tapecls)) for c in opens)
    if acc_w + rej_w != 1:
        acc.error("%s: tape weights do not sum to 1 (%s + %s)" % (tg.name, acc_w, rej_w))
        return
    # ---- reference sampler: same outcome on the same bytes, same bytes per attempt (observation only)
    if tg.ref is not None:
        ref = tg.ref
        diff = shp = 0
        for cont in itertools.chain(leaves, opens):
            ro, rs = ref(cont)
            if rs != tuple(len(a) for a in cont):
                shp += 1
            elif ro != leaves.get(cont, REJ):
                diff += 1
        if shp:
            acc.observe("%s: entropy requests per attempt differ from the reference rejection sampler" % tg.fam)
        elif diff:
            acc.observe("%s: tape->outcome map differs from the reference rejection sampler (uniformity decides)" % tg.fam)
        else:
            acc.count("attempt_maps_equal_reference")
    # ---- deeper levels: the attempt after a rejection must be the same map as the fresh attempt
    depth = 0
    nodes = [()]
    level_opens = opens
    weights = [acc_w]
    per_attempt = len(leaves) + len(opens)
    while depth < maxdepth and opens:
        nxt = [p + o for p in nodes for o in opens]          # isomorphism verified so far => same opens everywhere
        if len(nxt) * per_attempt > limit:
            break
        depth += 1
        for p in nxt:
            sub, sub_opens, n = _expand(run, p, A, tapecls)
            acc.count("evaluations", n)
            acc.count("tapes", len(sub) + len(sub_opens))
            acc.count("nodes_after_rejection")
            if sub == leaves and sub_opens == opens:
                continue
            r = analyze(sub, tg, "after the rejected prefix %s, " % show(p)) if sub else \
                ("no-result-after-rejection", "after the rejected prefix %s no tape of one more attempt produces a result" % show(p))
            if r:
                viol("after-rejection/" + r[0], r[1])
                return
            acc.observe("%s: the attempt after a rejection differs from a fresh attempt but is itself exactly uniform" % tg.fam)
            return
        nodes = nxt
        weights.append(rej_w ** depth * acc_w)
    # ---- cross enumeration for attempts too large for a complete second level
    crossed = False
    if cross and depth == 0 and opens and maxdepth > 0:
        crossed = True
        keys = sorted(leaves)
        lo_t = next(c for c in keys if leaves[c] == dom[0])
        hi_t = next(c for c in keys if leaves[c] == dom[-1])
        creps = []
        for c in (keys[0], keys[-1], lo_t, hi_t, opens[0], opens[-1]):
            if c not in creps:
                creps.append(c)
        preps = []
        for p in (opens[0], opens[len(opens) // 2], opens[-1]):
            if p not in preps:
                preps.append(p)
        suspects = []
        for p in opens:
            for c in creps:
                tp = tapecls(p + c)
                acc.count("evaluations")
                try:
                    o = run(tp)
                except NeedMore:
                    o = REJ
                except Exception as e:  # noqa
                    o = ("exc", type(e).__name__)
                if o != leaves.get(c, REJ):
                    suspects.append(p)
                    break
            if len(suspects) >= 2:
                break
        acc.count("cross_pairs", len(opens) * len(creps))
        for p in suspects + [p for p in preps if p not in suspects]:
            sub, sub_opens, n = _expand(run, p, A, tapecls)
            acc.count("evaluations", n)
            acc.count("tapes", len(sub) + len(sub_opens))
            acc.count("nodes_after_rejection")
            if sub == leaves and sub_opens == opens:
                continue
            r = analyze(sub, tg, "after the rejected prefix %s, " % show(p)) if sub else \
                ("no-result-after-rejection", "after the rejected prefix %s no tape of one more attempt produces a result" % show(p))
            if r:
                viol("after-rejection/" + r[0], r[1])
                return
            acc.observe("%s: the attempt after a rejection differs from a fresh attempt but is itself exactly uniform" % tg.fam)
            return
    rate = 0 if not opens else (1 if rej_w <= Fraction(1, 4) else 2)
    acc.seen("classes", (tg.fam, tg.variant, shape, rate, depth, crossed))
    acc.seen("configs", tg.spec)
    acc.count("depth%d_configs" % depth)
    if tg.spec == ("getprime", 2):
        acc.observe("number.getPrime(2) always returns 3: candidates are getRandomNBitInteger(N) | 1, so the 2-bit prime 2 is never "
                    "produced (documented as 'a random N-bit prime'; every produced value is an N-bit prime)")
    if crossed:
        acc.count("cross_configs")
    if opens:
        acc.count("configs_with_rejection")
    else:
        acc.count("configs_without_rejection")
    if len(acc.samples) < 2 and opens and depth:
        acc.sample({"call": tg.name, "tapes_per_attempt": per_attempt, "request_bits_per_attempt": list(shape),
                    "outcomes": N, "weight_of_each_outcome_per_attempt": str(acc_w / N),
                    "accepted_weight_after_r_rejections": [str(w) for w in weights],
                    "rejection_depth_explored": depth, "first_rejected_tape": show(opens[0])})


def _expand(run, prefix, ncalls, tapecls):
    return expand(run, prefix, ncalls, tapecls, None, MAX_ATTEMPT_NODES)


# ---------------------------------------------------------------------------
# composite selections (shuffle, sample): the complete tree with a bound on the number of requests
# ---------------------------------------------------------------------------
def check_tree(spec, extra, acc):
    tg = make_target(spec)
    case = {"part": "tree", "spec": list(spec), "extra": extra}
    acc.count("configs_done")

    def viol(tag, text):
        acc.violation("C18/%s/%s" % (tg.fam, tag), "%s: %s" % (tg.name, text), case, size=tg.size)

    b0 = BYPASS[0]
    try:
        _tree(tg, extra, acc, viol)
        if tg.notes:
            acc.observe(tg.notes[0])
    except Diverged as e:
        viol("not-a-function-of-the-tape", "replaying a recorded tape prefix the call behaved differently (%s)" % e)
    except TooWide as e:
        acc.cap("%s: an entropy request too wide to branch completely (%s)" % (tg.fam, e))
    finally:
        if spec[1] == "module":
            restore_module_rng()
    if BYPASS[0] != b0:
        acc.error("%s reads bytes without going through getrandbits: the bit-level seam is not valid" % tg.name)


def _tree(tg, extra, acc, viol):
    run, tapecls, dom = tg.run, tg.tapecls, tg.domain
    N = len(dom)
    trip0 = _trip_count()
    leaves, opens, n = expand(run, (), tg.base_calls + extra, tapecls, None, 1 << 23)
    acc.count("evaluations", n)
    acc.count("tapes", len(leaves) + len(opens))
    if () in leaves and N > 1:
        viol("randfunc-ignored", "returned %r without consulting the supplied entropy source" % (leaves[()],))
        return
    if _trip_count() != trip0:
        l2, o2, n = expand(run, (), tg.base_calls + extra, tapecls, None, 1 << 23)
        if l2 != leaves or o2 != opens:
            viol("not-a-function-of-the-tape", "the process-wide RNG was consulted and two enumerations of the same tapes differ")
            return
        acc.observe("%s consulted the process-wide RNG although an entropy source was supplied (results unaffected)" % tg.fam)
    if not leaves:
        acc.cap("%s: no tape of up to %d requests produced a result" % (tg.name, tg.base_calls + extra))
        return
    by_calls = {}
    for cont, out in leaves.items():
        by_calls.setdefault(len(cont), {})[cont] = out
    weights = []
    for ncalls in sorted(by_calls):
        g = by_calls[ncalls]
        r = analyze(g, tg, "among the tapes answering %d requests, " % ncalls)
        if r:
            viol(r[0], r[1])
            return
        weights.append((ncalls, str(sum(Fraction(1, 1 << _cost(c, tapecls)) for c in g))))
    tot = sum(Fraction(1, 1 << _cost(c, tapecls)) for c in itertools.chain(leaves, opens))
    if tot != 1:
        acc.error("%s: tape weights sum to %s" % (tg.name, tot))
        return
    full_ref = getattr(tg, "full_ref", None)
    if full_ref is not None:
        diff = 0
        for cont, out in leaves.items():
            rd = T.Reader(b"".join(cont))
            try:
                if full_ref(rd) != out or rd.pos != len(rd.data) or tuple(rd.sizes) != tuple(len(a) for a in cont):
                    diff += 1
            except T.RefMore:
                diff += 1
        if diff:
            acc.observe("%s: tape->outcome map differs from the reference (uniformity decides)" % tg.fam)
        else:
            acc.count("attempt_maps_equal_reference")
    acc.seen("classes", (tg.fam, tg.variant, tg.spec[2:], len(by_calls), bool(opens)))
    acc.seen("configs", tg.spec)
    acc.count("tree_configs")
    acc.count("tree_groups", len(by_calls))
    if len(by_calls) > 1:
        acc.count("tree_configs_with_rejection")
    if tg.spec[0] == "sample" and tg.spec[3] >= 2 and extra >= 1 and len(acc.samples) < 3:
        acc.sample({"call": tg.name, "outcomes": N, "accepted_weight_by_number_of_requests": weights,
                    "unexplored_weight": str(sum(Fraction(1, 1 << _cost(c, tapecls)) for c in opens))})


# ---------------------------------------------------------------------------
# very large single attempts (3 entropy bytes): the tree is split by the first byte; workers return the
# outcome histogram run-length encoded, the parent adds the histograms up
# ---------------------------------------------------------------------------
def sharded_part(spec, firsts, acc):
    """enumerate the attempt tapes whose first byte is in `firsts`; -> records via acc.seen('rle', ...)"""
    tg = make_target(spec)
    leaves, opens, n = expand(tg.run, (), 1 if spec[0] in ("grb", "randrange", "randint") else 2, tg.tapecls, first=set(firsts),
                              max_nodes=1 << 25)
    acc.count("evaluations", n)
    acc.count("tapes", len(leaves) + len(opens))
    hist = {}
    for cont, out in leaves.items():
        k = (_cost(cont, tg.tapecls), out if isinstance(out, int) else repr(out))
        hist[k] = hist.get(k, 0) + 1
    costs = sorted(set(k[0] for k in hist))
    for cost in costs:
        items = sorted((k[1], c) for k, c in hist.items() if k[0] == cost and isinstance(k[1], int))
        other = sorted((k[1], c) for k, c in hist.items() if k[0] == cost and not isinstance(k[1], int))
        runs = []
        for v, c in items:
            if runs and runs[-1][1] == v - 1 and runs[-1][2] == c:
                runs[-1][1] = v
            else:
                runs.append([v, v, c])
        acc.seen("rle", (tuple(spec), tuple(firsts), cost, tuple(tuple(r) for r in runs), tuple(other)))
    ocost = {}
    for c in opens:
        k = _cost(c, tg.tapecls)
        ocost[k] = ocost.get(k, 0) + 1
    acc.seen("rle_open", (tuple(spec), tuple(firsts), tuple(sorted(ocost.items()))))


def sharded_verdict(spec, records, open_records, acc, nparts):
    """records: the 'rle' tuples of this spec from all parts"""
    tg = make_target(spec)
    case = {"part": "sharded", "spec": list(spec)}
    dom = tg.domain

    def viol(tag, text):
        acc.violation("C18/%s/%s" % (tg.fam, tag), "%s: %s" % (tg.name, text), case, size=tg.size)

    parts = set(r[1] for r in open_records)
    if len(parts) != nparts:
        acc.error("%s: %d of %d tree parts reported" % (tg.name, len(parts), nparts))
        return
    total = Fraction(0)
    for cost in sorted(set(r[2] for r in records)):
        ev = {}
        for r in records:
            if r[2] != cost:
                continue
            if r[4]:
                viol("raises-or-non-integer", "outcome %s" % (r[4][0][0],))
                return
            for a, b, c in r[3]:
                ev[a] = ev.get(a, 0) + c
                ev[b + 1] = ev.get(b + 1, 0) - c
        cur = 0
        segs = []
        for x in sorted(ev):
            if ev[x] == 0:
                continue
            if segs:
                segs[-1][1] = x - 1
            cur += ev[x]
            segs.append([x, None, cur])
        segs = [s for s in segs if s[2] != 0]
        lo, hi = dom[0], dom[-1]
        for a, b, c in segs:
            if a < lo or b > hi:
                viol("out-of-range", "outcomes %d..%d are produced, outside the documented range [%d .. %d]" % (a, b, lo, hi))
                return
        covered = sum(b - a + 1 for a, b, c in segs)
        counts = set(c for a, b, c in segs)
        if covered != len(dom) or len(counts) != 1:
            a, b, c = max(segs, key=lambda s: s[2])
            a2, b2, c2 = min(segs, key=lambda s: s[2])
            if covered != len(dom):
                c2 = 0
            viol("nonuniform", "among the tapes that produce a result after %d entropy bits, outcomes %d..%d have weight %s each, "
                 "other documented outcomes have weight %s (%d of %d documented outcomes produced)"
                 % (cost, a, b, _fr(c, cost), _fr(c2, cost), covered, len(dom)))
            return
        total += Fraction(counts.pop() * len(dom), 1 << cost)
    for r in open_records:
        for cost, cnt in r[2]:
            total += Fraction(cnt, 1 << cost)
    if total != 1:
        acc.error("%s: tape weights of the sharded tree sum to %s" % (tg.name, total))
        return
    acc.seen("classes", (tg.fam, spec[1], "sharded-3-byte-attempt"))
    acc.seen("configs", tuple(spec))
    acc.count("sharded_configs")


# ---------------------------------------------------------------------------
# large composite trees: split by the first byte, histograms added up by the parent
# ---------------------------------------------------------------------------
def tree_part(spec, extra, firsts, acc):
    tg = make_target(spec)
    hist = {}
    first_tape = {}
    opens = {}
    bits = tg.tapecls.bits

    def on_leaf(cont, out):
        k = (len(cont), sum(bits(a) for a in cont), out)
        hist[k] = hist.get(k, 0) + 1
        if k not in first_tape:
            first_tape[k] = cont

    def on_open(cont):
        c = sum(bits(a) for a in cont)
        opens[c] = opens.get(c, 0) + 1
    n = T.walk(tg.run, tg.base_calls + extra, tg.tapecls, set(firsts), on_leaf, on_open)
    acc.count("evaluations", n)
    acc.count("tapes", sum(hist.values()) + sum(opens.values()))
    acc.seen("thist", (tuple(spec), extra, tuple(firsts),
                       tuple(sorted((k, c, tg.tapecls.show(first_tape[k])) for k, c in hist.items())),
                       tuple(sorted(opens.items()))))


def tree_verdict(spec, extra, records, nparts, acc):
    tg = make_target(spec)
    case = {"part": "bigtree", "spec": list(spec), "extra": extra}

    def viol(tag, text):
        acc.violation("C18/%s/%s" % (tg.fam, tag), "%s: %s" % (tg.name, text), case, size=tg.size)
    if len(set(r[2] for r in records)) != nparts:
        acc.error("%s: %d of %d tree parts reported" % (tg.name, len(records), nparts))
        return
    dom = tg.domain
    domset = set(dom)
    groups = {}
    total = Fraction(0)
    for r in records:
        for (ncalls, cost, out), c, tape in r[3]:
            if isinstance(out, tuple) and len(out) == 2 and out[0] == "exc":
                viol("raises-%s" % out[1], "tape %s makes the call raise %s" % (tape, out[1]))
                return
            if out not in domset:
                viol("out-of-range", "tape %s gives %r, not one of the %d documented outcomes" % (tape, out, len(dom)))
                return
            g = groups.setdefault(ncalls, {})
            g[out] = g.get(out, 0) + Fraction(c, 1 << cost)
            total += Fraction(c, 1 << cost)
        for cost, c in r[4]:
            total += Fraction(c, 1 << cost)
    if total != 1:
        acc.error("%s: tape weights of the split tree sum to %s" % (tg.name, total))
        return
    for ncalls in sorted(groups):
        g = groups[ncalls]
        ws = [(g.get(v, Fraction(0)), v) for v in dom]
        lo, hi = min(ws), max(ws)
        if lo[0] != hi[0]:
            viol("nonuniform", "among the tapes answering %d requests, outcome %r has weight %s but outcome %r has weight %s "
                 "(%d documented outcomes)" % (ncalls, hi[1], hi[0], lo[1], lo[0], len(dom)))
            return
    acc.seen("classes", (tg.fam, tg.variant, tg.spec[2:], len(groups), "split-tree"))
    acc.seen("configs", tuple(spec) + (extra,))
    acc.count("tree_configs")
    acc.count("tree_groups", len(groups))
    if len(groups) > 1:
        acc.count("tree_configs_with_rejection")


# ---------------------------------------------------------------------------
# grids
# ---------------------------------------------------------------------------
def _bytes_for_bits(b):
    return (b + 7) // 8


def _predict(spec, limit, maxdepth, cross):
    """predicted number of executions (from the reference sampler's structure); only used to balance shards"""
    k = spec[0]
    rej = 0
    if k == "irange":
        nm = spec[3]
        bits = max(1, nm.bit_length())
        Tn = 256 ** _bytes_for_bits(bits)
        rej = Tn * ((1 << bits) - 1 - nm) >> bits
        unit = 38 if spec[1] == "GMP" else 22
    elif k == "irandom":
        Tn = 256 ** _bytes_for_bits(spec[2])
        unit = 16 if spec[1] == "GMP" else 11
    elif k in ("grb", "gri", "grn"):
        Tn = 256 ** max(1, _bytes_for_bits(spec[-1]))
        unit = 9
    elif k in ("randrange", "randint", "choice"):
        if k == "randrange":
            n = len(range(spec[2], spec[3], spec[4]))
        elif k == "randint":
            n = spec[3] - spec[2] + 1
        else:
            n = spec[2]
        if n <= 0:
            return 20
        bits = n.bit_length()
        Tn = 256 ** _bytes_for_bits(bits)
        rej = Tn * ((1 << bits) - n) >> bits
        unit = 10
    elif k == "grr":
        nm = spec[2] - spec[1] - 1
        bits = nm.bit_length()
        Tn = 256 ** max(1, _bytes_for_bits(bits))
        rej = (Tn * ((1 << bits) - 1 - nm) >> bits) if bits else 0
        unit = 8
    elif k in ("mr", "rmt"):
        nm = spec[1] - (4 if k == "mr" else 3)
        bits = max(1, nm.bit_length())
        Tn = 256 ** _bytes_for_bits(bits)
        rej = Tn * ((1 << bits) - 1 - nm) >> bits
        if nm <= 0:
            return 200
        unit = 190 if k == "mr" else 18
    elif k == "getprime":
        N = spec[1]
        Tn = 256 ** max(1, _bytes_for_bits(N - 1))
        rej = Tn - Tn * 3 // (2 * N)            # rough prime density among the odd N-bit numbers
        unit = 10 if N <= 10 else int(10 * 1.5 ** (N - 10))     # isPrime walks the sieve of 10000 primes
    elif k == "ps15":
        Tn, rej, unit = 256, 1, 160
    else:
        return 1000
    tot = Tn
    d = 0
    nodes = rej
    while d < maxdepth and nodes and nodes * Tn <= limit:
        tot += nodes * Tn * (d + 2) // 2
        nodes *= rej
        d += 1
    if cross and d == 0 and rej and maxdepth:
        tot += rej * 6 + 3 * Tn * 2
    return tot * unit


def _two_byte_nms(incl):
    """norm maxima (max-min for max_inclusive, max-min-1 for max_exclusive) needing 9..16 bits"""
    widths = set(range(256, 301))
    for k in range(8, 17):
        widths |= {(1 << k) - 1, 1 << k, (1 << k) + 1}
    nms = set(w if incl else w - 1 for w in widths)
    return sorted(n for n in nms if 256 <= n <= 65535)


def build_jobs(q):
    """-> list of (job tuple, predicted cost).  Job kinds: single, tree, consumer, sharded, bigtree"""
    J = []

    def single(spec, limit, md, cross=False):
        J.append((("single", spec, limit, md, cross), _predict(spec, limit, md, cross)))
    L_SMALL, L_MID, L_FULL, L_DEEP = 2048, 16384, 32768, 1 << 18
    # ---- A: Integer.random, 1..16 bits, exact/max, three back-ends (no rejection: the tree is complete)
    for be in BACKENDS:
        for bits in range(1, 17):
            if q and be != "Native" and bits > 8 and bits not in (9, 13, 16):
                continue
            for exact in (False, True):
                single(("irandom", be, bits, exact), 0, 0)
    # ---- B: Integer.random_range
    for be in BACKENDS:
        for lo in range(4):
            for incl in (True, False):
                for w in range(1, 301):
                    nm = w if incl else w - 1
                    if nm > 255:
                        continue
                    if q:
                        lim = L_SMALL
                    elif be == "Native" or lo in (0, 3):
                        lim = L_FULL
                    else:
                        lim = L_SMALL
                    single(("irange", be, lo, nm, incl), lim, 2)
    for be in BACKENDS_ALL if "BACKENDS_ALL" in globals() else ("Native", "Custom", "GMP"):
        for lo in (1, 3):
            for nm in (5, 254):
                single(("irange", be, lo, nm, "obj"), L_SMALL, 2)
    for nm in range(1, 256):           # deeper: Native, min=1
        single(("irange", "Native", 1, nm, True), L_MID if q else L_DEEP, 1 if q else 2)
    for be in ("Custom", "GMP"):
        for k in range(1, 9):
            for nm in ((1 << k) - 2, (1 << k) - 1, 1 << k, (1 << k) + 1):
                if 0 <= nm <= 255 and q:
                    single(("irange", be, 3, nm, False), L_FULL, 2)
    if q:
        for nm in (256, 257, 299, 300, 511, 512, 513, 1023, 1024, 4095, 4096, 32767, 32768, 65534, 65535):
            single(("irange", "Native", 1, nm, True), L_FULL, 1, cross=nm in (300, 65534))
        for be in ("Custom", "GMP"):
            for nm in (256, 300, 512, 65535):
                single(("irange", be, 2, nm, False), L_FULL, 1)
    else:
        crossed = set(range(256, 301, 4)) | {511, 512, 513, 4095, 4096, 4097, 65534, 65535}
        for incl in (True, False):
            for nm in _two_byte_nms(incl):
                for lo in (range(4) if incl else (0, 3)):
                    single(("irange", "Native", lo, nm, incl), L_FULL, 1, cross=(lo == 1 and incl and nm in crossed))
                if incl:
                    for be in ("Custom", "GMP"):
                        single(("irange", be, 3, nm, incl), L_FULL, 1, cross=(nm in (300, 511, 512)))
        for part in range(32):
            J.append((("sharded", ("irange", "Native", 1, 65536, True), tuple(range(part * 8, part * 8 + 8)), 32), 65536 * 8 * 22))
    # ---- C: StrongRandom
    for k in range(1, 17):
        single(("grb", "randfunc", k), 0, 0)
    for variant in ("rng", "module"):
        for k in (1, 2, 3, 4, 5, 6, 7, 8, 9, 16):
            single(("grb", variant, k), 0, 0)
    if not q:
        for part in range(32):
            J.append((("sharded", ("grb", "randfunc", 17), tuple(range(part * 8, part * 8 + 8)), 32), 65536 * 8 * 9))
    for start in range(4):
        for w in range(1, 302):
            for step in (1, 2, 3):
                n = len(range(start, start + w, step))
                if n <= 255:
                    single(("randrange", "randfunc", start, start + w, step), L_SMALL if q else L_FULL, 2)
                elif not q or (start == 0 and w in (256, 257, 300, 301)):
                    single(("randrange", "randfunc", start, start + w, step), L_FULL, 1, cross=(start == 0 and w in (256, 300)))
        for w in (1, 2, 7, 300):
            single(("randrange", "randfunc", start + w, start, -1), L_SMALL, 1)
    for w in range(1, 256):
        single(("randrange", "randfunc", 1, 1 + w, 1), L_MID if q else L_DEEP, 1 if q else 2)
    for variant in ("rng", "module"):
        for w in range(1, 41):
            single(("randrange", variant, 0, w, 1), L_SMALL, 2)
    for a in range(4):
        for d in range(1, 301):
            if d + 1 <= 255:
                single(("randint", "randfunc", a, a + d), L_SMALL if q else L_FULL, 2)
            elif not q or (a == 0 and d in (255, 300)):
                single(("randint", "randfunc", a, a + d), L_FULL, 1)
    for n in range(1, 8):
        single(("choice", "randfunc", n), L_DEEP if q else 1 << 20, 2)
        single(("choice", "module", n), L_FULL, 2)
        single(("choice", "bit", n), 1 << 16, 4)
    # ---- D: legacy helpers
    for N in range(0, 17):
        single(("gri", N), 0, 0)
    for N in range(1, 17):
        single(("grn", N), 0, 0)
    for a in range(4):
        for d in range(1, 302):
            if d - 1 <= 255:
                single(("grr", a, a + d), (L_MID if a == 1 else L_SMALL) if q else L_FULL, 2)
            elif not q or (a == 1 and d in (257, 258, 301)):
                single(("grr", a, a + d), L_FULL, 1, cross=(a == 1 and d == 301))
    # ---- E: composite selections
    def tree(spec, extra):
        J.append((("tree", spec, extra), 600000))
    for n in (0, 1):
        tree(("shuffle", "randfunc", n), 0)
    tree(("shuffle", "randfunc", 2), 1)
    tree(("shuffle", "module", 2), 1)
    tree(("shuffle", "randfunc", 3), 0)
    for n in range(0, 6):
        tree(("sample", "randfunc", n, 0), 0)
        if n >= 1:
            tree(("sample", "randfunc", n, 1), 1)
        if n >= 2:
            tree(("sample", "randfunc", n, 2), 0)
    tree(("sample", "module", 3, 2), 0)
    # populations with equal elements (1 == 1.0 == True): selections are made by position
    for n, k in ((2, 2), (3, 2), (4, 2), (5, 2)):
        tree(("sample_t", "randfunc", n, k, "eqval"), 0)
    cap = (1 << 17) if q else (1 << 21)
    for n in range(2, 5):
        bits = [i.bit_length() for i in range(n, 1, -1)]
        e = _bit_extra(bits, cap)
        tree(("shuffle", "bit", n), e)
    for n in range(1, 6):
        for k in range(1, n + 1):
            e = _bit_extra([n.bit_length()] * k, cap)
            tree(("sample", "bit", n, k), e)
    if not q:
        def bigtree(spec, extra, cost):
            for part in range(64):
                J.append((("bigtree", spec, extra, tuple(range(part * 4, part * 4 + 4)), 64), cost // 64))
        bigtree(("shuffle", "randfunc", 4), 0, 17000000 * 10)
        bigtree(("shuffle", "randfunc", 3), 1, 11000000 * 10)
        bigtree(("shuffle", "randfunc", 2), 2, 4300000 * 10)
        bigtree(("sample", "randfunc", 5, 3), 0, 17000000 * 10)
        bigtree(("sample", "randfunc", 5, 2), 1, 17000000 * 10)
    if not q:
        _more_entry_points(single, J, L_SMALL, L_FULL, L_DEEP)
    # ---- F: cryptographic sizes
    for spec in consumer_specs(q):
        J.append((("consumer", spec), _consumer_cost(spec)))
    return J


MR_TWO_BYTE = (257, 299, 511, 513, 1023, 1025, 4095, 4097, 32767, 32769, 65535)       # n - 4 (odd), 9..16 bits
MR_PAIR_PRIMES = (7, 11, 13, 17, 19, 23, 29, 31, 37, 61, 67, 127, 131, 251, 257)
RMT_TWO_BYTE = sorted(set(range(256, 301, 2)) | set((1 << k) + d for k in range(9, 17) for d in (-2, 0, 2) if (1 << k) + d <= 65535))
BIG = 1 << 64
OFFSETS = (-3, -2, -1, BIG + 1, -BIG)
RR_STEPS = (4, 5, 7, 8, 16, 255, 256, 257)
RR_COUNTS = (1, 2, 3, 5, 7, 8, 9, 127, 128, 129, 255)
PS15_PAIRS = ((0, 5), (6, 5), (11, 0))


SHARDED_MORE = ((("irandom", "Native", 17, False), 16), (("irandom", "Native", 24, True), 16), (("irange", "Custom", 1, 65536, True), 22),
                (("gri", 17), 9), (("grr", 1, 65539), 9), (("randrange", "randfunc", 0, 65537, 1), 10), (("randint", "randfunc", 1, 65537), 10))


def _op_bits(op):
    return {"rr": lambda: op[1].bit_length(), "ch": lambda: op[1].bit_length(), "ri": lambda: (op[2] - op[1] + 1).bit_length(),
            "grb": lambda: op[1]}[op[0]]()


def _more_entry_points(single, J, L_SMALL, L_FULL, L_DEEP):
    """thorough tier: entry points that draw from a caller-supplied entropy source and are not part of the quick grid, and
    value classes (negative / beyond-64-bit lower bounds, larger steps) that the quick grid fixes to 0..3 / 1..3"""
    from ._c18_targets import is_prime

    def tree(spec, extra, cost):
        J.append((("tree", spec, extra), cost))

    def rej1(nm):              # rejected one-byte tapes of a sampler of [0, nm]
        bits = max(1, nm.bit_length())
        return 256 * ((1 << bits) - 1 - nm) >> bits
    # ---- G1: Crypto.Math.Primality.miller_rabin_test (bases in [2, n-2] by Integer.random_range); ~120 us per execution
    for n in range(7, 260, 2):
        single(("mr", n, 1), L_SMALL, 2)
    for n in MR_PAIR_PRIMES:
        tree(("mr", n, 2), 0, 65536 * 300)
    for nm in MR_TWO_BYTE:
        single(("mr", nm + 4, 1), L_FULL, 1, cross=(nm in (299, 32769)))
    # ---- G2: Crypto.Util.number._rabinMillerTest (distinct bases in [2, n-1] by getRandomRange)
    for n in range(3, 258, 2):
        single(("rmt", n, 1), L_FULL, 2)
        if is_prime(n) and n >= 5:
            r = rej1(n - 3)
            tree(("rmt", n, 2), 1 if r <= 3 else 0, 65536 * 30 * (1 + (2 * r + 1 if r <= 3 else 0)))
    for nm in RMT_TWO_BYTE:
        single(("rmt", nm + 3, 1), L_FULL, 1, cross=(nm in (300, 512, 65534)))
    # ---- G3: Crypto.Util.number.getPrime, every size whose primality test never draws (below the sieve limit)
    for N in range(2, 17):
        single(("getprime", N), L_DEEP, 2, cross=(N in (10, 16)))
    # ---- G4: PKCS#1 v1.5 encryption padding octets (non-zero octets by rejection); ~100 us per execution
    for mlen in (0, 5):
        for pos in range(13 - mlen):
            for fill in ("01", "ff", "asc"):
                single(("ps15", pos, 1, mlen, fill), 1 << 16, 3)
    for pos, mlen in PS15_PAIRS:
        tree(("ps15", pos, 2, mlen, "asc"), 1, 3 * 65536 * 160)
    # ---- G5: value classes of the existing samplers
    for variant in ("randfunc", "rng", "module"):
        single(("grb", variant, 0), 0, 0)
    for start in OFFSETS:
        for w in list(range(1, 256)) + [256, 257, 300, 301]:
            single(("randrange", "randfunc", start, start + w, 1), L_SMALL if w <= 255 else L_FULL, 2 if w <= 255 else 1)
        for d in list(range(1, 255)) + [255, 256, 299, 300]:
            single(("randint", "randfunc", start, start + d), L_SMALL if d + 1 <= 255 else L_FULL, 2 if d + 1 <= 255 else 1)
    for step in RR_STEPS:
        for start in (-1, 0, 1):
            for n in RR_COUNTS:
                for r in sorted(set((1, step // 2 + 1, step))):
                    single(("randrange", "randfunc", start, start + step * (n - 1) + r, step), L_FULL, 2)
    for n in range(8, 33):
        single(("choice", "randfunc", n), L_FULL, 2)
    for ptype in ("tuple", "str", "bytes", "range"):
        for n in range(1, 17):
            single(("choice_t", "randfunc", n, ptype), L_FULL, 2)
    for variant in ("rng", "module"):
        for w in range(41, 256):
            single(("randrange", variant, 0, w, 1), L_SMALL, 2)
    for ptype in ("tuple", "str", "range"):
        for n in range(1, 6):
            for k in range(0, min(n, 2) + 1):
                tree(("sample_t", "randfunc", n, k, ptype), 1 if k == 1 else 0, 600000)
            for k in range(1, n + 1):
                tree(("sample_t", "bit", n, k, ptype), _bit_extra([n.bit_length()] * k, 1 << 17), 600000)
    # ---- G6: several calls on one StrongRandom object (histories of length 2 and 3)
    ops = (("rr", 3), ("ch", 5), ("ri", 1, 6), ("grb", 2), ("rr", 4))
    for a in ops:
        for b in ops:
            for variant in ("randfunc", "rng", "module"):
                tree(("seq", variant, (a, b)), 0, 65536 * 12)
            tree(("seq", "bit", (a, b)), _bit_extra([_op_bits(a), _op_bits(b)], 1 << 17), 600000)
            for c in ops:
                tree(("seq", "bit", (a, b, c)), _bit_extra([_op_bits(a), _op_bits(b), _op_bits(c)], 1 << 17), 600000)
    tree(("seq", "randfunc", (("rr", 255), ("ri", 1, 254))), 1, 3 * 65536 * 12)
    # ---- G7: the first attempt of ranges needing 17..24 bits (three entropy bytes), all 2^24 tapes, split by the first byte
    for spec, unit in SHARDED_MORE:
        for part in range(32):
            J.append((("sharded", spec, tuple(range(part * 8, part * 8 + 8)), 32), 65536 * 8 * unit))
    for be in BACKENDS:
        for lo in OFFSETS:
            if lo == -2:
                continue
            for nm in range(1, 256):
                single(("irange", be, lo, nm, True), L_SMALL, 2)
            for nm in (0, 1, 2, 127, 128, 254, 255):
                single(("irange", be, lo, nm, False), L_SMALL, 2)
            for nm in (256, 300, 511, 512, 65535):
                single(("irange", be, lo, nm, True), L_FULL, 1)


def _bit_extra(bits, cap):
    """largest number of extra getrandbits requests (<= 4) keeping the bit-level tree below `cap` paths"""
    base = 1
    for b in bits:
        base <<= b
    e = 0
    while e < 4 and (base << (max(bits) * (e + 1))) <= cap:
        e += 1
    return e


def _consumer_cost(spec):
    k = spec[0]
    if k == "rsagen":
        return 900000
    if k in ("elgamal", "elgblind"):
        return 8000000 if spec[1] >= 256 else 900000
    if k == "safeprime":
        return 4000000
    if k in ("dsasig", "dsagen", "blind", "dsafull", "strongprime", "safeprime", "probprime", "getprimebig", "isprime", "mrbig", "hpke"):
        return 60000
    return 8000


def consumer_specs(q):
    from . import _c18_consumers as C
    from ..ref import ec as REC
    from ..keys import dsa_key
    S = []
    for cv in C.P_CURVES:
        for kd in C.head_kinds(REC.CURVES[cv].order - 2):
            S.append(("ecgen", cv, kd))
            S.append(("ecdsa", cv, kd))
    for cv in sorted(C.SEED_CURVES):
        for kd in C.SEED_KINDS:
            S.append(("ecseed", cv, kd))
    for L, N in C.DSA_SIZES:
        for kd in C.head_kinds(int(dsa_key(L, N).q) - 2):
            S.append(("dsasig", L, kd))
        for kd in C.DSAGEN_KINDS:
            S.append(("dsagen", L, kd))
    for kd in C.RSAGEN_KINDS:
        S.append(("rsagen", 1024, kd))
        if not q:
            S.append(("rsagen", 2048, kd))
            S.append(("rsagen", 1025, kd))
    S.append(("dsafull", 1024))
    if not q:
        S.append(("dsafull", 2048))
    for w in ("ECDSA", "DSA", "RSA"):
        order = {"ECDSA": REC.CURVES["p256"].order, "DSA": int(dsa_key(1024, 160).q)}.get(w)
        if order is None:
            from ..keys import rsa_components
            order = rsa_components(1024)["n"]
        for kd in C.head_kinds(order - 2):
            S.append(("blind", w, kd))
    if not q:
        S.extend(_more_consumers(C, REC))
    ks = (64, 255, 256, 521, 1024) if q else (8, 63, 64, 65, 127, 128, 255, 256, 257, 383, 384, 520, 521, 1023, 1024, 2048)
    for be in BACKENDS:
        for cv in C.P_CURVES:
            for kd in C.head_kinds(REC.CURVES[cv].order - 2):
                S.append(("bigrange", be, "order", cv, 0, kd, False))
        for loname in ("0", "big"):
            for k in ks:
                for delta in (-2, -1, 0, 1):
                    for kd in C.head_kinds((1 << k) + delta):
                        for incl in ((True, False) if loname == "0" else (True,)):
                            S.append(("bigrange", be, loname, k, delta, kd, incl))
        for bits in (63, 64, 65, 127, 128, 159, 160, 161, 224, 255, 256, 257, 511, 512, 513, 1023, 1024, 1025, 2047, 2048):
            for exact in (False, True):
                for kd in C.SEED_KINDS:
                    S.append(("bigrandom", be, bits, exact, kd))
    return S


def _more_consumers(C, REC):
    """thorough tier: consumers of the samplers that the quick grid does not drive"""
    from ..keys import dsa_key, rsa_components
    S = []
    for bits in (1031, 1032):
        for kd in C.RSAGEN_KINDS:
            S.append(("rsagen", bits, kd))
    # blinding factors on every curve / stored key size
    for cv in C.P_CURVES:
        if cv != "p256":
            for kd in C.head_kinds(REC.CURVES[cv].order - 2):
                S.append(("blind", "ECDSA/" + cv, kd))
    for L, N in C.DSA_SIZES[1:]:
        for kd in C.head_kinds(int(dsa_key(L, N).q) - 2):
            S.append(("blind", "DSA/%d" % L, kd))
    for bits in (1025, 1031, 1032, 2048):
        for kd in C.head_kinds(rsa_components(bits)["n"] - 2):
            S.append(("blind", "RSA/%d" % bits, kd))
    # Miller-Rabin bases at full size (Integer.random_range and the legacy getRandomRange)
    for w in C.MR_NUMBERS:
        n = C._mr_number(w)[0]
        for kd in C.head_kinds(n - 4):
            S.append(("mrbig", w, kd))
        for kd in C.legacy_kinds(n - 3):
            S.append(("isprime", w, kd))
    # prime generators
    for bits in (160, 161, 167, 168, 169, 255, 256, 257, 511, 512, 513, 1024):
        for kd in C.SEED_KINDS:
            S.append(("probprime", bits, kd))
    for bits in (161, 162, 168, 169, 192):
        for kd in C.SEED_KINDS:
            S.append(("safeprime", bits, kd))
    for N in (17, 18, 24, 25, 32, 33, 64, 65, 128, 129, 255, 256, 257, 512):
        for kd in C.SEED_KINDS:
            S.append(("getprimebig", N, kd))
    for N in (512, 640, 768):
        for e in (0, 3, 65537, 65536):
            for kd in C.STRONG_KINDS:
                S.append(("strongprime", N, e, kd))
    # ElGamal: key generation (private key at the edges of [2, p-2]) and the decryption blinding factor
    for bits in (161, 256):
        S.append(("elgamal", bits, "first-pass"))
    for bits in (161, 256):
        # p-4 has exactly `bits` bits, so the kinds are those of any bound of that size below 2^bits - 2
        for kd in C.head_kinds((1 << bits) - 5):
            S.append(("elgamal", bits, kd))
    for kd in C.head_kinds((1 << 161) - 5):
        S.append(("elgblind", 161, kd))
    # HPKE sender: ephemeral key pairs are generated from the process RNG
    for cv in C.HPKE_CURVES:
        for kd in (C.head_kinds(REC.CURVES[cv].order - 2) if cv in C.P_CURVES else C.SEED_KINDS):
            S.append(("hpke", cv, kd))
    return S


# ---------------------------------------------------------------------------
# workers
# ---------------------------------------------------------------------------
def worker(jobs):
    from . import _c18_consumers as C
    acc = Acc()
    restore_module_rng()            # remember the module-level entropy source
    with T.Tripwire() as tw:
        _Ctl.trip = tw
        try:
            for job in jobs:
                kind = job[0]
                t0 = time.time()
                if kind != "consumer" and _skip(job, acc, t0):
                    continue
                if kind == "single":
                    check_single(job[1], job[2], job[3], job[4], acc)
                elif kind == "tree":
                    check_tree(job[1], job[2], acc)
                elif kind == "sharded":
                    sharded_part(job[1], job[2], acc)
                elif kind == "bigtree":
                    tree_part(job[1], job[2], job[3], acc)
                if kind != "consumer":
                    acc.n["cpu_s/" + job[1][0]] = acc.n.get("cpu_s/" + job[1][0], 0) + time.time() - t0
            _Ctl.trip = None
        finally:
            _Ctl.trip = None
    for job in jobs:                 # consumers install their own tripwire/recorder
        if job[0] == "consumer":
            t0 = time.time()
            C.check_consumer(job[1], acc)
            acc.n["cpu_s/consumers"] = acc.n.get("cpu_s/consumers", 0) + time.time() - t0
    return acc


_FAM = {"irange": "Integer.random_range", "irandom": "Integer.random", "grb": "StrongRandom.getrandbits",
        "randrange": "StrongRandom.randrange", "randint": "StrongRandom.randint", "choice": "StrongRandom.choice",
        "shuffle": "StrongRandom.shuffle", "sample": "StrongRandom.sample", "gri": "number.getRandomInteger",
        "grn": "number.getRandomNBitInteger", "grr": "number.getRandomRange",
        "choice_t": "StrongRandom.choice", "sample_t": "StrongRandom.sample", "seq": "StrongRandom.call-sequence",
        "mr": "Primality.miller_rabin_test", "rmt": "number._rabinMillerTest", "getprime": "number.getPrime",
        "ps15": "PKCS1_v1_5.padding-octets"}


def _skip(job, acc, now):
    """A family that already produced a violation in this worker is not enumerated further (a broken sampler can
    make every tree 256 times larger); past the deadline the remaining cases are reported as a cap."""
    fam = "C18/%s/" % _FAM[job[1][0]]
    if any(k.startswith(fam) for k in acc.viol):
        acc.count("cases_skipped_after_violation_in_same_function")
        return True
    if _Ctl.deadline is not None and now > _Ctl.deadline:
        acc.count("cases_skipped_deadline")
        acc.cap("time budget exhausted: some cases were not run")
        return True
    return False


def _balance(jobs, nshards):
    """longest-processing-time-first assignment of (job, cost) to shards"""
    order = sorted(range(len(jobs)), key=lambda i: (-jobs[i][1], i))
    loads = [0] * nshards
    shards = [[] for _ in range(nshards)]
    import heapq
    heap = [(0, i) for i in range(nshards)]
    for i in order:
        load, s = heapq.heappop(heap)
        shards[s].append(jobs[i][0])
        heapq.heappush(heap, (load + jobs[i][1], s))
    return [s for s in shards if s]


def run(ctx):
    q = ctx.quick
    jobs = build_jobs(q)
    heavy = [j for j in jobs if j[1] >= 3000000]
    light = [j for j in jobs if j[1] < 3000000]
    shards = [[j[0]] for j in sorted(heavy, key=lambda j: -j[1])] + _balance(light, 96 if q else 256)
    _Ctl.deadline = time.time() + 0.85 * max(30.0, ctx.time_left())
    ctx.pmap(worker, shards)
    a = ctx.acc
    # ---- verdicts of the split trees
    rle = {}
    for r in a.distinct.get("rle", ()):
        rle.setdefault(r[0], []).append(r)
    rle_open = {}
    for r in a.distinct.get("rle_open", ()):
        rle_open.setdefault(r[0], []).append(r)
    for spec, nparts in sorted(set((j[0][1], j[0][3]) for j in jobs if j[0][0] == "sharded")):
        sharded_verdict(spec, rle.get(spec, []), rle_open.get(spec, []), a, nparts)
    th = {}
    for r in a.distinct.get("thist", ()):
        th.setdefault((r[0], r[1]), []).append(r)
    for spec, extra, nparts in sorted(set((j[0][1], j[0][2], j[0][4]) for j in jobs if j[0][0] == "bigtree")):
        tree_verdict(spec, extra, th.get((spec, extra), []), nparts, a)
    a.distinct.pop("rle", None)
    a.distinct.pop("rle_open", None)
    a.distinct.pop("thist", None)
    # ---- vacuity guards
    n = a.n
    njobs = sum(1 for j in jobs if j[0][0] in ("single", "tree", "consumer"))
    skipped = n.get("cases_skipped_after_violation_in_same_function", 0) + n.get("cases_skipped_deadline", 0)
    ctx.require(n.get("configs_done", 0) + skipped >= njobs and (skipped == 0 or a.viol or a.caps),
                "%d of %d cases were executed" % (n.get("configs_done", 0), njobs))
    if skipped:
        # cases were skipped after a violation/deadline: the guarded classes may legitimately be empty
        ctx.require = lambda cond, msg: None
    cl = a.distinct.get("classes", set())
    fams = set(c[0] for c in cl)
    for f in ("Integer.random", "Integer.random_range", "StrongRandom.getrandbits", "StrongRandom.randrange", "StrongRandom.randint",
              "StrongRandom.choice", "StrongRandom.shuffle", "StrongRandom.sample", "number.getRandomInteger", "number.getRandomRange",
              "number.getRandomNBitInteger", "ECC.generate", "ECDSA-nonce", "DSA-nonce", "DSA.generate", "RSA.generate", "blinding",
              "Integer.random_range/full-size", "Integer.random/full-size"):
        ctx.require(f in fams, "no case of %s completed" % f)
    ctx.require(all(any(c[0] == "Integer.random_range" and c[1] == be for c in cl) for be in BACKENDS), "a back-end was not exercised")
    ctx.require(n.get("configs_with_rejection", 0) > 100 and n.get("configs_without_rejection", 0) > 50,
                "the grids did not contain both ranges with and without rejection")
    ctx.require(n.get("depth1_configs", 0) > 50 and n.get("depth2_configs", 0) > 20 and n.get("nodes_after_rejection", 0) > 1000,
                "too few attempts after a rejection were compared with the fresh attempt")
    ctx.require(n.get("cross_configs", 0) >= 2, "no two-byte attempt was cross-enumerated after a rejection")
    ctx.require(n.get("tree_configs_with_rejection", 0) >= 5, "composite selections were not explored beyond zero rejections")
    ctx.require(any(c[0] == "ECC.generate" and c[2] == "first-attempt-accepted" for c in cl if len(c) == 4)
                and any(c[0] == "ECC.generate" and str(c[2]).startswith("rejected") for c in cl if len(c) == 4)
                and any(c[0] == "ECC.generate" and c[3] is True for c in cl if len(c) == 4),
                "boundary tapes did not reach both sides of the accept/reject edge (or never set masked-off bits)")
    ctx.require(len(set(c[1] for c in cl if c[0] == "ECC.generate")) == 9, "not all nine curves were generated on")
    ctx.require(n.get("recorded_integer_draws", 0) > 1000, "the recorder saw too few internal Integer draws")
    ctx.require(n.get("negative_step_refused", 0) + sum(1 for c in cl if c[0] == "StrongRandom.randrange") > 0, "randrange not exercised")
    ctx.require(n.get("attempt_maps_equal_reference", 0) > 100 or bool(a.obs), "reference comparison never ran")
    if not q:
        # the entry points and value classes that only the thorough tier drives
        for f in ("Primality.miller_rabin_test", "number._rabinMillerTest", "number.getPrime", "PKCS1_v1_5.padding-octets",
                  "Primality.miller_rabin_test/full-size", "number.isPrime/full-size", "number.getPrime/full-size",
                  "number.getStrongPrime", "Primality.generate_probable_prime", "Primality.generate_probable_safe_prime",
                  "ElGamal.generate", "HPKE-ephemeral-key"):
            ctx.require(f in fams, "no case of %s completed" % f)
        for f in ("Primality.miller_rabin_test", "number._rabinMillerTest", "number.getPrime", "PKCS1_v1_5.padding-octets"):
            fc = [c for c in cl if c[0] == f and len(c) == 6]
            ctx.require(any(c[3] > 0 for c in fc), "%s: no complete tape tree with rejected prefixes" % f)
            ctx.require(any(c[4] >= 1 for c in fc) and any(c[5] for c in fc) or f == "PKCS1_v1_5.padding-octets" and any(c[4] >= 3 for c in fc),
                        "%s: no attempt after a rejection was enumerated / cross-enumerated" % f)
            ctx.require(f == "number.getPrime" or any(c[0] == f and len(c) == 5 for c in cl), "%s: no multi-draw tree completed" % f)
        ctx.require(len(set(c[1] for c in cl if c[0] == "blinding")) >= 14, "blinding factors were not driven on every curve / key size")
        ctx.require(set(c[1] for c in cl if c[0] == "HPKE-ephemeral-key") == set(("p256", "p384", "p521", "curve25519", "curve448")),
                    "HPKE ephemeral keys were not generated on all five curves")
        for f in ("ElGamal.generate", "Primality.miller_rabin_test/full-size", "number.isPrime/full-size", "HPKE-ephemeral-key"):
            ctx.require(any(c[0] == f and c[2] == "accepted" for c in cl) and any(c[0] == f and c[2] == "rejected-first" for c in cl),
                        "%s: boundary tapes did not reach both sides of the accept/reject edge" % f)
        ctx.require(any(c[0] == "number.getStrongPrime" and c[2] == "accepted" for c in cl), "getStrongPrime never produced a prime from a boundary tape")
        ctx.require("StrongRandom.call-sequence" in fams and n.get("sharded_configs", 0) == 2 + len(SHARDED_MORE),
                    "call sequences / three-byte attempt trees did not complete")
        ctx.require(n.get("recorded_legacy_draws", 0) > 500 and n.get("prime_candidates_checked", 0) > 1000,
                    "the recorder saw too few getRandomRange draws / prime candidates")
        ctx.require(sum(1 for c in a.distinct.get("configs", ()) if c[0] in ("irange", "randrange", "randint") and
                        isinstance(c[2], int) and (c[2] < 0 or c[2] > 1 << 63)) > 3000,
                    "negative / beyond-64-bit lower bounds were not exercised")
    ctx.coverage_extra.update({
        "evaluations": n.get("evaluations", 0),
        "complete_tapes_enumerated": n.get("tapes", 0),
        "distinct_nontrivial": len(cl),
        "distinct_cases": len(a.distinct.get("configs", ())),
        "exhaustive": not a.caps,
        "cases_by_rejection_depth_completely_enumerated": {str(d): n.get("depth%d_configs" % d, 0) for d in (0, 1, 2, 3, 4)},
        "attempts_after_rejection_compared_with_fresh_attempt": n.get("nodes_after_rejection", 0),
        "cross_enumerated_two_byte_cases": n.get("cross_configs", 0),
        "cross_pairs": n.get("cross_pairs", 0),
        "attempt_maps_equal_to_reference_sampler": n.get("attempt_maps_equal_reference", 0),
        "attempts_enumerated_twice_for_determinism": n.get("attempts_enumerated_twice", 0),
        "composite_trees": n.get("tree_configs", 0),
        "composite_tree_rejection_groups": n.get("tree_groups", 0),
        "split_three_byte_attempt_trees": n.get("sharded_configs", 0),
        "recorded_internal_integer_draws_checked": n.get("recorded_integer_draws", 0),
        "rsa_prime_candidates_checked": n.get("rsa_candidates_checked", 0),
        "cpu_seconds_by_part": {k[6:]: round(v, 1) for k, v in sorted(n.items()) if k.startswith("cpu_s/")},
        "grid": {
            "Integer.random": "exact_bits/max_bits 1..16 x Native/Custom/GMP%s: every tape (256 or 65536), no rejection possible"
                              % (" (Custom/GMP above 8 bits: 9, 13, 16)" if q else ""),
            "Integer.random_range": "min 0..3 x max-min 1..300 x {max_inclusive, max_exclusive} x 3 back-ends for ranges of <= 8 bits: every "
                                    "1-byte tape, plus every further attempt after every rejected prefix while a level has <= %s tapes "
                                    "(<= 2 rejections); Native min=1: limit %s; ranges of 9..16 bits (%s): every 2-byte tape of the "
                                    "first attempt, cross enumeration after a rejection on the marked cases%s"
                                    % ("2048 (quick)" if q else "32768 (Native; min 0,3 for Custom/GMP), 2048 otherwise", "16384" if q else "262144",
                                       "15 Native + 4 Custom/GMP boundary widths" if q else "max-min 256..300 and 2^k-1,2^k,2^k+1 for k<=16: Native min 0..3 (max_inclusive) / 0,3 (max_exclusive), Custom/GMP min=3",
                                       "" if q else "; 17-bit range [1, 65537]: all 2^24 tapes of the first attempt (Native)"),
            "StrongRandom": "getrandbits 1..16%s (randfunc=), 1..9,16 (rng=, module level); randrange start 0..3 x width 1..301 x step 1,2,3 "
                            "(+ step -1), randint a 0..3 x b-a 1..300, choice n<=7; byte-level trees: shuffle n<=%s, sample n<=5 k<=%s; "
                            "getrandbits-seam (bit-level) trees: shuffle n<=4, sample n<=5 k<=n with up to 4 extra requests"
                            % ("" if q else ",17", "3" if q else "4", "2" if q else "3"),
            "legacy": "getRandomInteger 0..16, getRandomNBitInteger 1..16, getRandomRange a 0..3 x b-a 1..301",
            **({} if q else {
                "value classes (thorough)": "lower bounds %s: Integer.random_range (3 back-ends, min in {-3, -1, 2^64+1, -2^64}, max-min 1..255 "
                                            "max_inclusive + 7 max_exclusive + 5 two-byte widths), randrange/randint (start/a in {-3, -2, -1, 2^64+1, "
                                            "-2^64}, randrange width 1..257, 300, 301, randint b-a 1..256, 299, 300); randrange steps %s x start -1, 0, 1 x %d counts of choices "
                                            "x stop at 1, step/2+1, step past the last choice; choice n 8..32; getrandbits(0) in all three variants"
                                            % ("{-3, -2, -1, 2^64+1, -2^64}", list(RR_STEPS), len(RR_COUNTS)),
                "further StrongRandom paths (thorough)": "choice on tuple/str/bytes/range n 1..16; sample on tuple/str/range n<=5 (byte level k<=2, "
                                                         "getrandbits seam k<=n); randrange(w) for w 1..255 also with rng= and at module level; "
                                                         "call sequences on ONE object: all 25 ordered pairs of {randrange(3), choice(5), randint(1,6), "
                                                         "getrandbits(2), randrange(4)} at byte level (65536 tapes each; randfunc=, rng=, module level; one pair "
                                                         "with one more request) and at the getrandbits seam with up to 4 extra requests (while the tree has "
                                                         "<= 2^17 paths), all 125 triples at the seam",
                "three-byte first attempts (thorough)": "all 2^24 tapes, split by the first byte, of: %s"
                                                        % "; ".join(make_target(sp).name for sp, _ in SHARDED_MORE),
                "Miller-Rabin bases": "Primality.miller_rabin_test(n, 1) with the drawn bases recorded: every odd n 7..259 (every 1-byte tape, "
                                      "attempts after a rejection while a level has <= 2048 tapes), n-4 in %s (every 2-byte tape; cross enumeration "
                                      "after a rejection for n-4 = 299, 32769); two iterations on the primes %s (all 65536 tapes: pairs of bases "
                                      "uniform on [2, n-2]^2); number._rabinMillerTest(n, 1): every odd n 3..257 (limit 32768, <= 2 rejections), "
                                      "n-3 in {256..300 even, 2^k-2, 2^k, 2^k+2 for k 9..16, <= 65535} (2-byte tapes, cross for 300, 512, 65534); two rounds on "
                                      "every prime 5..257 (all 65536 tapes, one more request where <= 3 one-byte tapes are rejected): ordered pairs of "
                                      "distinct bases uniform; the outcome of a case is the tuple of recorded bases; the primality verdict is compared "
                                      "with the reference strong-probable-prime test and a disagreement would be logged as an observation (not C18)"
                                      % (list(MR_TWO_BYTE), list(MR_PAIR_PRIMES)),
                "number.getPrime": "N = 2..16 (every size at which isPrime decides by its sieve without drawing): every tape of the first attempt, "
                                   "attempts after a rejected (composite) candidate while a level has <= 262144 tapes, cross enumeration for N = 10, 16; "
                                   "outcome set = the odd N-bit primes, uniform",
                "PKCS1_v1_5 padding": "encrypt() with a 128-bit key (k = 16): each of the 8 / 13 padding positions (message of 5 / 0 bytes) driven by "
                                      "the tape with the other octets fixed (3 fillers): 256 tapes + 3 rejections (zero octets) deep; pairs of adjacent "
                                      "positions, (first position, message length) in %s: all 65536 tapes plus one more request; the encryption block "
                                      "is recovered with the private exponent"
                                      % (list(PS15_PAIRS),),
                "cryptographic sizes (thorough)": "boundary tapes for: RSA.generate 1025/1031/1032/2048 bits; blinding factors of ECDSA on 5 curves, DSA on 3 "
                                                  "domains, RSA 1024/1025/1031/1032/2048, ElGamal decryption (process RNG and ElGamalKey(randfunc)); "
                                                  "miller_rabin_test and number.isPrime on 5 primes and an RSA modulus (first base at the edges of [2, n-2] / "
                                                  "[2, n-1]); generate_probable_prime at 12 sizes 160..1024, generate_probable_safe_prime at 5 sizes 161..192, "
                                                  "number.getPrime at 14 sizes 17..512, number.getStrongPrime 512/640/768 x e in {0, 3, 65537, 65536} x 9 tapes "
                                                  "for the starting point; ElGamal.generate 161/256 bits (the recorded byte prefix of a first run followed by a "
                                                  "boundary head for the private key x in [2, p-2]); HPKE sender ephemeral keys on P-256/384/521, X25519, X448 "
                                                  "(process RNG answering from the tape)",
            }),
            "cryptographic sizes": "boundary tapes {0..0, 1, bound-1, bound, bound+1, F..F, reject-reject-accept, masked-off top bits set} for "
                                   "ECC.generate on 9 curves, FIPS ECDSA nonces on 5 curves, FIPS DSA nonces and DSA.generate on 3 stored "
                                   "domains, RSA.generate, blinding factors of ECDSA/DSA/RSA, Integer.random/random_range at 63..2048 bits "
                                   "in 3 back-ends",
        },
    })
    ctx.assume("rejection depth: the attempt after a rejection is enumerated completely only to the stated depth (<= 2 rejections for "
               "1-byte attempts while a level has <= the stated number of tapes); beyond it exact uniformity rests on the verified "
               "identity 'attempt after any explored rejected prefix == fresh attempt'")
    ctx.assume("ranges needing 9..16 bits: the second attempt is enumerated as a cross {all rejected prefixes} x {6 continuations} + "
               "{3 rejected prefixes} x {all 65536 continuations} on the marked cases only; ranges needing >= 17 bits only in the "
               "thorough tier and only the first attempt")
    ctx.assume("composite selections at byte level are enumerated to the stated number of extra requests; deeper rejection histories at "
               "the getrandbits seam (each getrandbits(k) call a choice point with 2^k equally likely answers), justified by the complete "
               "byte-level check of getrandbits(1..16) and a tripwire on byte reads below the seam")
    ctx.assume("cryptographic sizes cannot be enumerated: only the listed boundary tapes (plus a deterministic fallback stream) are run; "
               "there the oracle is range + equality with the plain reference rejection sampler on the same bytes")
    ctx.assume("DSA private keys are derived by FIPS 186-4 B.1.1 (extra random bits, modulo), not by rejection: logged as an observation; "
               + ("getPrime/getStrongPrime, the Miller-Rabin base draws on their own, PKCS#1 v1.5 padding octets, HPKE ephemeral keys and "
                  "ElGamal generation are covered in the thorough tier only" if q else
                  "getPrime is enumerated completely only for N <= 16 (above, its primality test draws bases from the same tape: boundary tapes); "
                  "getStrongPrime, generate_probable_[safe_]prime, ElGamal and HPKE only with boundary tapes; PKCS#1 v1.5 padding octets one or two "
                  "positions at a time (the complete tree over all >= 8 positions has 256^8 tapes); Miller-Rabin with two iterations only on "
                  "prime candidates (on composites the early exit makes the documented outcome set non-uniform by design)"))


def replay(case, acc):
    from . import _c18_consumers as C
    p = case["part"]

    def tup(x):
        return tuple(tup(v) if isinstance(v, list) else v for v in x)
    restore_module_rng()
    if p == "consumer":
        C.check_consumer(tup(case["spec"]), acc)
        return
    with T.Tripwire() as tw:
        _Ctl.trip = tw
        try:
            if p == "single":
                check_single(tup(case["spec"]), case["limit"], case["maxdepth"], case["cross"], acc)
            elif p == "tree":
                check_tree(tup(case["spec"]), case["extra"], acc)
            elif p == "sharded":
                sub = Acc()
                for part in range(32):
                    sharded_part(tup(case["spec"]), tuple(range(part * 8, part * 8 + 8)), sub)
                spec = tup(case["spec"])
                sharded_verdict(spec, [r for r in sub.distinct.get("rle", ()) if r[0] == spec],
                                [r for r in sub.distinct.get("rle_open", ()) if r[0] == spec], acc, 32)
            elif p == "bigtree":
                sub = Acc()
                spec = tup(case["spec"])
                for part in range(64):
                    tree_part(spec, case["extra"], tuple(range(part * 4, part * 4 + 4)), sub)
                tree_verdict(spec, case["extra"], list(sub.distinct.get("thist", ())), 64, acc)
        finally:
            _Ctl.trip = None
