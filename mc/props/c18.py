"""C18 - random integers and selections are within their bounds and exactly uniform given uniform entropy.

TapeExplorer: the entropy source of every sampler is replaced by a tape; each request randfunc(n)
is a choice point with 256^n answers.  For small ranges the COMPLETE tape tree is enumerated
depth-first with exact rational weights (a leaf that consumed b bits weighs 2^-b) up to a stated
number of rejections; per attempt every documented outcome must have the same weight and the
attempt after a rejection must be the same map as a fresh one.  Cryptographic sizes (EC scalars,
DSA x, FIPS nonces, RSA/DSA generation, blinding factors) are driven with boundary tapes around the
accept/reject edge and compared with a plain reference rejection sampler on the same bytes.
"""
import itertools
from fractions import Fraction

from ..common import Acc, short, seeded, seeded_int, SEED
from . import _c18_tape as T
from ._c18_tape import Tape, BitTape, NeedMore, Diverged, TooWide, REJ, expand, group_weights
from ._c18_targets import make_target, BACKENDS, restore_module_rng, BYPASS

LEVEL = "exploration"
RULE = ("a case is one sampler call (function, back-end/variant, bounds) together with its COMPLETE entropy-tape tree: "
        "every answer (all 256^n byte strings) to every entropy request, depth-first, to the stated rejection depth; "
        "evaluations = executions of the real sampler on a tape prefix; a case is non-trivial when its tree has both "
        "accepting leaves and (where the range is not a power of two) rejected prefixes; distinct_nontrivial counts "
        "distinct (function, back-end, request shape per attempt, rejection-rate class, rejection depth explored) "
        "classes actually observed; cryptographic sizes: one case per (consumer, curve/size, boundary tape)")
BUDGET = {"quick": 240, "thorough": 2400}

MAX_ATTEMPT_NODES = 70000       # a single attempt is enumerated completely only up to this many tapes


def _fr(count, cost):
    return str(Fraction(count, 1 << cost))


class _Ctl(object):
    """per-process state: tripwire"""
    trip = None


def _trip_count():
    return _Ctl.trip.count if _Ctl.trip is not None else 0


# ---------------------------------------------------------------------------
# analysis of one attempt map
# ---------------------------------------------------------------------------
def analyze(leaves, tg, where=""):
    """leaves: continuation -> outcome for ONE complete attempt (or one group of a composite tree).
    -> None or (tag, text): exception, out-of-range, non-uniform."""
    show = tg.tapecls.show
    dom = tg.domain
    domset = dom if isinstance(dom, range) else set(dom)
    bad = None
    for cont, out in leaves.items():
        if isinstance(out, tuple) and len(out) == 2 and out[0] == "exc":
            return ("raises-%s" % out[1], "%stape %s makes the call raise %s" % (where, show(cont), out[1]))
        if out not in domset:
            if bad is None or cont < bad[0]:
                bad = (cont, out)
    if bad is not None:
        return ("out-of-range", "%stape %s gives %r, outside the documented range [%r .. %r]"
                % (where, show(bad[0]), bad[1], dom[0], dom[-1]))
    groups = group_weights(leaves, tg.tapecls)
    N = len(dom)
    for cost in sorted(groups):
        g = groups[cost]
        lo_v, lo_c, hi_v, hi_c = None, None, None, None
        for v in dom:
            c = g.get(v, 0)
            if lo_c is None or c < lo_c:
                lo_v, lo_c = v, c
            if hi_c is None or c > hi_c:
                hi_v, hi_c = v, c
        if lo_c != hi_c:
            ex = [show(c) for c, o in sorted(leaves.items()) if o == hi_v][:3]
            certain = Fraction(hi_c, 1 << cost) > Fraction(1, N)
            return ("nonuniform", "%samong the tapes that produce a result after %d entropy bits, outcome %r has weight %s "
                    "but outcome %r has weight %s (%d documented outcomes; tapes giving %r: %s)%s"
                    % (where, cost, hi_v, _fr(hi_c, cost), lo_v, _fr(lo_c, cost), N, hi_v, ", ".join(ex),
                       "; weight above 1/%d: no continuation can restore uniformity" % N if certain else ""))
    return None


def _cost(cont, tapecls):
    return sum(tapecls.bits(a) for a in cont)


# ---------------------------------------------------------------------------
# single draw: attempt map, uniformity per attempt, attempt after rejection == fresh attempt
# ---------------------------------------------------------------------------
def check_single(spec, limit, maxdepth, cross, acc):
    """limit: a further rejection level is enumerated completely while it has <= limit tapes;
    maxdepth: maximum number of rejections; cross: for levels too large, enumerate the 'cross'
    {every rejected prefix} x {representative continuations}  +  {representative prefixes} x {every continuation}."""
    tg = make_target(spec)
    case = {"part": "single", "spec": list(spec), "limit": limit, "maxdepth": maxdepth, "cross": cross}
    acc.count("configs_done")

    def viol(tag, text):
        acc.violation("C18/%s/%s" % (tg.fam, tag), "%s: %s" % (tg.name, text), case, size=tg.size)

    try:
        _single(tg, limit, maxdepth, cross, acc, viol)
    except Diverged as e:
        viol("not-a-function-of-the-tape", "replaying a recorded tape prefix the sampler behaved differently (%s)" % e)
    except TooWide as e:
        acc.cap("%s: an entropy request/attempt too wide to branch completely (%s)" % (tg.fam, e))
    finally:
        if spec[1] == "module":
            restore_module_rng()


def _single(tg, limit, maxdepth, cross, acc, viol):
    run, tapecls, dom = tg.run, tg.tapecls, tg.domain
    show = tapecls.show
    N = len(dom)
    trip0 = _trip_count()
    # ---- root: does the call consult the tape at all?
    t = tapecls(())
    acc.count("evaluations")
    try:
        out = run(t)
    except NeedMore:
        out = NeedMore
    except Exception as e:  # noqa
        acc.seen("classes", (tg.fam, tg.variant, "raises", type(e).__name__))
        if N == 0 or tg.spec[0] == "randrange" and tg.spec[4] < 0:
            acc.observe("%s with a negative step raises %s before drawing anything (range(start, stop, step) is not "
                        "empty); no value is produced, so bounds/uniformity are not concerned" % (tg.fam, type(e).__name__))
            acc.count("negative_step_refused")
            return
        viol("raises-%s" % type(e).__name__, "raises %s(%s) before reading any entropy" % (type(e).__name__, e))
        return
    if out is not NeedMore:
        if N > 1:
            viol("randfunc-ignored", "returned %r without reading a single byte from the supplied entropy source "
                 "(%d requests seen, system RNG consulted %d times): the result is not a function of randfunc"
                 % (out, t.calls, _trip_count() - trip0))
        elif out != dom[0]:
            viol("out-of-range", "returned %r, the only documented value is %r" % (out, dom[0]))
        else:
            acc.seen("classes", (tg.fam, tg.variant, "single-value-range-no-entropy"))
            acc.count("tapes")
        return
    # ---- first attempt: smallest number of requests after which some tape produces a result
    A = 0
    leaves, opens = {}, [()]
    while not leaves and A < 3 and len(opens) <= 256:
        A += 1
        leaves, opens, n = _expand(run, (), A, tapecls)
        acc.count("evaluations", n)
    if not leaves:
        acc.cap("%s: no tape of up to %d requests produced a result" % (tg.name, A))
        return
    acc.count("tapes", len(leaves) + len(opens))
    shape = tuple(tapecls.bits(a) for a in next(iter(leaves)))
    # ---- determinism / system RNG
    if _trip_count() != trip0:
        l2, o2, n = _expand(run, (), A, tapecls)
        acc.count("evaluations", n)
        if l2 != leaves or o2 != opens:
            viol("not-a-function-of-the-tape", "the process-wide RNG was consulted %d times and two enumerations of the same "
                 "tapes gave different results" % (_trip_count() - trip0))
            return
        acc.observe("%s consulted the process-wide RNG although an entropy source was supplied (results unaffected)" % tg.fam)
    # ---- bounds and exact uniformity of the fresh attempt
    r = analyze(leaves, tg)
    if r:
        viol(r[0], r[1])
        return
    acc_w = sum(Fraction(1, 1 << _cost(c, tapecls)) for c in leaves)
    rej_w = sum(Fraction(1, 1 << _cost(c, tapecls)) for c in opens)
    if acc_w + rej_w != 1:
        acc.error("%s: tape weights do not sum to 1 (%s + %s)" % (tg.name, acc_w, rej_w))
        return
    # ---- reference sampler: same outcome on the same bytes, same bytes per attempt (observation only)
    if tg.ref is not None:
        ref = tg.ref
        diff = shp = 0
        for cont in itertools.chain(leaves, opens):
            ro, rs = ref(cont)
            if rs != tuple(len(a) for a in cont):
                shp += 1
            elif ro != leaves.get(cont, REJ):
                diff += 1
        if shp:
            acc.observe("%s: entropy requests per attempt differ from the reference rejection sampler" % tg.fam)
        elif diff:
            acc.observe("%s: tape->outcome map differs from the reference rejection sampler (uniformity decides)" % tg.fam)
        else:
            acc.count("attempt_maps_equal_reference")
    # ---- deeper levels: the attempt after a rejection must be the same map as the fresh attempt
    depth = 0
    nodes = [()]
    level_opens = opens
    weights = [acc_w]
    per_attempt = len(leaves) + len(opens)
    while depth < maxdepth and opens:
        nxt = [p + o for p in nodes for o in opens]          # isomorphism verified so far => same opens everywhere
        if len(nxt) * per_attempt > limit:
            break
        depth += 1
        for p in nxt:
            sub, sub_opens, n = _expand(run, p, A, tapecls)
            acc.count("evaluations", n)
            acc.count("tapes", len(sub) + len(sub_opens))
            acc.count("nodes_after_rejection")
            if sub == leaves and sub_opens == opens:
                continue
            r = analyze(sub, tg, "after the rejected prefix %s, " % show(p)) if sub else \
                ("no-result-after-rejection", "after the rejected prefix %s no tape of one more attempt produces a result" % show(p))
            if r:
                viol("after-rejection/" + r[0], r[1])
                return
            acc.observe("%s: the attempt after a rejection differs from a fresh attempt but is itself exactly uniform" % tg.fam)
            return
        nodes = nxt
        weights.append(rej_w ** depth * acc_w)
    # ---- cross enumeration for attempts too large for a complete second level
    crossed = False
    if cross and depth == 0 and opens and maxdepth > 0:
        crossed = True
        keys = sorted(leaves)
        lo_t = next(c for c in keys if leaves[c] == dom[0])
        hi_t = next(c for c in keys if leaves[c] == dom[-1])
        creps = []
        for c in (keys[0], keys[-1], lo_t, hi_t, opens[0], opens[-1]):
            if c not in creps:
                creps.append(c)
        preps = []
        for p in (opens[0], opens[len(opens) // 2], opens[-1]):
            if p not in preps:
                preps.append(p)
        suspects = []
        for p in opens:
            for c in creps:
                tp = tapecls(p + c)
                acc.count("evaluations")
                try:
                    o = run(tp)
                except NeedMore:
                    o = REJ
                except Exception as e:  # noqa
                    o = ("exc", type(e).__name__)
                if o != leaves.get(c, REJ):
                    suspects.append(p)
                    break
            if len(suspects) >= 2:
                break
        acc.count("cross_pairs", len(opens) * len(creps))
        for p in suspects + [p for p in preps if p not in suspects]:
            sub, sub_opens, n = _expand(run, p, A, tapecls)
            acc.count("evaluations", n)
            acc.count("tapes", len(sub) + len(sub_opens))
            acc.count("nodes_after_rejection")
            if sub == leaves and sub_opens == opens:
                continue
            r = analyze(sub, tg, "after the rejected prefix %s, " % show(p)) if sub else \
                ("no-result-after-rejection", "after the rejected prefix %s no tape of one more attempt produces a result" % show(p))
            if r:
                viol("after-rejection/" + r[0], r[1])
                return
            acc.observe("%s: the attempt after a rejection differs from a fresh attempt but is itself exactly uniform" % tg.fam)
            return
    rate = 0 if not opens else (1 if rej_w <= Fraction(1, 4) else 2)
    acc.seen("classes", (tg.fam, tg.variant, shape, rate, depth, crossed))
    acc.seen("configs", tg.spec)
    acc.count("depth%d_configs" % depth)
    if crossed:
        acc.count("cross_configs")
    if opens:
        acc.count("configs_with_rejection")
    else:
        acc.count("configs_without_rejection")
    if len(acc.samples) < 2 and opens and depth:
        acc.sample({"call": tg.name, "tapes_per_attempt": per_attempt, "request_bits_per_attempt": list(shape),
                    "outcomes": N, "weight_of_each_outcome_per_attempt": str(acc_w / N),
                    "accepted_weight_after_r_rejections": [str(w) for w in weights],
                    "rejection_depth_explored": depth, "first_rejected_tape": show(opens[0])})


def _expand(run, prefix, ncalls, tapecls):
    return expand(run, prefix, ncalls, tapecls, None, MAX_ATTEMPT_NODES)


# ---------------------------------------------------------------------------
# composite selections (shuffle, sample): the complete tree with a bound on the number of requests
# ---------------------------------------------------------------------------
def check_tree(spec, extra, acc):
    tg = make_target(spec)
    case = {"part": "tree", "spec": list(spec), "extra": extra}
    acc.count("configs_done")

    def viol(tag, text):
        acc.violation("C18/%s/%s" % (tg.fam, tag), "%s: %s" % (tg.name, text), case, size=tg.size)

    b0 = BYPASS[0]
    try:
        _tree(tg, extra, acc, viol)
    except Diverged as e:
        viol("not-a-function-of-the-tape", "replaying a recorded tape prefix the call behaved differently (%s)" % e)
    except TooWide as e:
        acc.cap("%s: an entropy request too wide to branch completely (%s)" % (tg.fam, e))
    finally:
        if spec[1] == "module":
            restore_module_rng()
    if BYPASS[0] != b0:
        acc.error("%s reads bytes without going through getrandbits: the bit-level seam is not valid" % tg.name)


def _tree(tg, extra, acc, viol):
    run, tapecls, dom = tg.run, tg.tapecls, tg.domain
    N = len(dom)
    trip0 = _trip_count()
    leaves, opens, n = expand(run, (), tg.base_calls + extra, tapecls)
    acc.count("evaluations", n)
    acc.count("tapes", len(leaves) + len(opens))
    if () in leaves and N > 1:
        viol("randfunc-ignored", "returned %r without consulting the supplied entropy source" % (leaves[()],))
        return
    if _trip_count() != trip0:
        l2, o2, n = expand(run, (), tg.base_calls + extra, tapecls)
        if l2 != leaves or o2 != opens:
            viol("not-a-function-of-the-tape", "the process-wide RNG was consulted and two enumerations of the same tapes differ")
            return
        acc.observe("%s consulted the process-wide RNG although an entropy source was supplied (results unaffected)" % tg.fam)
    if not leaves:
        acc.cap("%s: no tape of up to %d requests produced a result" % (tg.name, tg.base_calls + extra))
        return
    by_calls = {}
    for cont, out in leaves.items():
        by_calls.setdefault(len(cont), {})[cont] = out
    weights = []
    for ncalls in sorted(by_calls):
        g = by_calls[ncalls]
        r = analyze(g, tg, "among the tapes answering %d requests, " % ncalls)
        if r:
            viol(r[0], r[1])
            return
        weights.append((ncalls, str(sum(Fraction(1, 1 << _cost(c, tapecls)) for c in g))))
    tot = sum(Fraction(1, 1 << _cost(c, tapecls)) for c in itertools.chain(leaves, opens))
    if tot != 1:
        acc.error("%s: tape weights sum to %s" % (tg.name, tot))
        return
    full_ref = getattr(tg, "full_ref", None)
    if full_ref is not None:
        diff = 0
        for cont, out in leaves.items():
            rd = T.Reader(b"".join(cont))
            try:
                if full_ref(rd) != out or rd.pos != len(rd.data) or tuple(rd.sizes) != tuple(len(a) for a in cont):
                    diff += 1
            except T.RefMore:
                diff += 1
        if diff:
            acc.observe("%s: tape->outcome map differs from the reference (uniformity decides)" % tg.fam)
        else:
            acc.count("attempt_maps_equal_reference")
    acc.seen("classes", (tg.fam, tg.variant, tg.spec[2:], len(by_calls), bool(opens)))
    acc.seen("configs", tg.spec)
    acc.count("tree_configs")
    acc.count("tree_groups", len(by_calls))
    if len(by_calls) > 1:
        acc.count("tree_configs_with_rejection")
    if tg.spec[0] == "sample" and tg.spec[3] >= 2 and extra >= 1 and len(acc.samples) < 3:
        acc.sample({"call": tg.name, "outcomes": N, "accepted_weight_by_number_of_requests": weights,
                    "unexplored_weight": str(sum(Fraction(1, 1 << _cost(c, tapecls)) for c in opens))})


# ---------------------------------------------------------------------------
# very large single attempts (3 entropy bytes): the tree is split by the first byte; workers return the
# outcome histogram run-length encoded, the parent adds the histograms up
# ---------------------------------------------------------------------------
def sharded_part(spec, firsts, acc):
    """enumerate the attempt tapes whose first byte is in `firsts`; -> records via acc.seen('rle', ...)"""
    tg = make_target(spec)
    leaves, opens, n = expand(tg.run, (), 1 if spec[0] == "grb" else 2, tg.tapecls, first=set(firsts),
                              max_nodes=1 << 25)
    acc.count("evaluations", n)
    acc.count("tapes", len(leaves) + len(opens))
    hist = {}
    for cont, out in leaves.items():
        k = (_cost(cont, tg.tapecls), out if isinstance(out, int) else repr(out))
        hist[k] = hist.get(k, 0) + 1
    costs = sorted(set(k[0] for k in hist))
    for cost in costs:
        items = sorted((k[1], c) for k, c in hist.items() if k[0] == cost and isinstance(k[1], int))
        other = sorted((k[1], c) for k, c in hist.items() if k[0] == cost and not isinstance(k[1], int))
        runs = []
        for v, c in items:
            if runs and runs[-1][1] == v - 1 and runs[-1][2] == c:
                runs[-1][1] = v
            else:
                runs.append([v, v, c])
        acc.seen("rle", (tuple(spec), tuple(firsts), cost, tuple(tuple(r) for r in runs), tuple(other)))
    ocost = {}
    for c in opens:
        k = _cost(c, tg.tapecls)
        ocost[k] = ocost.get(k, 0) + 1
    acc.seen("rle_open", (tuple(spec), tuple(firsts), tuple(sorted(ocost.items()))))


def sharded_verdict(spec, records, open_records, acc, nparts):
    """records: the 'rle' tuples of this spec from all parts"""
    tg = make_target(spec)
    case = {"part": "sharded", "spec": list(spec)}
    dom = tg.domain

    def viol(tag, text):
        acc.violation("C18/%s/%s" % (tg.fam, tag), "%s: %s" % (tg.name, text), case, size=tg.size)

    parts = set(r[1] for r in open_records)
    if len(parts) != nparts:
        acc.error("%s: %d of %d tree parts reported" % (tg.name, len(parts), nparts))
        return
    total = Fraction(0)
    for cost in sorted(set(r[2] for r in records)):
        ev = {}
        for r in records:
            if r[2] != cost:
                continue
            if r[4]:
                viol("raises-or-non-integer", "outcome %s" % (r[4][0][0],))
                return
            for a, b, c in r[3]:
                ev[a] = ev.get(a, 0) + c
                ev[b + 1] = ev.get(b + 1, 0) - c
        cur = 0
        segs = []
        for x in sorted(ev):
            if ev[x] == 0:
                continue
            if segs:
                segs[-1][1] = x - 1
            cur += ev[x]
            segs.append([x, None, cur])
        segs = [s for s in segs if s[2] != 0]
        lo, hi = dom[0], dom[-1]
        for a, b, c in segs:
            if a < lo or b > hi:
                viol("out-of-range", "outcomes %d..%d are produced, outside the documented range [%d .. %d]" % (a, b, lo, hi))
                return
        covered = sum(b - a + 1 for a, b, c in segs)
        counts = set(c for a, b, c in segs)
        if covered != len(dom) or len(counts) != 1:
            a, b, c = max(segs, key=lambda s: s[2])
            a2, b2, c2 = min(segs, key=lambda s: s[2])
            if covered != len(dom):
                c2 = 0
            viol("nonuniform", "among the tapes that produce a result after %d entropy bits, outcomes %d..%d have weight %s each, "
                 "other documented outcomes have weight %s (%d of %d documented outcomes produced)"
                 % (cost, a, b, _fr(c, cost), _fr(c2, cost), covered, len(dom)))
            return
        total += Fraction(counts.pop() * len(dom), 1 << cost)
    for r in open_records:
        for cost, cnt in r[2]:
            total += Fraction(cnt, 1 << cost)
    if total != 1:
        acc.error("%s: tape weights of the sharded tree sum to %s" % (tg.name, total))
        return
    acc.seen("classes", (tg.fam, spec[1], "sharded-3-byte-attempt"))
    acc.seen("configs", tuple(spec))
    acc.count("sharded_configs")
