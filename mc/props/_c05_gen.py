"""C05, part gen: generate() of RSA / DSA / ElGamal / ECC driven by deterministic entropy tapes."""
import hashlib

from ..common import Acc, exc_site, short, SEED
from ..ref import nt
from ..ref import rsa as RR
from ..ref import dsa as RD
from ..ref import ec as E
from . import _c05_ec as H
from ._c05_base import guarded, install_seams, _DET

GEN_BUDGET = 300.0


class Tape:
    """randfunc: the bytes of `prefix` first, then SHA-512(label | counter) blocks"""
    def __init__(self, label, prefix=b""):
        self.label = ("c05tape|%d|%s" % (SEED, label)).encode()
        self.prefix = bytes(prefix)
        self.pos = 0
        self.ctr = 0
        self.buf = b""
        self.calls = 0
        self.nbytes = 0

    def __call__(self, n):
        self.calls += 1
        self.nbytes += n
        out = self.prefix[self.pos:self.pos + n]
        self.pos += len(out)
        while len(out) < n:
            if not self.buf:
                self.buf = hashlib.sha512(self.label + b"|%d" % self.ctr).digest()
                self.ctr += 1
            k = n - len(out)
            out += self.buf[:k]
            self.buf = self.buf[k:]
        return out


class _Chain:
    """randfunc serving `prefix` first and then another randfunc"""
    def __init__(self, prefix, rest):
        self.prefix, self.rest, self.pos = bytes(prefix), rest, 0

    def __call__(self, n):
        out = self.prefix[self.pos:self.pos + n]
        self.pos += len(out)
        if len(out) < n:
            out += self.rest(n - len(out))
        return out


def _prev_prime(n):
    """largest prime below n"""
    c = n - 1
    c -= 1 - (c & 1)
    while not nt.is_prime(c):
        c -= 2
    return c


def _viol(acc, kind, cat, what, case):
    acc.violation("C05/gen/%s/%s" % (kind, cat), what, case)


# ---------------------------------------------------------------------------
def check_gen_rsa(case, acc):
    """case: bits, e, label, prefix (bytes), inject ('q=p' | 'q~p' | None)"""
    from Crypto.PublicKey import RSA
    from . import c05 as M
    bits, e, label = case["bits"], case["e"], case["label"]
    tape = Tape(label, case.get("prefix") or b"")
    state = {"calls": 0, "p": None, "pbits": None, "offered": 0}
    orig = RSA.generate_probable_prime
    if case.get("inject") in ("q=p", "q~p"):
        def wrapper(**kw):
            state["calls"] += 1
            second = state["calls"] % 2 == 0
            if second and state["p"] is not None and kw.get("exact_bits") == state["pbits"]:
                # the first candidates offered for q must all be turned down by the |p - q| > 2^(bits/2 - 100) filter:
                #  q=p : the prime following p, and p itself
                #  q~p : primes no further than 2^(bits/2-100) from p whose leading 100 bits differ from p's (on the other side of
                #        the multiples of 2^(bits/2-100) below and above p), and the primes just inside distance 2^(bits/2-100)
                nb = (state["pbits"] + 7) // 8
                pp = state["p"]
                if case["inject"] == "q=p":
                    cands = [nt.next_prime(pp), pp]
                else:
                    sh = bits // 2 - 100
                    lo = (pp >> sh) << sh
                    cands = [_prev_prime(lo), nt.next_prime(lo + (1 << sh)), _prev_prime(pp + (1 << sh)), nt.next_prime(pp - (1 << sh))]
                    cands = [c for c in cands if 0 < abs(c - pp) <= (1 << sh)]
                pb = b"".join(c.to_bytes(nb, "big") for c in cands if c.bit_length() == state["pbits"])
                state["chain"] = _Chain(pb, kw["randfunc"])
                kw = dict(kw, randfunc=state["chain"])
                state["offered"] += 1
            r = orig(**kw)
            if not second:
                state["p"], state["pbits"] = int(r), kw.get("exact_bits")
            return r
        RSA.generate_probable_prime = wrapper
    try:
        st, val = guarded(lambda: RSA.generate(bits, randfunc=tape, e=e), GEN_BUDGET)
    finally:
        RSA.generate_probable_prime = orig
    pre = "RSA.generate(%d, e=%d) on tape %r%s%s" % (bits, e, label, " with prefix " + short(case["prefix"]) if case.get("prefix") else "",
                                                      " (first candidates offered for q: next_prime(p), p)" if case.get("inject") == "q=p" else
                                                      " (first candidates offered for q: primes within 2^(bits/2-100) of p across a multiple of 2^(bits/2-100), "
                                                      "and just inside that distance)" if case.get("inject") else "")
    legal = bits >= 1024 and e >= 3 and e % 2 == 1
    if case.get("inject") and state["offered"]:
        acc.count("gen_rsa_injected")
        ch = state["chain"]
        if ch.prefix and ch.pos == len(ch.prefix):
            acc.count("gen_rsa_injected_all_candidates_consumed")
            acc.count("gen_rsa_injected_candidates", len(ch.prefix) // ((state["pbits"] + 7) // 8))
    if st == "hang":
        _viol(acc, "rsa", "hang", pre + ": no key after %.0f s of CPU time" % GEN_BUDGET, case)
        return "hang"
    if st == "exc":
        if isinstance(val, ValueError):
            if legal:
                acc.observe("RSA.generate refused legal parameters bits=%d e=%d: %s" % (bits, e, val))
            return "ValueError"
        _viol(acc, "rsa", type(val).__name__, pre + ": raised %s: %s at %s" % (type(val).__name__, val, exc_site(val)), case)
        return type(val).__name__
    key = val
    if not legal:
        _viol(acc, "rsa", "invalid-parameter-accepted", pre + ": returned a key for parameters that cannot give a valid key", case)
        return "key!"
    n, ee, d, p, q, u = (int(getattr(key, a)) for a in "nedpqu")
    bad = []
    if n.bit_length() != bits:
        bad.append(("modulus-size", "n has %d bits" % n.bit_length()))
    if ee != e:
        bad.append(("public-exponent-differs", "e = %d" % ee))
    prop, other = M.rsa_key_bad(key)
    for c in prop:
        bad.append((c, c))
    half = bits // 2
    if p == q:
        bad.append(("p-equals-q", "p == q"))
    elif abs(p - q) <= (1 << (half - 100)):
        bad.append(("factors-too-close", "|p-q| has %d bits, must exceed 2^%d" % (abs(p - q).bit_length(), half - 100)))
    for nm, v in (("p", p), ("q", q)):
        if v * v <= (1 << (2 * half - 1)):
            bad.append(("factor-below-sqrt2-margin", "%s = %s is not above sqrt(2)*2^%d" % (nm, short(v), half - 1)))
    if d <= (1 << half):
        bad.append(("d-too-small", "d has %d bits" % d.bit_length()))
    lam = nt.lcm(p - 1, q - 1)
    if d >= lam:
        acc.observe("RSA.generate: d is not reduced modulo lcm(p-1, q-1)")
    for o in other:
        bad.append(("other-" + o, o))
    if bad:
        _viol(acc, "rsa", bad[0][0], pre + ": returned key (n %d bits, p=%s, q=%s, d %d bits) violates: %s"
              % (n.bit_length(), short(p), short(q), d.bit_length(), "; ".join(b[1] for b in bad)), case)
        return "key!"
    return "key"


# ---------------------------------------------------------------------------
def dsa_domain(spec):
    from ..keys import dsa_components
    name = spec[0]
    if name == "stored":
        c = dsa_components(spec[1], spec[2])
        p, q, g = c["p"], c["q"], c["g"]
        mod = spec[3] if len(spec) > 3 else None
        if mod == "g+1":
            g += 1
        elif mod == "g=1":
            g = 1
        elif mod == "g=0":
            g = 0
        elif mod == "g=p-1":
            g = p - 1
        elif mod == "g+p":
            g += p
        elif mod == "g^2":
            g = g * g % p            # still a generator of the order-q subgroup: valid
        elif mod == "p+2":
            p += 2
        elif mod == "q+2":
            q += 2
        elif mod == "q=cofactor":
            q = (p - 1) // q
        elif mod == "swap":
            p, q = q, p
        return (p, q, g), mod in (None, "g^2")
    if name == "tiny":
        return (23, 11, 2), False
    return None, True


def check_gen_dsa(case, acc):
    """case: bits, domain (spec list or None), label, prefix"""
    from Crypto.PublicKey import DSA
    bits, label = case["bits"], case["label"]
    dom, dom_ok = dsa_domain(case["domain"]) if case.get("domain") else (None, True)
    tape = Tape(label, case.get("prefix") or b"")
    _DET.reset(("gen-dsa|%r" % (case.get("domain"),)).encode())
    st, val = guarded(lambda: DSA.generate(bits, randfunc=tape, domain=dom), GEN_BUDGET)
    pre = "DSA.generate(%d, domain=%s) on tape %r%s" % (bits, case.get("domain") or "fresh", label,
                                                       " with prefix " + short(case["prefix"]) if case.get("prefix") else "")
    legal = dom_ok and bits in (1024, 2048, 3072) and (dom is None or dom[0].bit_length() == bits)
    if st == "hang":
        _viol(acc, "dsa", "hang", pre + ": no key after %.0f s of CPU time" % GEN_BUDGET, case)
        return "hang"
    if st == "exc":
        if isinstance(val, ValueError):
            if legal:
                acc.observe("DSA.generate refused legal parameters: %s" % val)
            return "ValueError"
        _viol(acc, "dsa", type(val).__name__, pre + ": raised %s: %s at %s" % (type(val).__name__, val, exc_site(val)), case)
        return type(val).__name__
    key = val
    p, q, g, y, x = (int(getattr(key, a)) for a in "pqgyx")
    bad = [b for b in RD.dsa_check_key(p, q, g, y, x, fips_sizes=True)]
    if p.bit_length() != bits:
        bad.append("modulus-size")
    if dom is not None and (p, q, g) != tuple(dom):
        bad.append("domain-differs-from-the-given-one")
    if not legal and not bad:
        bad.append("invalid-domain-accepted")
    if bad:
        _viol(acc, "dsa", bad[0].replace("_", "-"), pre + ": returned key (p %d bits, q %d bits, x=%s) violates: %s"
              % (p.bit_length(), q.bit_length(), short(x), ", ".join(bad)), case)
        return "key!"
    acc.seen("gen_dsa_x", "1" if x == 1 else "q-1" if x == q - 1 else "mid")
    return "key"


def dsa_boundary_prefixes(L, N):
    from ..keys import dsa_components
    q = dsa_components(L, N)["q"]
    nb = N + 64
    m = -(-(1 << (nb - 1)) // (q - 1))
    c = m * (q - 1)
    assert c.bit_length() == nb
    # FIPS 186-4 B.1.1: x = (c mod (q-1)) + 1.  Besides the two ends of that map, the neighbours of multiples of q and of
    # q-1 (where a reduction by the wrong modulus, or a missing "+ 1", leaves [1, q-1]) and of 2^N
    m2 = -(-(1 << (nb - 1)) // q)
    out = [("x=1", c), ("x=q-1", c + q - 2), ("c=m(q-1)-1", c - 1), ("c=m(q-1)+q-1", c + q - 1),
           ("c=mq-1", m2 * q - 1), ("c=mq", m2 * q), ("c=mq+1", m2 * q + 1), ("c=mq+q-1", m2 * q + q - 1),
           ("c=2^(N+63)+q-1", (1 << (nb - 1)) + q - 1), ("c=2^(N+63)", 1 << (nb - 1))]
    assert all(v.bit_length() == nb for _, v in out)
    return [(nm, v.to_bytes(nb // 8, "big")) for nm, v in out] + [("zeros", bytes(nb // 8)), ("ones", b"\xff" * (nb // 8))]


# ---------------------------------------------------------------------------
def check_gen_elg(case, acc):
    from Crypto.PublicKey import ElGamal
    bits, label = case["bits"], case["label"]
    tape = Tape(label, case.get("prefix") or b"")
    st, val = guarded(lambda: ElGamal.generate(bits, tape), GEN_BUDGET)
    pre = "ElGamal.generate(%d) on tape %r" % (bits, label)
    if st == "hang":
        acc.cap("ElGamal.generate(%d) on tape %r: no key after %.0f s of CPU time (safe-prime search; not judged)" % (bits, label, GEN_BUDGET))
        return "timeout"
    if st == "exc":
        if isinstance(val, ValueError):
            return "ValueError"
        _viol(acc, "elgamal", type(val).__name__, pre + ": raised %s: %s at %s" % (type(val).__name__, val, exc_site(val)), case)
        return type(val).__name__
    key = val
    p, g, y, x = (int(getattr(key, a)) for a in "pgyx")
    bad = []
    if p.bit_length() != bits:
        bad.append("modulus-size")
    if not nt.is_prime(p):
        bad.append("p-not-prime")
    if not 1 < g < p:
        bad.append("g-out-of-range")
    if not 0 < x < p - 1:
        bad.append("x-out-of-range")
    if pow(g, x, p) != y:
        bad.append("y-not-g-pow-x")
    if not bad:
        qq = (p - 1) // 2
        if not nt.is_prime(qq):
            acc.observe("ElGamal.generate: (p-1)/2 is not prime (documented: safe prime)")
        elif pow(g, qq, p) != 1:
            acc.observe("ElGamal.generate: g does not generate the order-(p-1)/2 subgroup")
        if g in (1, 2) or (p - 1) % g == 0 or (p - 1) % pow(g, -1, p) == 0:
            acc.observe("ElGamal.generate: g is one of the documented weak generators")
    if bad:
        _viol(acc, "elgamal", bad[0], pre + ": returned key (p=%s g=%s x=%s) violates: %s" % (short(p), short(g), short(x), ", ".join(bad)), case)
        return "key!"
    return "key"


# ---------------------------------------------------------------------------
def check_gen_ecc(case, acc):
    from Crypto.PublicKey import ECC
    from . import _c05_ecpart as P
    cn, label = case["curve"], case["label"]
    c = E.CURVES[cn]
    tape = Tape(label, case.get("prefix") or b"")
    st, val = guarded(lambda: ECC.generate(curve=H.LIBNAME[cn], randfunc=tape), GEN_BUDGET)
    pre = "ECC.generate(curve=%r) on tape %r%s" % (H.LIBNAME[cn], label, " with prefix " + short(case["prefix"]) if case.get("prefix") else "")
    fam = H.family(cn)
    if st == "hang":
        _viol(acc, "ecc", "hang/" + fam, pre + ": no key after %.0f s of CPU time" % GEN_BUDGET, case)
        return "hang"
    if st == "exc":
        if isinstance(val, ValueError) and c.kind == "montgomery":
            acc.observe("ECC.generate(%s) raised ValueError: %s" % (cn, val))
            return "ValueError"
        _viol(acc, "ecc", "%s/%s" % (type(val).__name__, fam), pre + ": raised %s: %s at %s" % (type(val).__name__, val, exc_site(val)), case)
        return type(val).__name__
    key = val
    S = {"xy": None, "comp": None, "edraw": None, "u": None, "uraw": False, "d": None, "seed": None, "pub": None}
    V, O = P.judge(cn, key, S, "generate", "valid")
    if not key.has_private():
        V.append(("no-private-part", "generate() returned a public key"))
    if c.kind != "weierstrass":
        want = (case.get("prefix") or b"")[:P.seed_len(cn)]
        if len(want) == P.seed_len(cn) and bytes(key.seed) != want:
            acc.observe("ECC.generate(%s): the seed is not the first bytes of the tape" % cn)
        acc.seen("gen_ecc_boundary", (cn, "seed"))
    else:
        d = int(key.d)
        acc.seen("gen_ecc_boundary", (cn, "d=1" if d == 1 else "d=n-1" if d == c.order - 1 else "mid"))
    for o in O:
        acc.observe(o)
    if V:
        _viol(acc, "ecc", "%s/%s" % (V[0][0], fam), pre + ": returned key violates: %s" % "; ".join(v[1] for v in V), case)
        return "key!"
    return "key"


def ecc_boundary_prefixes(cn):
    c = E.CURVES[cn]
    if c.kind == "weierstrass":
        nb = ((c.order - 2).bit_length() + 7) // 8
        return [("d=n-1", (c.order - 2).to_bytes(nb, "big")), ("n-1-rejected", (c.order - 1).to_bytes(nb, "big") + bytes(nb)),
                ("d=1", bytes(nb)), ("ones-rejected", b"\xff" * nb), ("n-rejected", c.order.to_bytes(nb, "big"))]
    n = {"ed25519": 32, "ed448": 57, "curve25519": 32, "curve448": 56}[cn]
    return [("zeros", bytes(n)), ("ones", b"\xff" * n), ("asc", bytes(i & 255 for i in range(n)))]


# ---------------------------------------------------------------------------
CHECK = {"rsa": check_gen_rsa, "dsa": check_gen_dsa, "elg": check_gen_elg, "ecc": check_gen_ecc}


def check_gen(case, acc):
    return CHECK[case["kind"]](case, acc)


def gen_cases(quick):
    nt_ = 2 if quick else 8
    out = []
    # RSA
    for bits in (1024, 1025):
        for e in (3, 65537):
            for i in range(nt_):
                out.append({"kind": "rsa", "bits": bits, "e": e, "label": "rsa/%d/%d/%d" % (bits, e, i)})
            for nm, pre in (("ff", b"\xff" * 192), ("00", bytes(192)), ("80", b"\x80" + bytes(191)), ("b5", b"\xb5\x04\xf3\x33" + bytes(60))):
                out.append({"kind": "rsa", "bits": bits, "e": e, "label": "rsa/%d/%d/%s" % (bits, e, nm), "prefix": pre})
            if bits % 2 == 0:
                for i in range(1 if quick else 3):
                    out.append({"kind": "rsa", "bits": bits, "e": e, "label": "rsa/%d/%d/inj%d" % (bits, e, i), "inject": "q=p"})
                    out.append({"kind": "rsa", "bits": bits, "e": e, "label": "rsa/%d/%d/near%d" % (bits, e, i), "inject": "q~p"})
    if not quick:
        out.append({"kind": "rsa", "bits": 2048, "e": 65537, "label": "rsa/2048/0"})
        out.append({"kind": "rsa", "bits": 2048, "e": 65537, "label": "rsa/2048/inj", "inject": "q=p"})
        out.append({"kind": "rsa", "bits": 1031, "e": 17, "label": "rsa/1031/0"})
    for bits, e in ((1023, 65537), (512, 65537), (0, 3), (1024, 1), (1024, 2), (1024, 65536), (1024, 0), (1024, -3), (1024, 4)):
        out.append({"kind": "rsa", "bits": bits, "e": e, "label": "rsa/bad/%d/%d" % (bits, e)})
    # DSA
    for i in range(nt_):
        out.append({"kind": "dsa", "bits": 1024, "domain": ["stored", 1024, 160], "label": "dsa/1024/%d" % i})
    for nm, pre in dsa_boundary_prefixes(1024, 160):
        out.append({"kind": "dsa", "bits": 1024, "domain": ["stored", 1024, 160], "label": "dsa/1024/" + nm, "prefix": pre})
    for mod in ("g+1", "g=1", "g=0", "g=p-1", "g+p", "g^2", "p+2", "q+2", "q=cofactor", "swap"):
        out.append({"kind": "dsa", "bits": 1024, "domain": ["stored", 1024, 160, mod], "label": "dsa/1024/dom-" + mod})
    out.append({"kind": "dsa", "bits": 2048, "domain": ["stored", 1024, 160], "label": "dsa/bits-mismatch"})
    out.append({"kind": "dsa", "bits": 5, "domain": ["tiny"], "label": "dsa/tiny"})
    out.append({"kind": "dsa", "bits": 1024, "domain": ["tiny"], "label": "dsa/tiny1024"})
    out.append({"kind": "dsa", "bits": 512, "domain": None, "label": "dsa/512"})
    out.append({"kind": "dsa", "bits": 1000, "domain": None, "label": "dsa/1000"})
    for i in range(1 if quick else 4):
        out.append({"kind": "dsa", "bits": 1024, "domain": None, "label": "dsa/fresh1024/%d" % i})
    if not quick:
        out.append({"kind": "dsa", "bits": 2048, "domain": ["stored", 2048, 224], "label": "dsa/2048/0"})
        out.append({"kind": "dsa", "bits": 2048, "domain": None, "label": "dsa/fresh2048/0"})
    # ElGamal
    for bits in (161, 168):
        for i in range(1 if quick else 8):
            out.append({"kind": "elg", "bits": bits, "label": "elg/%d/%d" % (bits, i)})
    # ECC
    for cn in H.ALL:
        for i in range(nt_):
            out.append({"kind": "ecc", "curve": cn, "label": "ecc/%s/%d" % (cn, i)})
        for nm, pre in ecc_boundary_prefixes(cn):
            out.append({"kind": "ecc", "curve": cn, "label": "ecc/%s/%s" % (cn, nm), "prefix": pre})
    if not quick:
        out += gen_cases_deep({c["label"] for c in out})
    for c in out:
        c["part"] = "gen"
    return out


# thorough tier only ---------------------------------------------------------
DEEP_RSA_BITS = tuple(range(1024, 1041))           # every residue of the modulus length mod 16: every split of p / q over octets
DEEP_RSA_E = (3, 5, 17, 257, 65537, 4294967311)
DEEP_RSA_LARGE = ((1536, 8), (2048, 8), (3072, 8), (4096, 4))    # (bits, tapes) for e in (3, 65537)
DEEP_ELG_BITS = tuple(range(161, 193)) + (224, 256)
DEEP_ECC_TAPES = 32


def ecc_window_prefixes(cn):
    """Weierstrass curves: first draw of random_range = every value within 8 of 0 and of the order (d = draw + 1 when the
    draw is at most n-2, otherwise the draw is discarded and the stream decides)"""
    c = E.CURVES[cn]
    nb = ((c.order - 2).bit_length() + 7) // 8
    vals = list(range(0, 8)) + list(range(c.order - 10, c.order + 7))
    return [("draw=%s%d" % ("" if v < 8 else "n", v if v < 8 else v - c.order), v.to_bytes(nb, "big") + bytes(nb)) for v in vals]


def gen_cases_deep(have):
    out = []
    # RSA: modulus lengths 1024..1040 x six public exponents x 8 streams + 4 crafted prefixes; candidates near p for even sizes
    for bits in DEEP_RSA_BITS:
        for e in DEEP_RSA_E:
            for i in range(8):
                out.append({"kind": "rsa", "bits": bits, "e": e, "label": "rsa/%d/%d/%d" % (bits, e, i)})
            for nm, pre in (("ff", b"\xff" * 192), ("00", bytes(192)), ("80", b"\x80" + bytes(191)), ("b5", b"\xb5\x04\xf3\x33" + bytes(60))):
                out.append({"kind": "rsa", "bits": bits, "e": e, "label": "rsa/%d/%d/%s" % (bits, e, nm), "prefix": pre})
            if bits % 2 == 0:
                for i in range(3):
                    out.append({"kind": "rsa", "bits": bits, "e": e, "label": "rsa/%d/%d/inj%d" % (bits, e, i), "inject": "q=p"})
                    out.append({"kind": "rsa", "bits": bits, "e": e, "label": "rsa/%d/%d/near%d" % (bits, e, i), "inject": "q~p"})
    for bits, nt_ in DEEP_RSA_LARGE:
        for e in (3, 65537):
            for i in range(nt_):
                out.append({"kind": "rsa", "bits": bits, "e": e, "label": "rsa/%d/%d/%d" % (bits, e, i)})
            out.append({"kind": "rsa", "bits": bits, "e": e, "label": "rsa/%d/%d/inj" % (bits, e), "inject": "q=p"})
            out.append({"kind": "rsa", "bits": bits, "e": e, "label": "rsa/%d/%d/near" % (bits, e), "inject": "q~p"})
    # illegal parameters: every modulus length 1016..1023 and every even / non-positive exponent in [-3, 8]
    for bits in range(1016, 1024):
        out.append({"kind": "rsa", "bits": bits, "e": 65537, "label": "rsa/bad/%d/65537" % bits})
    for e in (-3, -2, -1, 0, 1, 2, 4, 6, 8):
        for bits in (1024, 1025):
            out.append({"kind": "rsa", "bits": bits, "e": e, "label": "rsa/bad/%d/%d" % (bits, e)})
    # DSA: the 2048/224 and 3072/256 stored domains get what the 1024/160 domain gets; more fresh domains
    for (L, N) in ((2048, 224), (3072, 256)):
        for i in range(8):
            out.append({"kind": "dsa", "bits": L, "domain": ["stored", L, N], "label": "dsa/%d/%d" % (L, i)})
        for nm, pre in dsa_boundary_prefixes(L, N):
            out.append({"kind": "dsa", "bits": L, "domain": ["stored", L, N], "label": "dsa/%d/%s" % (L, nm), "prefix": pre})
        for mod in ("g+1", "g=1", "g=0", "g=p-1", "g+p", "g^2", "p+2", "q+2", "q=cofactor", "swap"):
            out.append({"kind": "dsa", "bits": L, "domain": ["stored", L, N, mod], "label": "dsa/%d/dom-%s" % (L, mod)})
        for bits in (1024, 2048, 3072):
            if bits != L:
                out.append({"kind": "dsa", "bits": bits, "domain": ["stored", L, N], "label": "dsa/bits-mismatch/%d/%d" % (L, bits)})
    for i in range(8, 24):
        out.append({"kind": "dsa", "bits": 1024, "domain": ["stored", 1024, 160], "label": "dsa/1024/%d" % i})
    for i in range(4, 16):
        out.append({"kind": "dsa", "bits": 1024, "domain": None, "label": "dsa/fresh1024/%d" % i})
    for i in range(1, 8):
        out.append({"kind": "dsa", "bits": 2048, "domain": None, "label": "dsa/fresh2048/%d" % i})
    for i in range(2):
        out.append({"kind": "dsa", "bits": 3072, "domain": None, "label": "dsa/fresh3072/%d" % i})
    for bits in (0, 1, 160, 1023, 1025, 2047, 2049, 3071, 3073, 4096):
        out.append({"kind": "dsa", "bits": bits, "domain": None, "label": "dsa/bad-bits/%d" % bits})
    # ElGamal: every modulus length 161..192 and 224, 256 (8 streams each); lengths the library must refuse or serve
    for bits in DEEP_ELG_BITS:
        for i in range(8):
            out.append({"kind": "elg", "bits": bits, "label": "elg/%d/%d" % (bits, i)})
    # ECC: 32 streams per curve, every first draw within 8 of the ends of [0, n-2]
    for cn in H.ALL:
        for i in range(8, DEEP_ECC_TAPES):
            out.append({"kind": "ecc", "curve": cn, "label": "ecc/%s/%d" % (cn, i)})
        if cn in H.WEIER:
            for nm, pre in ecc_window_prefixes(cn):
                out.append({"kind": "ecc", "curve": cn, "label": "ecc/%s/%s" % (cn, nm), "prefix": pre})
    return [c for c in out if c["label"] not in have]


def gen_cost(case):
    """rough CPU seconds of one case (only used to order and group shards)"""
    k, bits = case["kind"], case.get("bits", 0)
    if k == "rsa":
        return 0.12 * (max(bits, 512) / 1024.0) ** 3 if bits >= 1024 else 0.001
    if k == "elg":
        return 2.0 if bits > 160 else 0.001
    if k == "dsa":
        if case.get("domain") is None:
            return {1024: 1.5, 2048: 6.0, 3072: 30.0}.get(bits, 0.01)
        return 0.3 * (max(bits, 1024) / 1024.0) ** 3
    return 0.05


def gen_shards(cases, quick):
    if quick:
        return None
    cs = sorted(cases, key=lambda c: -gen_cost(c))
    heavy = [c for c in cs if gen_cost(c) >= 1.0]
    light = [c for c in cs if gen_cost(c) < 1.0]
    sh = [[c] for c in heavy]
    # light cases: greedy bins of about 6 CPU seconds
    cur, w = [], 0.0
    for c in light:
        cur.append(c)
        w += gen_cost(c)
        if w >= 6.0:
            sh.append(cur)
            cur, w = [], 0.0
    if cur:
        sh.append(cur)
    return sh


def gen_worker(cases):
    install_seams()
    acc = Acc()
    for case in cases:
        res = check_gen(case, acc)
        acc.count("evaluations")
        acc.count("gen_cases")
        tk = "inject " + case["inject"] if case.get("inject") else "prefix" if case.get("prefix") else "stream"
        if case["kind"] == "ecc":
            tk = case["label"].split("/")[-1] if case.get("prefix") else "stream"
        acc.seen("classes", ("gen", case["kind"], case.get("bits", case.get("curve")), case.get("e"),
                             str(case.get("domain")), tk, res))
        acc.count("gen_key" if res == "key" else "gen_refused" if res == "ValueError" else "gen_other")
        acc.count("gen_%s_%s" % (case["kind"], "key" if res == "key" else "other"))
    acc.sample({"part": "gen", "last_case": {k: short(v) for k, v in case.items()}, "outcome": res})
    return acc
