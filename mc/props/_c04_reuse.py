"""C04 part 4: ONE signature object, every history of sign()/verify() calls on it (SeqExplorer shape).

A scheme object (pkcs1_15 / pss / DSS / eddsa .new(key, ...)) is documented as reusable: each sign() and verify() depends
on its arguments only.  For every scheme configuration below, every history of up to `depth` calls taken from a small
alphabet -- sign(message hashed with algorithm i), verify(authentic signature i under hash i), verify(signature i under
hash j) -- is executed on one object, and after every call the outcome is compared with the outcome of the same call on
a FRESH object (whose behaviour against the reference models is established by the other parts of this check).  The
hash algorithms / message lengths in the alphabet differ on purpose: anything the object remembers from an earlier call
(a cached mask function, digest size, context, nonce) shows as a difference.

Randomised schemes get a stateless entropy source (the same octets at every request), so they are deterministic too.

Depth: quick 3; thorough 5 for the scheme objects of DEPTH5 (the cheapest calls of each family: 66429 histories each), 4 for the
others (7380 histories each).  The thorough tier also adds scheme objects: RSA-2048 and a generated 1029-bit key, PSS with the
longest salt, every DSA domain and NIST curve in four (mode, encoding) combinations, EdDSA with a 255-octet context.
"""
import itertools

from ..common import Acc, short
from . import _c04_base as B
from . import _c04_rsa as RSA
from . import _c04_dss as DSS
from . import _c04_eddsa as ED

MSG = (b"reuse-history message one", b"m2", b"the third message, a little longer than the others: " + bytes(range(64)))


def _const_rand(n):
    return (b"\x55\xaa\x33\xcc\x0f\xf0\x5a\xa5" * (n // 8 + 1))[:n]


# scheme name -> (factory() -> object, alphabet of hash names or message indexes, make_input(sym) -> hash object | bytes)
def schemes(quick):
    out = {}
    rk = RSA._KEYS["rsa1024e65537"]
    rk2 = RSA._KEYS["rsa1025e65537"]
    hs = ("sha256", "sha1", "sha384")

    def hin(h):
        return lambda i: B.libhash(h[i], MSG[i])
    from Crypto.Signature import pkcs1_15, pss, DSS as LDSS, eddsa
    out["pkcs1_15/rsa1024"] = (lambda: pkcs1_15.new(RSA.libkey(rk)), hin(hs))
    out["pss-default/rsa1024"] = (lambda: pss.new(RSA.libkey(rk), rand_func=_const_rand), hin(hs))
    out["pss-salt0/rsa1025"] = (lambda: pss.new(RSA.libkey(rk2), salt_bytes=0), hin(("sha512", "sha224", "sha3_256")))

    def mgf_sha1(x, y):
        return pss.MGF1(x, y, B.libhash("sha1"))
    out["pss-mgf1sha1/rsa1024"] = (lambda: pss.new(RSA.libkey(rk), mask_func=mgf_sha1, rand_func=_const_rand), hin(hs))
    if not quick:
        # thorough tier: more moduli (2048 bits; 1029 bits = a generated key with 8k+5 bits), PSS with the longest salt
        rk3 = RSA._KEYS["rsa2048e65537"]
        rk4 = RSA._KEYS["rsa1029e65537"]
        out["pkcs1_15/rsa2048"] = (lambda: pkcs1_15.new(RSA.libkey(rk3)), hin(("sha512", "md5", "sha3_384")))
        out["pss-default/rsa2048"] = (lambda: pss.new(RSA.libkey(rk3), rand_func=_const_rand), hin(("sha512", "sha1", "sha3_224")))
        out["pkcs1_15/rsa1029"] = (lambda: pkcs1_15.new(RSA.libkey(rk4)), hin(hs))
        out["pss-salt63/rsa1029"] = (lambda: pss.new(RSA.libkey(rk4), salt_bytes=63, rand_func=_const_rand),
                                     hin(("sha512", "sha224", "sha3_256")))
    for kn in ("p256", "dsa1024_160") if quick else ("p256", "p521", "p224", "dsa1024_160", "dsa2048_256",
                                                     "p192", "p384", "dsa2048_224", "dsa3072_256"):
        kd = DSS._KEYS[kn]
        dh = ("sha256", "sha512", "sha224")
        out["dss-rfc6979/" + kn] = (lambda kd=kd: LDSS.new(DSS.libkey(kd), "deterministic-rfc6979"), hin(dh))
        out["dss-rfc6979-der/" + kn] = (lambda kd=kd: LDSS.new(DSS.libkey(kd), "deterministic-rfc6979", "der"), hin(dh))
        out["dss-fips/" + kn] = (lambda kd=kd: LDSS.new(DSS.libkey(kd), "fips-186-3", randfunc=_const_rand), hin(dh))
        if not quick:
            out["dss-fips-der/" + kn] = (lambda kd=kd: LDSS.new(DSS.libkey(kd), "fips-186-3", "der", randfunc=_const_rand), hin(dh))
    for cv in ("ed25519", "ed448"):
        kd = ED._KEYS[cv]
        out["eddsa-pure/" + cv] = (lambda kd=kd: eddsa.new(ED.libpriv(kd), "rfc8032"), lambda i: MSG[i])
        out["eddsa-ctx/" + cv] = (lambda kd=kd: eddsa.new(ED.libpriv(kd), "rfc8032", context=b"ctx"),
                                  lambda i, cv=cv: ED.lib_input(cv, i != 1, MSG[i]))   # prehash, pure, prehash
        out["eddsa-prehash/" + cv] = (lambda kd=kd: eddsa.new(ED.libpriv(kd), "rfc8032"),
                                      lambda i, cv=cv: ED.lib_input(cv, True, MSG[i]))
        if not quick:
            out["eddsa-ctx255/" + cv] = (lambda kd=kd: eddsa.new(ED.libpriv(kd), "rfc8032", context=bytes(range(255))),
                                         lambda i, cv=cv: ED.lib_input(cv, i == 1, MSG[i]))   # pure, prehash, pure
    return out


# thorough tier: scheme objects whose histories are explored one call deeper (the cheapest calls of each family)
DEPTH5 = ("pkcs1_15/rsa1024", "pss-default/rsa1024", "pss-salt0/rsa1025", "pss-mgf1sha1/rsa1024",
          "dss-rfc6979/dsa1024_160", "dss-rfc6979-der/dsa1024_160", "dss-fips/dsa1024_160", "dss-fips-der/dsa1024_160",
          "eddsa-pure/ed25519")


def depth_of(name, quick):
    return 3 if quick else 5 if name in DEPTH5 else 4


def expected_histories(quick):
    """number of histories the plan contains: per scheme every non-empty sequence of up to depth calls"""
    return sum(sum(len(ALPHABET) ** d for d in range(1, depth_of(name, quick) + 1)) for name in schemes(quick))


# alphabet: ("sign", i) | ("verify", i, j): verify signature i with input j (authentic iff i == j)
ALPHABET = [("sign", i) for i in range(3)] + [("verify", i, i) for i in range(3)] + [("verify", 0, 1), ("verify", 1, 2), ("verify", 2, 0)]


def _call(obj, op, mk, sigs):
    if op[0] == "sign":
        out = B.lib_outcome(obj.sign, mk(op[1]))
    else:
        out = B.lib_outcome(obj.verify, mk(op[2]), sigs[op[1]])
    if out[0] == "accept":
        v = out[1]
        return ("ok", bytes(v) if isinstance(v, (bytes, bytearray)) else repr(v))
    return (out[0], None)


def fresh_table(factory, mk):
    """outcome of every alphabet entry on a fresh object; the signatures verify() is offered are the fresh ones"""
    sigs = {}
    for i in range(3):
        r = _call(factory(), ("sign", i), mk, sigs)
        sigs[i] = r[1] if r[0] == "ok" else b""
    return sigs, {op: _call(factory(), op, mk, sigs) for op in ALPHABET}


def opname(op):
    return "sign(input %d)" % op[1] if op[0] == "sign" else "verify(input %d, signature of input %d)" % (op[2], op[1])


def run_history(name, factory, mk, sigs, table, hist, acc):
    obj = factory()
    for n, op in enumerate(hist):
        got = _call(obj, op, mk, sigs)
        acc.count("evaluations")
        acc.count("reuse_calls")
        if got != table[op]:
            fam = name.split("/")[0]
            acc.violation("C04/reuse/%s/%s-depends-on-earlier-calls" % (fam, op[0]),
                          "%s: after %s on the same object, %s gives %s; a fresh object gives %s"
                          % (name, [opname(o) for o in hist[:n]], opname(op),
                             got[0] if got[1] is None else short(got[1]), table[op][0] if table[op][1] is None else short(table[op][1])),
                          {"part": "reuse", "scheme": name, "history": [list(o) for o in hist[:n + 1]]}, size=n + 1)
            return False
    return True


def worker(shards):
    acc = Acc()
    for name, quick, depth, first in shards:
        # `first` is one call (quick tier and depth-4 objects: every history that starts with it) or, for the objects explored to
        # depth 5, a prefix of one or two calls: (("sign", 0),) alone stands for that single-call history, a two-call prefix for
        # every history of 2..depth calls that starts with it
        prefix = (tuple(first),) if isinstance(first[0], str) else tuple(tuple(o) for o in first)
        factory, mk = schemes(quick)[name]
        sigs, table = fresh_table(factory, mk)
        # sanity of the alphabet itself: authentic verifies accept, crossed ones are refused
        for op in ALPHABET:
            if op[0] == "verify":
                want = "ok" if op[1] == op[2] else "ValueError"
                if table[op][0] != want:
                    acc.error("reuse alphabet of %s: fresh %s gives %s" % (name, opname(op), table[op][0]))
        nh = 0
        for d in range(len(prefix), depth + 1):
            for rest in itertools.product(ALPHABET, repeat=d - len(prefix)):
                hist = prefix + rest
                run_history(name, factory, mk, sigs, table, hist, acc)
                nh += 1
        acc.count("reuse_histories", nh)
        acc.seen("classes", ("reuse", name, prefix[0][0], depth))
        acc.seen("reuse_schemes", name)
        acc.seen("reuse_depths", (name, depth_of(name, quick)))
    return acc


# measured cost of one call (ms, mixed sign / verify); thorough tier only (balancing the shards)
CALL_MS = {"rsa1024": 0.6, "rsa1025": 0.5, "rsa1029": 0.5, "rsa2048": 1.4, "dsa1024_160": 0.45, "dsa2048_224": 1.0, "dsa2048_256": 1.2,
           "dsa3072_256": 1.8, "p192": 1.9, "p224": 1.7, "p256": 1.2, "p384": 2.4, "p521": 5.3, "ed25519": 1.3, "ed448": 3.8}


def plan(quick):
    out = []
    if quick:
        depth = 3
        for name in schemes(quick):
            slow = 4.0 if ("ed448" in name or "p521" in name or "dsa2048" in name) else 1.0
            for first in ALPHABET:
                out.append((0.002 * slow * sum(9 ** k for k in range(depth)) * depth, (name, quick, depth, first)))
        return out
    na = len(ALPHABET)
    for name in schemes(quick):
        depth = depth_of(name, quick)
        ms = CALL_MS[name.split("/")[1]] / 1000.0
        if depth <= 4:
            calls = sum(d * na ** (d - 1) for d in range(1, depth + 1))
            for first in ALPHABET:
                out.append((ms * calls, (name, quick, depth, first)))
        else:
            calls = sum(d * na ** (d - 2) for d in range(2, depth + 1))
            for first in ALPHABET:
                out.append((ms, (name, quick, 1, (first,))))
                for second in ALPHABET:
                    out.append((ms * calls, (name, quick, depth, (first, second))))
    return out


def replay(case, acc):
    name = case["scheme"]
    sc = schemes(False)
    factory, mk = sc[name]
    sigs, table = fresh_table(factory, mk)
    run_history(name, factory, mk, sigs, table, [tuple(o) for o in case["history"]], acc)
