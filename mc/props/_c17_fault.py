"""C17 part "fault": every allocation the library's native code makes is refused once, exhaustively.

The environment answer that native code cannot choose is whether an allocation succeeds.  The "fault" build
flavour (mc/native/vfcc) links every extension with ld --wrap so that malloc/calloc/posix_memalign calls of the
library's OWN native code go through mc/native/libvfault.so, which the explorer controls.  For every workload
(a short call history on fresh objects through the public Python API):

    warm-up run; counting run: N = number of allocations the workload makes, r0 = its result;
    for k = 1..N:   mode 1: allocation k alone is refused         (deviation bound 1: one refused allocation)
                    mode 2: allocation k and all later ones are refused (memory stays exhausted)
        run the workload again on fresh objects;
    finally one more undisturbed run.

Oracle (per execution): the process survives - no AddressSanitizer report (heap overflow, use after free,
double free on a clean-up path), no fatal signal (NULL dereference) - and the call either raises a Python
exception or returns exactly r0: an allocation failure that native code swallows and that surfaces as a
silently different result is reported as well (key .../silent-wrong-result).  The final undisturbed run must
return r0 again (a refused allocation must not damage shared state such as curve contexts).

Runs in child processes (one per batch of workloads, restarted after a death at the next fault point); the
parent learns the workload and fault point a child died in from a progress file.
"""
import json
import os
import shutil
import subprocess
import sys
import tempfile
import time

VERIF = os.path.dirname(os.path.dirname(os.path.dirname(os.path.abspath(__file__))))
SHIM = os.path.join(VERIF, "mc", "native", "libvfault.so")
MAX_DEATHS_PER_WORKLOAD = 12
MAX_ALLOCS = 6000              # a workload with more allocations than this is reported as a cap

K16 = bytes(range(16))
K24 = bytes(range(24))
K32 = bytes(range(32))
MSG = bytes((7 * i + 3) & 255 for i in range(200))


# ---------------------------------------------------------------------------------------------------
# workloads: name -> callable returning a comparable value (built lazily inside the child)
# ---------------------------------------------------------------------------------------------------
def _hash_workloads(W):
    import importlib
    plain = ["MD2", "MD4", "MD5", "RIPEMD160", "SHA1", "SHA224", "SHA256", "SHA384", "SHA512", "SHA3_224", "SHA3_256",
             "SHA3_384", "SHA3_512"]
    for n in plain:
        def w(n=n):
            m = importlib.import_module("Crypto.Hash." + n)
            h = m.new(MSG[:70])
            h2 = h.copy()
            h2.update(MSG[:130])
            return h.digest(), h2.digest(), m.new().digest()
        W["hash/" + n] = w

    def sha512t(t):
        def w():
            from Crypto.Hash import SHA512
            h = SHA512.new(MSG, truncate=t)
            return h.copy().digest(), h.new(MSG[:3]).digest()
        return w
    W["hash/SHA512-224"] = sha512t("224")
    W["hash/SHA512-256"] = sha512t("256")

    def keccak():
        from Crypto.Hash import keccak
        h = keccak.new(digest_bits=256, data=MSG)
        return h.digest(), keccak.new(digest_bits=512).update(MSG[:137]).digest()
    W["hash/keccak"] = keccak
    for n in ("SHAKE128", "SHAKE256"):
        def w(n=n):
            m = importlib.import_module("Crypto.Hash." + n)
            x = m.new(MSG[:170])
            a = x.read(10)
            y = x.copy() if hasattr(x, "copy") else None
            return a, x.read(200), (y.read(5) if y is not None else None)
        W["xof/" + n] = w
    for n in ("cSHAKE128", "cSHAKE256"):
        def w(n=n):
            m = importlib.import_module("Crypto.Hash." + n)
            return m.new(data=MSG[:50], custom=b"cust").read(70), m.new().read(3)
        W["xof/" + n] = w
    for n in ("TurboSHAKE128", "TurboSHAKE256"):
        def w(n=n):
            m = importlib.import_module("Crypto.Hash." + n)
            return m.new(data=MSG, domain=0x07).read(70)
        W["xof/" + n] = w

    def k12():
        from Crypto.Hash import KangarooTwelve
        big = MSG * 90                       # > 2 chunks of 8192
        return (KangarooTwelve.new(data=MSG, custom=b"c").read(40), KangarooTwelve.new(data=big).read(40))
    W["xof/KangarooTwelve"] = k12
    for n in ("KMAC128", "KMAC256"):
        def w(n=n):
            m = importlib.import_module("Crypto.Hash." + n)
            h = m.new(key=K32, data=MSG[:60], mac_len=32, custom=b"x")
            t = h.digest()
            m.new(key=K32, data=MSG[:60], mac_len=32, custom=b"x").verify(t)
            return t
        W["mac/" + n] = w
    for n in ("TupleHash128", "TupleHash256"):
        def w(n=n):
            m = importlib.import_module("Crypto.Hash." + n)
            h = m.new(digest_bytes=32, custom=b"t")
            h.update(MSG[:5], MSG[5:9])
            h.update(b"")
            return h.digest()
        W["xof/" + n] = w
    for n in ("BLAKE2b", "BLAKE2s"):
        def w(n=n):
            m = importlib.import_module("Crypto.Hash." + n)
            h = m.new(digest_bytes=20, key=K16, data=MSG)
            t = h.digest()
            m.new(digest_bytes=20, key=K16, data=MSG).verify(t)        # verify draws on a second keyed instance
            return t, m.new(digest_bits=160).update(MSG[:129]).digest()
        W["hash/" + n] = w

    def hmac():
        from Crypto.Hash import HMAC, SHA256, SHA3_256, MD5
        out = []
        for d in (SHA256, SHA3_256, MD5):
            h = HMAC.new(K32 * 5, MSG, digestmod=d)
            c = h.copy()
            c.update(b"more")
            out.append((h.digest(), c.digest()))
            HMAC.new(K32 * 5, MSG, digestmod=d).verify(out[-1][0])
        return out
    W["mac/HMAC"] = hmac

    def cmac():
        from Crypto.Hash import CMAC
        from Crypto.Cipher import AES, DES3
        a = CMAC.new(K16, MSG[:33], ciphermod=AES)
        b = a.copy()
        b.update(MSG[:15])
        d = CMAC.new(K24, MSG[:16], ciphermod=DES3)
        t = a.digest()
        CMAC.new(K16, MSG[:33], ciphermod=AES).verify(t)
        return t, b.digest(), d.digest()
    W["mac/CMAC"] = cmac

    def poly():
        from Crypto.Hash import Poly1305
        from Crypto.Cipher import AES, ChaCha20
        a = Poly1305.new(key=K32, cipher=AES, nonce=K16, data=MSG[:33])
        b = Poly1305.new(key=K32, cipher=ChaCha20, nonce=K16[:12], data=MSG[:70])
        t = a.digest()
        Poly1305.new(key=K32, cipher=AES, nonce=K16, data=MSG[:33]).verify(t)
        return t, b.digest()
    W["mac/Poly1305"] = poly


def _cipher_workloads(W):
    import importlib
    KL = {"AES": 16, "DES": 8, "DES3": 24, "Blowfish": 16, "CAST": 16, "ARC2": 16}
    key3 = bytes(range(1, 25))
    for cn, kl in KL.items():
        modes = ["ECB", "CBC", "CFB", "OFB", "CTR", "OPENPGP", "EAX"]
        if cn == "AES":
            modes += ["CCM", "GCM", "SIV", "OCB", "KW", "KWP"]
        for mn in modes:
            variants = [{}]
            if cn == "AES":
                variants.append({"use_aesni": False})
            if mn == "GCM":
                variants.append({"use_clmul": False})
            if mn == "CFB":
                variants.append({"segment_size": 16})
            for extra in variants:
                def w(cn=cn, mn=mn, kl=kl, extra=extra):
                    m = importlib.import_module("Crypto.Cipher." + cn)
                    bs = m.block_size
                    key = key3 if cn == "DES3" else (K32 if mn == "SIV" else K32[:kl])
                    mode = getattr(m, "MODE_" + mn)
                    kw = dict(extra)
                    if mn in ("CBC", "CFB", "OFB", "OPENPGP"):
                        kw["iv"] = K16[:bs]
                    elif mn == "CTR":
                        kw["nonce"] = K16[:bs // 2]
                    elif mn in ("EAX", "GCM", "SIV"):
                        kw["nonce"] = K16
                    elif mn == "CCM":
                        kw["nonce"] = K16[:11]
                    elif mn == "OCB":
                        kw["nonce"] = K16[:15]
                    aead = mn in ("EAX", "CCM", "GCM", "SIV", "OCB")
                    pt = MSG[:5 * bs] if mn in ("ECB", "CBC", "KW") else MSG[:5 * bs + 3]
                    e = m.new(key, mode, **kw)
                    if mn in ("KW", "KWP"):
                        ct = e.seal(pt)
                        back = m.new(key, mode, **kw).unseal(ct)
                        return ct, back
                    if aead:
                        e.update(MSG[:21])
                        ct, tag = e.encrypt_and_digest(pt)
                        d = m.new(key, mode, **kw)
                        d.update(MSG[:21])
                        back = d.decrypt_and_verify(ct, tag)
                        return ct, tag, back
                    ct = e.encrypt(pt[:bs * 2]) + e.encrypt(pt[bs * 2:])
                    if mn == "OPENPGP":
                        kw["iv"] = ct[:bs + 2]
                        back = m.new(key, mode, **kw).decrypt(ct[bs + 2:])
                    else:
                        back = m.new(key, mode, **kw).decrypt(ct)
                    return ct, back
                name = "cipher/%s-%s%s" % (cn, mn, "".join("/%s=%s" % kv for kv in sorted(extra.items())))
                W[name] = w

    def arc4():
        from Crypto.Cipher import ARC4
        c = ARC4.new(K16, drop=7)
        return c.encrypt(MSG), ARC4.new(K16, drop=7).decrypt(MSG[:9])
    W["stream/ARC4"] = arc4

    def salsa():
        from Crypto.Cipher import Salsa20
        return Salsa20.new(K32, nonce=K16[:8]).encrypt(MSG), Salsa20.new(K16, nonce=K16[:8]).decrypt(MSG[:65])
    W["stream/Salsa20"] = salsa
    for nl in (8, 12, 24):
        def w(nl=nl):
            from Crypto.Cipher import ChaCha20
            c = ChaCha20.new(key=K32, nonce=K32[:nl])
            a = c.encrypt(MSG[:70])
            c.seek(129)
            return a, c.encrypt(MSG[:70]), ChaCha20.new(key=K32, nonce=K32[:nl]).decrypt(a)
        W["stream/ChaCha20-n%d" % nl] = w
    for nl in (8, 12, 24):
        def w(nl=nl):
            from Crypto.Cipher import ChaCha20_Poly1305
            e = ChaCha20_Poly1305.new(key=K32, nonce=K32[:nl])
            e.update(MSG[:13])
            ct, tag = e.encrypt_and_digest(MSG[:99])
            d = ChaCha20_Poly1305.new(key=K32, nonce=K32[:nl])
            d.update(MSG[:13])
            return ct, tag, d.decrypt_and_verify(ct, tag)
        W["aead/ChaCha20_Poly1305-n%d" % nl] = w


def _kdf_workloads(W):
    def scr():
        from Crypto.Protocol.KDF import scrypt
        return scrypt(b"pw", b"salt", 24, N=8, r=2, p=2), scrypt(b"pw", b"salt", 16, N=4, r=1, p=1, num_keys=2)
    W["kdf/scrypt"] = scr

    def bc():
        from Crypto.Protocol.KDF import bcrypt, bcrypt_check
        h = bcrypt(b"password", 4, salt=K16)
        bcrypt_check(b"password", h)
        return h
    W["kdf/bcrypt"] = bc

    def pb():
        from Crypto.Protocol.KDF import PBKDF2, PBKDF1, HKDF, SP800_108_Counter
        from Crypto.Hash import SHA256, SHA1, SHA3_256, HMAC
        prf = lambda k, s: HMAC.new(k, s, SHA256).digest()          # noqa
        return (PBKDF2(b"pw", b"salt" * 2, 40, count=3, hmac_hash_module=SHA256),
                PBKDF2(b"pw", b"salt" * 2, 40, count=3, hmac_hash_module=SHA3_256),
                PBKDF1(b"pw", b"saltsalt", 16, 5, SHA1), HKDF(K32, 48, b"salt", SHA256, num_keys=2, context=b"c"),
                SP800_108_Counter(K16, 40, prf, label=b"l", context=b"c"))
    W["kdf/pbkdf-hkdf-sp800108"] = pb

    def strx():
        from Crypto.Util.strxor import strxor, strxor_c
        return strxor(MSG[:33], MSG[33:66]), strxor_c(MSG[:33], 5)
    W["util/strxor"] = strx


def _pk_workloads(W):
    def rsa_key():
        from .. import keys
        return keys.rsa_key(1024)

    def v15():
        from Crypto.Cipher import PKCS1_v1_5
        k = rsa_key()
        em = b"\x00\x02" + b"\x55" * (128 - 3 - 20) + b"\x00" + MSG[:20]
        ct = pow(int.from_bytes(em, "big"), k.e, k.n).to_bytes(128, "big")
        bad = pow(int.from_bytes(b"\x00\x03" + em[2:], "big"), k.e, k.n).to_bytes(128, "big")
        c = PKCS1_v1_5.new(k)
        return c.decrypt(ct, b"sentinel"), c.decrypt(bad, b"sentinel"), c.decrypt(ct, b"s" * 7, expected_pt_len=20)
    W["pk/PKCS1_v1_5-decrypt"] = v15

    def oaep():
        from Crypto.Cipher import PKCS1_OAEP
        from Crypto.Hash import SHA256
        from ..keys import Stream
        k = rsa_key()
        ct = PKCS1_OAEP.new(k, hashAlgo=SHA256, label=b"L", randfunc=Stream("oaep")).encrypt(MSG[:30])
        return ct, PKCS1_OAEP.new(k, hashAlgo=SHA256, label=b"L").decrypt(ct)
    W["pk/OAEP"] = oaep

    def sig():
        from Crypto.Signature import pkcs1_15, pss
        from Crypto.Hash import SHA256
        from ..keys import Stream
        k = rsa_key()
        h = SHA256.new(MSG)
        s1 = pkcs1_15.new(k).sign(h)
        pkcs1_15.new(k.public_key()).verify(h, s1)
        s2 = pss.new(k, rand_func=Stream("pss")).sign(h)
        pss.new(k.public_key()).verify(h, s2)
        return s1, s2
    W["pk/RSA-signatures"] = sig

    def custom():
        from Crypto.Math._IntegerCustom import IntegerCustom as I
        m = (1 << 521) - 1
        a = I(0x1234567890ABCDEF << 300)
        r1 = int(pow(a, 65537, m))
        r2 = int(pow(I(3), I((1 << 200) + 7), I((1 << 255) - 19)))
        r3 = I._mult_modulo_bytes(I(12345678901234567890), I(98765432109876543210), I((1 << 127) - 1))
        return r1, r2, r3
    W["math/IntegerCustom-modexp"] = custom

    def dsa():
        from Crypto.Signature import DSS
        from Crypto.Hash import SHA256
        from .. import keys
        k = keys.dsa_key(1024)
        h = SHA256.new(MSG)
        s = DSS.new(k, "deterministic-rfc6979").sign(h)
        DSS.new(k.public_key(), "fips-186-3").verify(h, s)
        return s
    W["pk/DSA-rfc6979"] = dsa


WCURVES = ("p192", "p224", "p256", "p384", "p521")


def _ec_workloads(W):
    ctor = {"p192": ("_nist_ecc", "p192_curve"), "p224": ("_nist_ecc", "p224_curve"), "p256": ("_nist_ecc", "p256_curve"),
            "p384": ("_nist_ecc", "p384_curve"), "p521": ("_nist_ecc", "p521_curve"), "ed25519": ("_edwards", "ed25519_curve"),
            "ed448": ("_edwards", "ed448_curve"), "curve25519": ("_montgomery", "curve25519_curve"),
            "curve448": ("_montgomery", "curve448_curve")}
    for cv, (mod, fn) in ctor.items():
        def w(mod=mod, fn=fn):
            import importlib
            c = getattr(importlib.import_module("Crypto.PublicKey." + mod), fn)()      # a NEW curve context every time
            return int(c.p), int(c.order), int(c.Gx), c.context is not None
        W["ec/new-context-%s" % cv] = w
    for cv in WCURVES + ("ed25519", "ed448"):
        def arith(cv=cv):
            from Crypto.PublicKey import ECC
            from Crypto.PublicKey.ECC import EccPoint
            G = ECC._curves[cv].G
            x, y = G.xy
            P = EccPoint(x, y, cv)
            Q = P * 0xABCDEF0123456789ABCDEF
            R = G * ((1 << 100) + 12345)           # fixed-base path on the NIST curves
            S = Q + R
            D = S.copy()
            D.double()
            N = -D
            z = P * 0
            return (tuple(map(int, Q.xy)), tuple(map(int, R.xy)), tuple(map(int, S.xy)), tuple(map(int, D.xy)), tuple(map(int, N.xy)),
                    Q == R, S == (R + Q), z.is_point_at_infinity(), tuple(map(int, (D + N).xy)), Q.size_in_bytes())
        W["ec/arith-%s" % cv] = arith

        def inplace(cv=cv):
            from Crypto.PublicKey import ECC
            G = ECC._curves[cv].G
            P = G.copy()
            P *= 77
            P += G
            Q = G.copy()
            Q.set(P)
            return tuple(map(int, P.xy)), tuple(map(int, Q.xy)), P == Q
        W["ec/inplace-%s" % cv] = inplace
    for cv in WCURVES:
        def ecdsa(cv=cv):
            from Crypto.PublicKey import ECC
            from Crypto.Signature import DSS
            from Crypto.Hash import SHA256
            k = ECC.construct(curve=cv, d=0x1122334455667788990011223344556677)
            h = SHA256.new(MSG)
            s = DSS.new(k, "deterministic-rfc6979").sign(h)
            DSS.new(k.public_key(), "fips-186-3").verify(h, s)
            return s, k.public_key().export_key(format="SEC1", compress=True)
        W["ec/ecdsa-%s" % cv] = ecdsa

        def imp(cv=cv):
            from Crypto.PublicKey import ECC
            k = ECC.construct(curve=cv, d=0x99887766554433221100)
            sec = k.public_key().export_key(format="SEC1", compress=True)
            k2 = ECC.import_key(sec, curve_name=cv)                # square root in the field
            der = k.export_key(format="DER")
            return sec, k2 == k.public_key(), ECC.import_key(der) == k
        W["ec/import-%s" % cv] = imp
    for cv, sl in (("ed25519", 32), ("ed448", 57)):
        def eddsa(cv=cv, sl=sl):
            from Crypto.PublicKey import ECC
            from Crypto.Signature import eddsa
            k = ECC.construct(curve=cv, seed=K32[:sl] if sl <= 32 else (K32 + K32)[:sl])
            s = eddsa.new(k, "rfc8032").sign(MSG)
            pub = eddsa.import_public_key(k.public_key().export_key(format="raw"))
            eddsa.new(pub, "rfc8032").verify(MSG, s)
            return s
        W["ec/eddsa-%s" % cv] = eddsa
    for cv, sl in (("curve25519", 32), ("curve448", 56)):
        def xdh(cv=cv, sl=sl):
            from Crypto.PublicKey import ECC
            from Crypto.Protocol.DH import key_agreement
            a = ECC.construct(curve=cv, seed=(K32 + K32)[:sl])
            b = ECC.construct(curve=cv, seed=(K32 + K32)[1:sl + 1])
            kdf = lambda x: x           # noqa
            s1 = key_agreement(static_priv=a, static_pub=b.public_key(), kdf=kdf)
            s2 = key_agreement(static_priv=b, static_pub=a.public_key(), kdf=kdf)
            P = a.pointQ * 5
            return s1, s2, int(P.x), a.pointQ == b.pointQ, a.public_key().export_key(format="raw")
        W["ec/xdh-%s" % cv] = xdh

    def ecdh():
        from Crypto.PublicKey import ECC
        from Crypto.Protocol.DH import key_agreement
        a = ECC.construct(curve="p256", d=12345678901234567890)
        b = ECC.construct(curve="p256", d=98765432109876543210)
        kdf = lambda x: x           # noqa
        return (key_agreement(static_priv=a, static_pub=b.public_key(), kdf=kdf),
                key_agreement(static_priv=b, static_pub=a.public_key(), kdf=kdf))
    W["ec/ecdh-p256"] = ecdh


_W = {}


def workloads():
    if not _W:
        _hash_workloads(_W)
        _cipher_workloads(_W)
        _kdf_workloads(_W)
        _pk_workloads(_W)
        _ec_workloads(_W)
    return _W


def workload_names():
    """pure data (no Crypto import needed): the parent uses the same list as the children"""
    return sorted(workloads())


# ---------------------------------------------------------------------------------------------------
# child
# ---------------------------------------------------------------------------------------------------
def child_main(jobfile):
    import ctypes
    job = json.load(open(jobfile))
    vf = ctypes.CDLL(SHIM)
    vf.vf_arm.argtypes = [ctypes.c_long, ctypes.c_int]
    vf.vf_arm.restype = None
    vf.vf_disarm.restype = ctypes.c_long
    vf.vf_failed.restype = ctypes.c_long
    W = workloads()
    pfd = os.open(job["progress"], os.O_WRONLY | os.O_CREAT, 0o644)
    res = {"workloads": {}, "findings": [], "harness": []}
    only = job.get("only")                     # replay: [k, mode]
    if only and list(only) == [0, 0]:
        only = None                            # the finding concerns the run after the whole series
    resume = job.get("resume")                 # [name, mode, k]: continue after a death

    def save():
        with open(job["result"] + ".tmp", "w") as fh:
            json.dump(res, fh)
        os.replace(job["result"] + ".tmp", job["result"])

    def run(fn):
        try:
            return ("ok", fn())
        except MemoryError:
            return ("exc", "MemoryError")
        except Exception as e:  # noqa
            return ("exc", type(e).__name__ + ":" + str(e)[:60])

    for name in job["names"]:
        fn = W[name]
        os.pwrite(pfd, b"%-60s %6d %d\n" % (name.encode(), 0, 0), 0)
        st = {"allocs": 0, "executions": 0, "raised": 0, "same_result": 0, "exc_kinds": {}, "refused_total": 0}
        first = run(fn)                        # warm-up (lazy imports, lazily created shared objects)
        vf.vf_arm(0, 3)
        ref = run(fn)
        n = vf.vf_disarm()
        vf.vf_arm(0, 3)
        ref2 = run(fn)
        n2 = vf.vf_disarm()
        if ref[0] != "ok" or ref2 != ref or n2 != n:
            res["harness"].append("workload %s is not usable: undisturbed runs gave %r/%r with %d/%d allocations"
                                  % (name, ref[:1] + (str(ref[1])[:80],), ref2[:1], n, n2))
            continue
        st["allocs"] = n
        if n > MAX_ALLOCS:
            res["harness"].append("workload %s makes %d allocations (> %d)" % (name, n, MAX_ALLOCS))
            continue
        for mode in (1, 2):
            for k in range(1, n + 1):
                if only and [k, mode] != list(only):
                    continue
                if resume and resume[0] == name and (mode, k) <= (resume[1], resume[2]):
                    continue
                os.pwrite(pfd, b"%-60s %6d %d\n" % (name.encode(), k, mode), 0)
                vf.vf_arm(k, mode)
                try:
                    out = run(fn)
                finally:
                    vf.vf_disarm()
                refused = vf.vf_failed()
                st["executions"] += 1
                st["refused_total"] += refused
                if refused < 1:
                    res["harness"].append("workload %s: allocation %d (mode %d) was never requested - not deterministic" % (name, k, mode))
                if out[0] == "exc":
                    st["raised"] += 1
                    kind = out[1].split(":")[0]
                    st["exc_kinds"][kind] = st["exc_kinds"].get(kind, 0) + 1
                elif out == ref:
                    st["same_result"] += 1
                else:
                    res["findings"].append({"kind": "silent-wrong-result", "workload": name, "k": k, "mode": mode,
                                            "detail": "result %.120r differs from the undisturbed result %.120r" % (out[1], ref[1])})
        os.pwrite(pfd, b"%-60s %6d %d\n" % (name.encode(), 0, 9), 0)
        after = run(fn)
        if after != ref and not only:
            res["findings"].append({"kind": "damaged-after-faults", "workload": name, "k": 0, "mode": 0,
                                    "detail": "an undisturbed run after the fault series gives %.150r instead of %.100r" % (after, ref[1])})
        res["workloads"][name] = st
        save()
    os.pwrite(pfd, b"%-60s %6d %d\n" % (b"done", 0, 0), 0)
    os.close(pfd)
    res["complete"] = True
    save()


# ---------------------------------------------------------------------------------------------------
# parent
# ---------------------------------------------------------------------------------------------------
def _run_child(tree, workdir, job, wall_limit, c17):
    for f in os.listdir(workdir):
        os.unlink(os.path.join(workdir, f))
    job = dict(job, progress=os.path.join(workdir, "progress"), result=os.path.join(workdir, "result.json"))
    jf = os.path.join(workdir, "job.json")
    with open(jf, "w") as fh:
        json.dump(job, fh)
    env = dict(os.environ)
    env["LD_PRELOAD"] = c17.asan_runtime() + " " + SHIM
    env["PYTHONMALLOC"] = "malloc"
    env["ASAN_OPTIONS"] = c17.ASAN_BASE + ":log_path=" + os.path.join(workdir, "asan")
    env["PYTHONPATH"] = os.path.join(tree, "lib") + os.pathsep + VERIF
    with open(os.path.join(workdir, "out"), "w") as of:
        try:
            r = subprocess.run([sys.executable, "-m", "mc.props._c17_fault", jf], cwd=VERIF, env=env,
                               stdin=subprocess.DEVNULL, stdout=of, stderr=subprocess.STDOUT, timeout=wall_limit)
            rc = r.returncode
        except subprocess.TimeoutExpired:
            rc = None
    try:
        with open(job["result"]) as fh:
            res = json.load(fh)
    except Exception:  # noqa
        res = None
    return rc, res


def _progress(workdir):
    try:
        t = open(os.path.join(workdir, "progress")).read().split()
        return t[0], int(t[1]), int(t[2])
    except Exception:  # noqa
        return None, 0, 0


def _merge(acc, res):
    for name, st in res["workloads"].items():
        if (name,) in acc.distinct.get("fault_workloads", ()):
            continue
        acc.seen("fault_workloads", (name,))
        acc.count("fault_executions", st["executions"])
        acc.count("fault_allocation_sites_visited", st["allocs"])
        acc.count("fault_raised", st["raised"])
        acc.count("fault_same_result", st["same_result"])
        acc.seen("fault_allocs", (name, st["allocs"]))
        for k in st["exc_kinds"]:
            acc.seen("fault_exc_kinds", k)
    for h in res["harness"]:
        acc.error("fault part: " + h)
    for f in res["findings"]:
        key = "C17/fault/%s/%s" % (f["kind"], f["workload"])
        acc.violation(key, "workload %s, allocation %d refused (mode %d: %s): %s"
                      % (f["workload"], f["k"], f["mode"], MODES.get(f["mode"], "-"), f["detail"]),
                      {"fault": {"workload": f["workload"], "k": f["k"], "mode": f["mode"]}}, size=f["k"] * 2 + f["mode"])


MODES = {1: "this allocation only", 2: "this and every later allocation"}


def fault_worker(task):
    """one pool task = a batch of workloads in one child, restarted after each death at the next fault point"""
    from ..common import Acc
    from . import c17
    if isinstance(task, list):                 # pmap hands over a shard = list of tasks
        acc = Acc()
        for t in task:
            acc.merge(fault_worker(t))
        return acc
    tree, names = task
    acc = Acc()
    workdir = tempfile.mkdtemp(prefix="c17f", dir=tree)
    try:
        resume = None
        deaths = {}
        todo = list(names)
        while todo:
            rc, res = _run_child(tree, workdir, {"names": todo, "resume": resume}, 3600, c17)
            if res is not None:
                _merge(acc, res)
            if res is not None and res.get("complete"):
                if rc != 0:
                    acc.error("fault child wrote a complete result but exited with %r" % rc)
                break
            name, k, mode = _progress(workdir)
            if name is None or name not in todo:
                acc.error("fault child died without usable progress information (rc=%r, progress=%r): %s"
                          % (rc, name, c17.tail(workdir)))
                break
            kind, site, detail = c17.diagnose(workdir, rc)
            acc.count("fault_child_deaths")
            if kind in ("hang", "child-timeout"):
                acc.observe("fault part: %s in workload %s at allocation %d mode %d" % (kind, name, k, mode))
            else:
                key = "C17/fault/%s/%s" % (site, kind) if site != "?" else "C17/fault/?/%s/%s" % (kind, name)
                what = ("workload %s, allocation %d refused (mode %d: %s): %s" % (name, k, mode, MODES.get(mode, "-"), detail)
                        if mode in (1, 2) else "workload %s, undisturbed run (phase %d): %s" % (name, mode, detail))
                acc.violation(key, what, {"fault": {"workload": name, "k": k, "mode": mode}}, size=k * 2 + mode)
            deaths[name] = deaths.get(name, 0) + 1
            todo = todo[todo.index(name):]
            if mode not in (1, 2) or deaths[name] >= MAX_DEATHS_PER_WORKLOAD:
                if deaths[name] >= MAX_DEATHS_PER_WORKLOAD:
                    acc.cap("fault part: workload %s: %d child deaths, remaining fault points not executed" % (name, deaths[name]))
                acc.seen("fault_workloads", (name,))
                todo = todo[1:]
                resume = None
            else:
                resume = [name, mode, k]
    finally:
        shutil.rmtree(workdir, ignore_errors=True)
    return acc


def replay(case, acc, tree):
    from . import c17
    f = case["fault"]
    workdir = tempfile.mkdtemp(prefix="c17fr", dir=tree)
    try:
        rc, res = _run_child(tree, workdir, {"names": [f["workload"]], "only": [f["k"], f["mode"]]}, 900, c17)
        if res is not None and res.get("complete"):
            _merge(acc, res)
            return
        name, k, mode = _progress(workdir)
        if name != f["workload"]:
            acc.error("fault replay child died before the workload started (rc=%r): %s" % (rc, c17.tail(workdir)))
            return
        kind, site, detail = c17.diagnose(workdir, rc)
        key = "C17/fault/%s/%s" % (site, kind) if site != "?" else "C17/fault/?/%s/%s" % (kind, name)
        acc.violation(key, "workload %s, allocation %d refused (mode %d): %s" % (name, k, mode, detail), case)
    finally:
        shutil.rmtree(workdir, ignore_errors=True)


if __name__ == "__main__":
    child_main(sys.argv[1])
