"""Shared plumbing of the C05 driver: deterministic entropy seam for the library's probabilistic
primality test, CPU-time hang guard, small helpers."""
import hashlib
import signal

from ..common import SEED
from ..ref import nt

# ---------------------------------------------------------------------------
# seams: deterministic bases for the library's probabilistic primality test, hang guard
# ---------------------------------------------------------------------------


class _DetRandom:
    """Stand-in for the module Crypto.Random as seen by Crypto.Math.Primality and
    Crypto.Math._IntegerBase: Miller-Rabin bases in construct()/import_key() are drawn from it.
    The stream is a function of the label set by reset() (the case), so every case replays."""
    def __init__(self):
        self.reads = 0
        self.reset(b"")

    def reset(self, label):
        self.label = label
        self.ctr = 0

    def new(self, *a, **kw):
        return self

    def read(self, n):
        self.reads += 1
        out = b""
        while len(out) < n:
            out += hashlib.sha512(b"c05|%d|%d|" % (SEED, self.ctr) + self.label).digest()
            self.ctr += 1
        return out[:n]

    get_random_bytes = read


_DET = _DetRandom()
_SEAM = None


def install_seams():
    global _SEAM
    if _SEAM is not None:
        return _SEAM
    from Crypto.Math import Primality, _IntegerBase
    if not hasattr(Primality, "Random") or not hasattr(_IntegerBase, "Random"):
        _SEAM = False
        return False
    Primality.Random = _DET
    _IntegerBase.Random = _DET
    before = _DET.reads
    _DET.reset(b"probe")
    r = Primality.test_probable_prime(10007 * 10009)
    _SEAM = (_DET.reads > before and r == Primality.COMPOSITE)
    signal.signal(signal.SIGVTALRM, _on_alarm)
    import sys
    old = sys.unraisablehook

    def hook(u):
        if u.exc_type is not Hang:      # a Hang that lands inside a __del__ is retried by the repeating timer
            old(u)
    sys.unraisablehook = hook
    return _SEAM


class Hang(BaseException):
    pass


def _on_alarm(sig, frm):
    raise Hang()


CPU_BUDGET = 0.10      # seconds of process CPU time for one small-scope call (typical: 50 microseconds)


def guarded(fn, budget=CPU_BUDGET):
    """-> ('ok', value) | ('exc', exception) | ('hang', None).  ITIMER_VIRTUAL counts CPU time of this
    process only, so the verdict does not depend on the load of the machine."""
    # repeating timer: an exception raised while a __del__ method runs is swallowed by the interpreter
    signal.setitimer(signal.ITIMER_VIRTUAL, budget, 0.01)
    try:
        try:
            r = ("ok", fn())
        finally:
            signal.setitimer(signal.ITIMER_VIRTUAL, 0)
        return r
    except Hang:
        return ("hang", None)
    except Exception as ex:  # noqa
        return ("exc", ex)


_PRIMES = frozenset(nt.sieve(6000))


def isp(v):
    if v < 6000:
        return v in _PRIMES
    return nt.is_prime(v)


def uniq(seq):
    out = []
    for v in seq:
        if v not in out:
            out.append(v)
    return out


def tsize(tup):
    return sum(abs(int(v)).bit_length() + 1 for v in tup)


