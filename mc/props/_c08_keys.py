"""C08 helper: the key set.

Key descriptors ("kd") are plain JSON-able dicts holding every component, so that a replay
file is self-contained:

  RSA      {"t":"RSA", "name", "n","e","d","p","q"}                    u = p^-1 mod q is derived
  DSA      {"t":"DSA", "name", "p","q","g","y","x"}
  ECC      {"t":"ECC", "name", "curve", "d" | "seed", "Q": [x, y|None]}  Q computed by mc.ref.ec
  ElGamal  {"t":"ElGamal", "name", "p","g","y","x"}

Fixtures come from /verif/data/keys.json; the other keys are found by deterministic search
(simplest candidate first) for encodings with a leading 0x00 octet / with the top bit set.
Keys are inputs, not oracles: the public halves are recomputed by the reference arithmetic and
the library must agree (otherwise the harness stops with an error: that would be a C05/C06 matter).
"""
from ..common import seeded, seeded_int
from ..ref import ec as EC
from ..ref import nt
from . import _c08_ref as R

WEIER = ("p192", "p224", "p256", "p384", "p521")
EDW = ("ed25519", "ed448")
MONT = ("curve25519", "curve448")
CURVES = WEIER + EDW + MONT
LIBCURVE = {"p192": "NIST P-192", "p224": "NIST P-224", "p256": "NIST P-256", "p384": "NIST P-384", "p521": "NIST P-521",
            "ed25519": "Ed25519", "ed448": "Ed448", "curve25519": "Curve25519", "curve448": "Curve448"}

_LIB = {}


def kd_id(kd, priv):
    return "%s/%s" % (kd["name"], "private" if priv else "public")


def libkey(kd, priv=True, fresh=False):
    """the library object for a descriptor (cached per process unless fresh)"""
    k = (kd["name"], priv)
    if not fresh and k in _LIB:
        return _LIB[k]
    t = kd["t"]
    if t == "RSA":
        from Crypto.PublicKey import RSA
        key = RSA.construct((kd["n"], kd["e"], kd["d"], kd["p"], kd["q"])) if priv else RSA.construct((kd["n"], kd["e"]))
    elif t == "DSA":
        from Crypto.PublicKey import DSA
        key = DSA.construct((kd["y"], kd["g"], kd["p"], kd["q"], kd["x"]) if priv else (kd["y"], kd["g"], kd["p"], kd["q"]))
    elif t == "ECC":
        from Crypto.PublicKey import ECC
        if priv:
            key = ECC.construct(curve=kd["curve"], d=kd["d"]) if kd.get("d") is not None else \
                ECC.construct(curve=kd["curve"], seed=bytes(kd["seed"]))
        elif kd["Q"][1] is None:
            key = ECC.construct(curve=kd["curve"], point_x=kd["Q"][0])
        else:
            key = ECC.construct(curve=kd["curve"], point_x=kd["Q"][0], point_y=kd["Q"][1])
    elif t == "ElGamal":
        from Crypto.PublicKey import ElGamal
        key = ElGamal.construct((kd["p"], kd["g"], kd["y"], kd["x"]) if priv else (kd["p"], kd["g"], kd["y"]))
    else:
        raise ValueError(t)
    if not fresh:
        _LIB[k] = key
    return key


def expected_comps(kd, priv):
    """the component tuple the property speaks about, from the descriptor alone (Python ints / bytes)"""
    t = kd["t"]
    if t == "RSA":
        pub = ("RSA", priv, kd["n"], kd["e"])
        return pub + (kd["d"], kd["p"], kd["q"], nt.inverse(kd["p"], kd["q"])) if priv else pub
    if t == "DSA":
        pub = ("DSA", priv, kd["p"], kd["q"], kd["g"], kd["y"])
        return pub + (kd["x"],) if priv else pub
    if t == "ECC":
        pub = ("ECC", priv, kd["curve"], kd["Q"][0], kd["Q"][1])
        if not priv:
            return pub
        return pub + (kd.get("d"), bytes(kd["seed"]) if kd.get("seed") is not None else None)
    if t == "ElGamal":
        pub = ("ElGamal", priv, kd["p"], kd["g"], kd["y"])
        return pub + (kd["x"],) if priv else pub
    raise ValueError(t)


_CANON = {v: k for k, v in LIBCURVE.items()}


def lib_comps(key):
    """the same tuple read from a library key object, every component converted to int / bytes"""
    cn = type(key).__name__
    if cn == "RsaKey":
        priv = bool(key.has_private())
        pub = ("RSA", priv, int(key.n), int(key.e))
        return pub + (int(key.d), int(key.p), int(key.q), int(key.u)) if priv else pub
    if cn == "DsaKey":
        priv = bool(key.has_private())
        pub = ("DSA", priv, int(key.p), int(key.q), int(key.g), int(key.y))
        return pub + (int(key.x),) if priv else pub
    if cn == "EccKey":
        priv = bool(key.has_private())
        curve = _CANON[key.curve]
        q = key.pointQ
        pub = ("ECC", priv, curve, int(q.x), None if curve in MONT else int(q.y))
        if not priv:
            return pub
        seed = key.seed
        # d of an EdDSA/XDH key is derived from the seed (clamped hash): the seed is the component
        return pub + (int(key.d) if seed is None else None, bytes(seed) if seed is not None else None)
    if cn == "ElGamalKey":
        priv = bool(key.has_private())
        pub = ("ElGamal", priv, int(key.p), int(key.g), int(key.y))
        return pub + (int(key.x),) if priv else pub
    raise ValueError("not a key object: %r" % (key,))


def diff_comps(a, b):
    """names of the positions where two component tuples differ"""
    if a[0] != b[0]:
        return ["type"]
    names = {"RSA": ("type", "private", "n", "e", "d", "p", "q", "u"), "DSA": ("type", "private", "p", "q", "g", "y", "x"),
             "ECC": ("type", "private", "curve", "Q.x", "Q.y", "d", "seed"), "ElGamal": ("type", "private", "p", "g", "y", "x")}[a[0]]
    out = [names[i] for i in range(min(len(a), len(b))) if a[i] != b[i]]
    if len(a) != len(b) and "private" not in out:
        out.append("private")
    return out


# ---------------------------------------------------------------------------
# searches
# ---------------------------------------------------------------------------
def _top(v, nbytes):
    return (v >> (8 * (nbytes - 1))) & 0xFF


def _rsa_from_primes(name, p, q, e):
    n = p * q
    d = nt.inverse(e, nt.lcm(p - 1, q - 1))
    return {"t": "RSA", "name": name, "n": n, "e": e, "d": d, "p": p, "q": q}


def _blen(v):
    return max(1, (v.bit_length() + 7) // 8)


def find_rsa_small(name, bits, e, want):
    """p fixed from the seed-independent start, q = successive primes; `want(kd derived ints)` decides"""
    pb = bits // 2
    p = nt.next_prime((0xC1 << (pb - 8)) | 0x1234567)
    while nt.gcd(e, p - 1) != 1:
        p = nt.next_prime(p)
    q = nt.next_prime((0xF3 << (bits - pb - 8)) | 0x7654321)
    for _ in range(3000):
        if q != p and nt.gcd(e, q - 1) == 1:
            kd = _rsa_from_primes(name, min(p, q), max(p, q), e)
            pp, qq = kd["p"], kd["q"]
            extra = {"dp": kd["d"] % (pp - 1), "dq": kd["d"] % (qq - 1), "qinv": nt.inverse(qq, pp)}
            if kd["n"].bit_length() == bits and want(kd, extra):
                return kd
        q = nt.next_prime(q)
    raise RuntimeError("harness: RSA search %s exhausted" % name)


def find_rsa_top(name, bits, e, top):
    """small RSA key whose modulus has exactly `bits` bits and the given most significant octet"""
    pb = bits // 2
    p = nt.next_prime((0xC1 << (pb - 8)) | 0x1234567)
    while nt.gcd(e, p - 1) != 1:
        p = nt.next_prime(p)
    nbytes = (bits + 7) // 8
    q = nt.next_prime(((top << (8 * (nbytes - 1))) + (1 << (8 * (nbytes - 1) - 1))) // p)
    for _ in range(3000):
        n = p * q
        if q != p and nt.gcd(e, q - 1) == 1 and n.bit_length() == bits and _top(n, nbytes) == top:
            return _rsa_from_primes(name, min(p, q), max(p, q), e)
        q = nt.next_prime(q)
    raise RuntimeError("harness: RSA search %s exhausted" % name)


def _tlv_len(clen):
    return 1 + (1 if clen < 128 else 2 if clen < 256 else 3) + clen


def pkcs1_content_len(kd):
    """length of the contents of the RSAPrivateKey SEQUENCE a DER encoder must produce (selection predicate only; the
    driver measures the length octets of the real output)"""
    p, q, d = kd["p"], kd["q"], kd["d"]
    ints = (0, kd["n"], kd["e"], d, p, q, d % (p - 1), d % (q - 1), nt.inverse(q, p))
    return sum(_tlv_len(v.bit_length() // 8 + 1) for v in ints)


def find_rsa_seqlen(name, target, e=65537):
    """smallest RSA key (bit sizes in increasing order, then successive q) whose RSAPrivateKey contents are exactly
    `target` octets long: 127 | 128 and 255 | 256 straddle the short / 0x81 / 0x82 length forms of the outermost TLV"""
    for bits in range(64, 640):
        pb = bits // 2
        p = nt.next_prime((0xC1 << (pb - 8)) | 0x4567)
        while nt.gcd(e, p - 1) != 1:
            p = nt.next_prime(p)
        q = nt.next_prime((0xF3 << (bits - pb - 8)) | 0x321)
        for _ in range(12):
            if q != p and nt.gcd(e, q - 1) == 1:
                kd = _rsa_from_primes(name, min(p, q), max(p, q), e)
                if kd["n"].bit_length() == bits and pkcs1_content_len(kd) == target:
                    return kd
            q = nt.next_prime(q)
    raise RuntimeError("harness: RSA search %s exhausted" % name)


def find_dsa_domain(L, N, top=None):
    """deterministic FFC domain: q = first N-bit prime after a fixed start, p = k*q + 1 the first prime of exactly L bits
    (with the requested most significant octet), g = 2^((p-1)/q) mod p (the first h whose power is not 1)"""
    q = nt.next_prime((0xD5 << (N - 8)) | 0x13579B)
    nbytes = (L + 7) // 8
    if top is None:
        start = (1 << (L - 1)) + (1 << (L - 3))
    else:
        start = (top << (8 * (nbytes - 1))) + (1 << (8 * (nbytes - 1) - 1))
    k = start // q
    k += k & 1
    for _ in range(40000):
        p = k * q + 1
        if p.bit_length() == L and (top is None or _top(p, nbytes) == top) and nt.is_prime(p):
            h = 2
            while pow(h, (p - 1) // q, p) == 1:
                h += 1
            return {"p": p, "q": q, "g": pow(h, (p - 1) // q, p)}
        k += 2
    raise RuntimeError("harness: DSA domain search (%d, %d) exhausted" % (L, N))


# thorough tier only: the additional searched keys
RSA_TOP_DEEP = ((2039, 0x7F), (2040, 0x80), (2040, 0xFF))        # n of 255 | 256 content octets (0x81 ff | 0x82 0100)
RSA_BIG_DEEP = ((3072, 65537), (4096, 3))
RSA_SEQLEN_DEEP = (127, 128, 255, 256)
DSA_DOMAINS_DEEP = ((512, 160, None), (1015, 160, 0x7F), (1016, 160, 0x80), (2039, 224, 0x7F), (2040, 224, 0x80), (2048, 256, None))


def _want_short_crt(kd, x):
    """one CRT value is at least one octet shorter than its modulus (leading zero in fixed width) and one
    other value needs a DER sign octet"""
    pl = _blen(kd["p"])
    short = [v for v in (x["dp"], x["dq"], x["qinv"]) if _blen(v) < pl]
    hi = [v for v in (kd["d"], x["dp"], x["dq"], x["qinv"]) if v.bit_length() % 8 == 0]
    return bool(short) and bool(hi)


def find_dsa_x(dom, name, start, step, want):
    p, q, g = dom["p"], dom["q"], dom["g"]
    x = start
    for _ in range(4000):
        if 1 < x < q:
            y = pow(g, x, p)
            if want(x, y):
                return {"t": "DSA", "name": name, "p": p, "q": q, "g": g, "y": y, "x": x}
        x += step
    raise RuntimeError("harness: DSA search %s exhausted" % name)


def _lib_point(curve, d=None, seed=None):
    from Crypto.PublicKey import ECC
    k = ECC.construct(curve=curve, d=d) if d is not None else ECC.construct(curve=curve, seed=seed)
    q = k.pointQ
    return int(q.x), (None if curve in MONT else int(q.y))


def find_ecc(curve, name, cands, want):
    """first candidate (scalar or seed) whose public point satisfies `want`; the library's scalar
    multiplication is used only to *select* the input, the point is recomputed by the reference"""
    for i, c in enumerate(cands):
        if i > 6000:
            break
        if isinstance(c, int):
            x, y = _lib_point(curve, d=c)
        else:
            x, y = _lib_point(curve, seed=c)
        if want(x, y):
            if isinstance(c, int):
                return {"t": "ECC", "name": name, "curve": curve, "d": c, "seed": None}
            return {"t": "ECC", "name": name, "curve": curve, "d": None, "seed": bytes(c)}
    raise RuntimeError("harness: ECC search %s exhausted" % name)


def _seeds(n, tag):
    i = 0
    while True:
        yield bytes([tag]) + i.to_bytes(3, "big") + bytes(n - 4)
        i += 1


def ecc_keys(curve, deep=False):
    c = EC.CURVES[curve]
    out = []
    if curve in WEIER:
        sz = c.size_bytes
        hi = 0x80 if curve != "p521" else 0x01
        # smallest d whose abscissa starts with a zero octet and whose ordinate is odd with the top bit set (d itself
        # has many leading zero octets)
        out.append(find_ecc(curve, curve + "-x00", range(2, 10 ** 6), lambda x, y: _top(x, sz) == 0 and _top(y, sz) >= hi and y & 1))
        # largest d (top bit set) whose ordinate is even and starts with a zero octet and whose abscissa has the top bit set
        out.append(find_ecc(curve, curve + "-y00", range(c.order - 2, 0, -1),
                            lambda x, y: _top(y, sz) == 0 and _top(x, sz) >= hi and not y & 1))
        d = seeded_int("c08/ecc/" + curve, c.order.bit_length() + 64) % (c.order - 1) + 1
        out.append({"t": "ECC", "name": curve + "-seeded", "curve": curve, "d": d, "seed": None})
    elif curve in EDW:
        n = R.RAW_LEN[curve]
        yb = 32 if curve == "ed25519" else 56            # octets carrying y
        # y has a leading zero octet and x is odd: the last octet(s) are 00..80
        out.append(find_ecc(curve, curve + "-y00-xodd", _seeds(n, 0x01),
                            lambda x, y: _top(y, yb) & (0x7F if curve == "ed25519" else 0xFF) == 0 and x & 1))
        # y has its top bit set and x is even
        out.append(find_ecc(curve, curve + "-yhi-xeven", _seeds(n, 0xFF),
                            lambda x, y: (y >> (254 if curve == "ed25519" else 447)) & 1 and not x & 1))
        out.append({"t": "ECC", "name": curve + "-seeded", "curve": curve, "d": None, "seed": seeded("c08/ecc/" + curve, n)})
    else:
        n = R.RAW_LEN[curve]
        out.append(find_ecc(curve, curve + "-u00", _seeds(n, 0x02), lambda x, y: _top(x, n) == 0))
        # every bit the clamping would clear / set is the other way round in the seed
        s = bytearray(b"\xff" * n)
        s[n - 1] = 0xBF if curve == "curve25519" else 0x7F
        out.append({"t": "ECC", "name": curve + "-unclamped", "curve": curve, "d": None, "seed": bytes(s)})
        out.append({"t": "ECC", "name": curve + "-seeded", "curve": curve, "d": None, "seed": seeded("c08/ecc/" + curve, n)})
    if deep:
        # the extreme scalars / seeds (thorough tier)
        if curve in WEIER:
            out.append({"t": "ECC", "name": curve + "-d1", "curve": curve, "d": 1, "seed": None})
            out.append({"t": "ECC", "name": curve + "-dmax", "curve": curve, "d": c.order - 1, "seed": None})
        else:
            n = R.RAW_LEN[curve]
            out.append({"t": "ECC", "name": curve + "-seed00", "curve": curve, "d": None, "seed": bytes(n)})
            out.append({"t": "ECC", "name": curve + "-seedff", "curve": curve, "d": None, "seed": b"\xff" * n})
    for kd in out:
        kd["Q"] = list(R.ec_public(curve, kd["d"]) if kd["d"] is not None else R.rfc8410_public(curve, kd["seed"]))
    return out


def find_elgamal(bits, idx):
    """safe prime p = 2q+1 found with mc.ref.nt, generator of the order-q subgroup"""
    q = nt.next_prime((1 << (bits - 2)) + 12345 * (idx + 1))
    while not nt.is_prime(2 * q + 1):
        q = nt.next_prime(q)
    p = 2 * q + 1
    g = 4                        # a square, hence of order q
    return p, g


def search_worker(job):
    """one deterministic search per shard; the descriptors found travel back through the accumulator"""
    import json
    from ..common import Acc, jsonable
    acc = Acc()
    if job[0] == "rsa":
        found = [find_rsa_small("rsa512-e3-shortcrt", 512, 3, _want_short_crt)]
    elif job[0] == "rsa-top":
        found = [find_rsa_top("rsa%d-n%02x" % (job[1], job[2]), job[1], 65537, job[2])]
    elif job[0] == "rsa-big":
        found = [find_rsa_small("rsa%d-e%d" % (job[1], job[2]), job[1], job[2], lambda kd, x: True)]
    elif job[0] == "rsa-seqlen":
        found = [find_rsa_seqlen("rsa-pkcs1len%d" % t, t) for t in job[1]]
    elif job[0] == "dsa-domain":
        L, N, top = job[1:4]
        name = "dsa%d-%d" % (L, N)
        dom = find_dsa_domain(L, N, top)
        x = seeded_int("c08/dsa/" + name, N + 64) % (dom["q"] - 1) + 1
        found = [dict(dom, t="DSA", name=name, x=x, y=pow(dom["g"], x, dom["p"]))]
    else:
        found = ecc_keys(job[1], deep=len(job) > 2 and job[2])
    for kd in found:
        acc.seen("found", json.dumps(jsonable(kd), sort_keys=True))
    return acc


def build_keys(acc, quick, pmap=None):
    """-> ordered dict name -> kd (simplest first inside each type); pmap: optional ctx.pmap for the searches"""
    import json
    from ..common import Acc, unjson
    from ..keys import rsa_components, dsa_components
    keys = {}

    def add(kd):
        keys[kd["name"]] = kd

    jobs = [("rsa",)] + [("ecc", c, not quick) for c in CURVES]
    if not quick:
        # heaviest searches first
        jobs = ([("dsa-domain",) + d for d in sorted(DSA_DOMAINS_DEEP, key=lambda d: -d[0])] +
                [("rsa-big",) + b for b in sorted(RSA_BIG_DEEP, key=lambda b: -b[0])] +
                [("rsa-top",) + t for t in RSA_TOP_DEEP] + [("rsa-seqlen", RSA_SEQLEN_DEEP)] + jobs)
    if pmap is not None:
        pmap(search_worker, jobs)
        src = acc
    else:
        src = Acc()
        for j in jobs:
            src.merge(search_worker(j))
    found = {}
    for sj in src.distinct.pop("found", ()):
        kd = unjson(json.loads(sj))
        found[kd["name"]] = kd

    # ---- RSA -------------------------------------------------------------------
    fx = [(1024, 65537), (1024, 3), (1024, 2 ** 32 + 15), (1025, 3), (1025, 65537)]
    if not quick:
        fx += [(1031, 3), (1032, 65537), (2048, 65537), (2048, 3)]
    for bits, e in fx:
        c = rsa_components(bits, e)
        p, q = c["p"], c["q"]
        add({"t": "RSA", "name": "rsa%d-e%s" % (bits, e if e < 10 ** 6 else "2^32+15"), "n": c["n"], "e": c["e"], "d": c["d"],
             "p": p, "q": q})
    add(found["rsa512-e3-shortcrt"])
    add(find_rsa_small("rsa521-e65537", 521, 65537, lambda kd, x: True))
    # the most significant octet of n and of e on both sides of the sign-octet boundary (7f | 80 | 81, ff), and a
    # modulus of 127 / 128 content octets (DER short / long length form)
    for bits, top in ((512, 0x80), (512, 0x81), (512, 0xFF), (511, 0x7F), (1016, 0x80), (1015, 0x7F), (1016, 0xFF), (1009, 0x01)):
        add(find_rsa_top("rsa%d-n%02x" % (bits, top), bits, 65537, top))
    for e in (0x8001, 0x800001, 0x80000001, 0x7FFF, 0xFF01, 0x81, 0x7F):
        add(find_rsa_top("rsa512-e%x" % e, 512, e, 0xC3))
    if not quick:
        # thorough: RSAPrivateKey contents of exactly 127 | 128 | 255 | 256 octets (length forms of the outermost TLV), a modulus
        # of 255 | 256 content octets (0x81 ff | 0x82 01 00), and the sizes 3072 and 4096
        for t in RSA_SEQLEN_DEEP:
            add(found["rsa-pkcs1len%d" % t])
        for bits, top in RSA_TOP_DEEP:
            add(found["rsa%d-n%02x" % (bits, top)])
        for bits, e in RSA_BIG_DEEP:
            add(found["rsa%d-e%d" % (bits, e)])
    # ---- DSA -------------------------------------------------------------------
    doms = [(1024, 160), (2048, 224), (3072, 256)]
    for L, N in doms:
        c = dsa_components(L, N)
        add({"t": "DSA", "name": "dsa%d-%d" % (L, N), "p": c["p"], "q": c["q"], "g": c["g"], "y": c["y"], "x": c["x"]})
    d1 = keys["dsa1024-160"]
    # tiny x (one-octet INTEGER) whose y has a leading zero octet
    add(find_dsa_x(d1, "dsa1024-xsmall-y00", 2, 1, lambda x, y: _top(y, 128) == 0))
    # x just below q (top bit set: DER sign octet) whose y has the top bit set
    add(find_dsa_x(d1, "dsa1024-xtop-yhi", d1["q"] - 2, -1, lambda x, y: _top(y, 128) >= 0x80))
    if not quick:
        # thorough: searched domains; p of 127 | 128 and 255 | 256 content octets, a 512-bit p, and the FIPS 186-4 pair (2048, 256)
        for L, N, top in DSA_DOMAINS_DEEP:
            add(found["dsa%d-%d" % (L, N)])
    # ---- ECC -------------------------------------------------------------------
    for curve in CURVES:
        for sfx in {"w": ("-x00", "-y00", "-seeded"), "e": ("-y00-xodd", "-yhi-xeven", "-seeded"), "m": ("-u00", "-unclamped", "-seeded")}[
                "w" if curve in WEIER else "e" if curve in EDW else "m"]:
            add(found[curve + sfx])
        if not quick:
            for sfx in (("-d1", "-dmax") if curve in WEIER else ("-seed00", "-seedff")):
                add(found[curve + sfx])
    # ---- self-consistency of the inputs (reference side) -------------------------
    for kd in keys.values():
        if kd["t"] == "RSA":
            if kd["p"] * kd["q"] != kd["n"] or kd["e"] * kd["d"] % nt.lcm(kd["p"] - 1, kd["q"] - 1) != 1:
                acc.error("fixture %s is not a consistent RSA key" % kd["name"])
        elif kd["t"] == "DSA":
            if pow(kd["g"], kd["x"], kd["p"]) != kd["y"] or (kd["p"] - 1) % kd["q"]:
                acc.error("fixture %s is not a consistent DSA key" % kd["name"])
        else:
            got = lib_comps(libkey(kd, True))
            exp = expected_comps(kd, True)
            if got != exp:
                acc.error("library and reference disagree on the public point of %s (%s): not a C08 matter, harness stops"
                          % (kd["name"], diff_comps(got, exp)))
    return keys


def elgamal_keys():
    out = []
    p, g = find_elgamal(96, 0)
    for nm, x in (("elgamal96-a", 5), ("elgamal96-b", (p - 1) // 2 - 3)):
        out.append({"t": "ElGamal", "name": nm, "p": p, "g": g, "y": pow(g, x, p), "x": x})
    p2, g2 = find_elgamal(128, 1)
    out.append({"t": "ElGamal", "name": "elgamal128", "p": p2, "g": g2, "y": pow(g2, 7, p2), "x": 7})
    return out
