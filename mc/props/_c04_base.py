"""C04 helpers shared by the RSA / DSS / EdDSA parts: hash table, messages, entropy tapes,
generic 'run verify and classify' plumbing."""
import hashlib
import importlib

from ..common import seeded, asc
from ..ref import md as RMD
from ..ref import rsa as R


# ---------------------------------------------------------------------------
# hashes: name -> (Crypto.Hash module, new() keywords, OID, digest size, hashlib name | None, reference digest)
# OIDs: RFC 8017 B.1, NIST CSOR, RFC 7693 section 4 (BLAKE2), TeleTrusT (RIPEMD-160)
# ---------------------------------------------------------------------------
def _hl(name):
    return lambda d: hashlib.new(name, d).digest()


def _b2(fn, n):
    return lambda d: fn(d, digest_size=n).digest()


HASHES = {
    "md2": ("MD2", {}, "1.2.840.113549.2.2", 16, None, RMD.md2),
    "md4": ("MD4", {}, "1.2.840.113549.2.4", 16, None, RMD.md4),
    "md5": ("MD5", {}, "1.2.840.113549.2.5", 16, "md5", _hl("md5")),
    "ripemd160": ("RIPEMD160", {}, "1.3.36.3.2.1", 20, "ripemd160", _hl("ripemd160")),
    "sha1": ("SHA1", {}, "1.3.14.3.2.26", 20, "sha1", _hl("sha1")),
    "sha224": ("SHA224", {}, "2.16.840.1.101.3.4.2.4", 28, "sha224", _hl("sha224")),
    "sha256": ("SHA256", {}, "2.16.840.1.101.3.4.2.1", 32, "sha256", _hl("sha256")),
    "sha384": ("SHA384", {}, "2.16.840.1.101.3.4.2.2", 48, "sha384", _hl("sha384")),
    "sha512": ("SHA512", {}, "2.16.840.1.101.3.4.2.3", 64, "sha512", _hl("sha512")),
    "sha512_224": ("SHA512", {"truncate": "224"}, "2.16.840.1.101.3.4.2.5", 28, "sha512_224", _hl("sha512_224")),
    "sha512_256": ("SHA512", {"truncate": "256"}, "2.16.840.1.101.3.4.2.6", 32, "sha512_256", _hl("sha512_256")),
    "sha3_224": ("SHA3_224", {}, "2.16.840.1.101.3.4.2.7", 28, "sha3_224", _hl("sha3_224")),
    "sha3_256": ("SHA3_256", {}, "2.16.840.1.101.3.4.2.8", 32, "sha3_256", _hl("sha3_256")),
    "sha3_384": ("SHA3_384", {}, "2.16.840.1.101.3.4.2.9", 48, "sha3_384", _hl("sha3_384")),
    "sha3_512": ("SHA3_512", {}, "2.16.840.1.101.3.4.2.10", 64, "sha3_512", _hl("sha3_512")),
    "blake2b_160": ("BLAKE2b", {"digest_bits": 160}, "1.3.6.1.4.1.1722.12.2.1.5", 20, None, _b2(hashlib.blake2b, 20)),
    "blake2b_256": ("BLAKE2b", {"digest_bits": 256}, "1.3.6.1.4.1.1722.12.2.1.8", 32, None, _b2(hashlib.blake2b, 32)),
    "blake2b_384": ("BLAKE2b", {"digest_bits": 384}, "1.3.6.1.4.1.1722.12.2.1.12", 48, None, _b2(hashlib.blake2b, 48)),
    "blake2b_512": ("BLAKE2b", {"digest_bits": 512}, "1.3.6.1.4.1.1722.12.2.1.16", 64, None, _b2(hashlib.blake2b, 64)),
    "blake2s_128": ("BLAKE2s", {"digest_bits": 128}, "1.3.6.1.4.1.1722.12.2.2.4", 16, None, _b2(hashlib.blake2s, 16)),
    "blake2s_160": ("BLAKE2s", {"digest_bits": 160}, "1.3.6.1.4.1.1722.12.2.2.5", 20, None, _b2(hashlib.blake2s, 20)),
    "blake2s_224": ("BLAKE2s", {"digest_bits": 224}, "1.3.6.1.4.1.1722.12.2.2.7", 28, None, _b2(hashlib.blake2s, 28)),
    "blake2s_256": ("BLAKE2s", {"digest_bits": 256}, "1.3.6.1.4.1.1722.12.2.2.8", 32, None, _b2(hashlib.blake2s, 32)),
}

V15_HASHES = tuple(HASHES)                                   # every hash with an OID
PSS_HASHES = tuple(h for h in HASHES if HASHES[h][4])       # those the reference MGF1 can name (hashlib)
DSS_HASHES = ("sha1", "sha224", "sha256", "sha384", "sha512", "sha512_224", "sha512_256",
              "sha3_224", "sha3_256", "sha3_384", "sha3_512")


def hash_oid(hn):
    return HASHES[hn][2]


def hash_size(hn):
    return HASHES[hn][3]


def ref_digest(hn, data):
    return HASHES[hn][5](bytes(data))


def libhash(hn, data=b""):
    mod, kw = HASHES[hn][0], HASHES[hn][1]
    return importlib.import_module("Crypto.Hash." + mod).new(data=bytes(data), **kw)


def libhash_expr(hn, data_expr):
    """source text creating the hash object (for stand-alone scripts)"""
    mod, kw = HASHES[hn][0], HASHES[hn][1]
    args = [data_expr] + ["%s=%r" % kv for kv in sorted(kw.items())]
    return "%s.new(%s)" % (mod, ", ".join(args))


def check_hash_table(acc):
    """the table's OIDs / sizes must agree with the RFC 8017 reference where both know the hash (harness guard)"""
    for hn, (_, _, oid, size, hl, fn) in HASHES.items():
        if hn in R.HASH_OID and (R.HASH_OID[hn] != oid or R.hash_len(hn) != size):
            acc.error("hash table disagrees with mc.ref.rsa for %s" % hn)
        if len(fn(b"abc")) != size:
            acc.error("reference digest of %s has the wrong size" % hn)


# ---------------------------------------------------------------------------
# messages (value alphabet of DESIGN 2.4)
# ---------------------------------------------------------------------------
def messages():
    return {"empty": b"", "asc33": asc(33, 1), "seeded150": seeded("c04/msg", 150), "zeros64": bytes(64),
            "ff1": b"\xff"}


def message(mn, msgs=None):
    """a named message of the value alphabet, or 'len:N' -> the first N octets of one seeded stream (length sweeps)"""
    if mn.startswith("len:"):
        return seeded("c04/msg-len", int(mn[4:]))
    return (msgs or messages())[mn]


def other_message(msg):
    return bytes(msg) + b"\x00" if len(msg) < 8 else bytes([msg[0] ^ 1]) + bytes(msg[1:])


# ---------------------------------------------------------------------------
# entropy tape
# ---------------------------------------------------------------------------
class TapeBytes:
    """randfunc returning successive slices of a given byte string"""
    def __init__(self, data):
        self.data = bytes(data)
        self.pos = 0
        self.calls = 0

    def __call__(self, n):
        self.calls += 1
        if self.pos + n > len(self.data):
            raise TapeExhausted("harness: entropy tape exhausted")
        r = self.data[self.pos:self.pos + n]
        self.pos += n
        return r


class TapeExhausted(RuntimeError):
    pass


# ---------------------------------------------------------------------------
# bit flips
# ---------------------------------------------------------------------------
def flip_positions(nbits, mode):
    """mode 'all' | 'ends64+bytewise' (first/last 64 bits and bit (i mod 8) of every byte i)"""
    if mode == "all":
        return list(range(nbits))
    s = set(range(min(64, nbits))) | set(range(max(0, nbits - 64), nbits))
    for i in range(nbits // 8):
        s.add(8 * i + (i % 8))
    return sorted(s)


def flip(data, bit):
    """bit 0 = most significant bit of the first byte"""
    b = bytearray(data)
    b[bit >> 3] ^= 0x80 >> (bit & 7)
    return bytes(b)


def lib_outcome(fn, *a):
    """-> ('accept', value) | ('ValueError', exc) | (<ExcName>, exc)"""
    try:
        return ("accept", fn(*a))
    except ValueError as e:
        return ("ValueError", e)
    except Exception as e:  # noqa
        return (type(e).__name__, e)
