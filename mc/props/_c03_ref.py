"""Reference glue for the C03 driver.  Imports only the standard library and
mc.ref.* (never Crypto): fixed-output hash references, HMAC written from
RFC 2104, primed SP 800-185 sponges (so a long customisation string is absorbed
once per grid row instead of once per case), Poly1305 key derivations, the
received-tag mutation alphabet."""
import copy
import hashlib
import hmac as _stdhmac
from functools import lru_cache

from ..ref import keccak as K
from ..ref import md as MD
from ..ref import modes as MODES
from ..ref import aes as RAES
from ..ref import des as RDES
from ..ref import blowfish as RBF
from ..ref import chacha as RCH

REF_MODULES = (K, MD, MODES, RAES, RDES, RBF, RCH)


def _hl(name):
    def f(m):
        return hashlib.new(name, m).digest()
    f.__name__ = "hashlib_" + name
    return f


def _kl(bits):
    def f(m):
        return K.keccak_legacy(bits, m)
    return f


# name -> (reference function, true block size / sponge rate in bytes, digest size, hashlib name or None)
HASH_REF = {
    "MD2": (MD.md2, 16, 16, None),
    "MD4": (MD.md4, 64, 16, None),
    "MD5": (_hl("md5"), 64, 16, "md5"),
    "RIPEMD160": (_hl("ripemd160"), 64, 20, "ripemd160"),
    "SHA1": (_hl("sha1"), 64, 20, "sha1"),
    "SHA224": (_hl("sha224"), 64, 28, "sha224"),
    "SHA256": (_hl("sha256"), 64, 32, "sha256"),
    "SHA384": (_hl("sha384"), 128, 48, "sha384"),
    "SHA512": (_hl("sha512"), 128, 64, "sha512"),
    "SHA512_224": (_hl("sha512_224"), 128, 28, "sha512_224"),
    "SHA512_256": (_hl("sha512_256"), 128, 32, "sha512_256"),
    "SHA3_224": (_hl("sha3_224"), 144, 28, "sha3_224"),
    "SHA3_256": (_hl("sha3_256"), 136, 32, "sha3_256"),
    "SHA3_384": (_hl("sha3_384"), 104, 48, "sha3_384"),
    "SHA3_512": (_hl("sha3_512"), 72, 64, "sha3_512"),
    "keccak224": (_kl(224), 144, 28, None),
    "keccak256": (_kl(256), 136, 32, None),
    "keccak384": (_kl(384), 104, 48, None),
    "keccak512": (_kl(512), 72, 64, None),
    "BLAKE2b": (_hl("blake2b"), 128, 64, "blake2b"),
    "BLAKE2s": (_hl("blake2s"), 64, 32, "blake2s"),
}
# aliases offered by the library (Crypto.Hash.SHA, Crypto.Hash.RIPEMD)
HASH_REF["SHA(alias)"] = HASH_REF["SHA1"]
HASH_REF["RIPEMD(alias)"] = HASH_REF["RIPEMD160"]


def hash_ref(name, msg):
    return HASH_REF[name][0](msg)


_IPAD = bytes(x ^ 0x36 for x in range(256))
_OPAD = bytes(x ^ 0x5C for x in range(256))


def hmac_ref(name, key, msg):
    """RFC 2104 / FIPS 198-1 over the reference hash `name` (B = its block size)."""
    H, B = HASH_REF[name][0], HASH_REF[name][1]
    key = bytes(key)
    if len(key) > B:
        key = H(key)
    key = key + bytes(B - len(key))
    return H(key.translate(_OPAD) + H(key.translate(_IPAD) + bytes(msg)))


# ---------------------------------------------------------------------------
# SP 800-185 with primed sponges
# ---------------------------------------------------------------------------
def rate_of(bits):
    return 200 - 2 * bits // 8


def _fresh_cshake_sponge(bits, fn, custom):
    rate = rate_of(bits)
    if not fn and not custom:
        return K.Sponge(rate, 0x1F)
    sp = K.Sponge(rate, 0x04)
    sp.absorb(K.bytepad(K.encode_string(fn) + K.encode_string(custom), rate))
    return sp


_PRIMED = {}


def _primed(tag, build):
    sp = _PRIMED.get(tag)
    if sp is None:
        if len(_PRIMED) > 48:
            _PRIMED.clear()
        sp = _PRIMED[tag] = build()
    return copy.deepcopy(sp)


def cshake_ref(bits, msg, outlen, fn=b"", custom=b""):
    fn, custom = bytes(fn), bytes(custom)
    sp = _primed(("c", bits, fn, custom), lambda: _fresh_cshake_sponge(bits, fn, custom))
    return sp.absorb(msg).squeeze(outlen)


def kmac_ref(bits, key, msg, outlen, custom=b""):
    key, custom = bytes(key), bytes(custom)

    def build():
        sp = _fresh_cshake_sponge(bits, b"KMAC", custom)
        sp.absorb(K.bytepad(K.encode_string(key), rate_of(bits)))
        return sp
    sp = _primed(("k", bits, custom, key), build)
    sp.absorb(msg)
    sp.absorb(K.right_encode(8 * outlen))
    return sp.squeeze(outlen)


def tuplehash_ref(bits, items, outlen, custom=b""):
    custom = bytes(custom)
    sp = _primed(("t", bits, custom), lambda: _fresh_cshake_sponge(bits, b"TupleHash", custom))
    for it in items:
        sp.absorb(K.encode_string(it))
    sp.absorb(K.right_encode(8 * outlen))
    return sp.squeeze(outlen)


K12_MAXOUT = 400


@lru_cache(maxsize=6)
def k12_ref(msg, custom):
    """First K12_MAXOUT bytes of KT128(msg, custom) (an XOF: shorter outputs are prefixes)."""
    return K.kangarootwelve(msg, custom, K12_MAXOUT)


def k12_single_node(custom, outlen):
    """What a *single-node* evaluation of S = custom || length_encode(|custom|) gives, whatever |S| is
    (used only to recognise one specific defect so that it gets its own key)."""
    return K.turboshake(128, bytes(custom) + K.length_encode(len(custom)), outlen, 0x07)


# ---------------------------------------------------------------------------
# CMAC / Poly1305
# ---------------------------------------------------------------------------
_CIPH = {}


def ref_cipher(cname, key):
    k = (cname, bytes(key))
    c = _CIPH.get(k)
    if c is None:
        if len(_CIPH) > 64:
            _CIPH.clear()
        cls = {"AES": RAES.AES, "DES3": RDES.TDES, "DES": RDES.DES, "Blowfish": RBF.Blowfish}[cname]
        c = _CIPH[k] = cls(bytes(key))
    return c


def cmac_ref(cipher_obj, msg):
    return MODES.cmac(cipher_obj, msg)


R_CLAMP_MAX = (0x0FFFFFFC0FFFFFFC0FFFFFFC0FFFFFFF).to_bytes(16, "little")


def poly_aes_rs(key32, nonce16):
    """Poly1305-AES (Bernstein 2005): key = k || r, s = AES_k(n)."""
    return key32[16:], RAES.AES(key32[:16]).encrypt_block(nonce16)


def poly_aes_nonce_for_s(key32, s16):
    return RAES.AES(key32[:16]).decrypt_block(s16)


def poly_chacha_rs(key32, nonce):
    """RFC 8439 2.6: first 32 bytes of ChaCha20 block 0; an 8-byte nonce is prefixed with 4 zero bytes."""
    n = bytes(nonce)
    if len(n) == 8:
        n = bytes(4) + n
    blk = RCH.chacha20_block(key32, 0, n)
    return blk[:16], blk[16:32]


def poly_ref(r, s, msg):
    return RCH.poly1305_rs(r, s, msg)


# ---------------------------------------------------------------------------
# received-tag alphabet (the C01 alphabet restricted to a bare tag)
# ---------------------------------------------------------------------------
DEEP_TAG_MAX = 16


def tag_candidates(tag, longer=None, other=None, deep=False):
    """(class, candidate) pairs, simplest first.  `longer` = a longer tag of which `tag` is a
    prefix (CMAC with mac_len < block size), `other` = the tag of a different message.
    deep (tags of at most DEEP_TAG_MAX bytes): additionally every two-bit flip and every
    substitution of one byte by each of the 255 other values."""
    tag = bytes(tag)
    yield "authentic", tag
    for n in range(len(tag)):
        yield "truncated", tag[:n]
    yield "extended-00", tag + b"\x00"
    yield "extended-ff", tag + b"\xff"
    if longer is not None and len(longer) > len(tag):
        yield "extended-next", bytes(longer[:len(tag) + 1])
    if other is not None and bytes(other) != tag:
        yield "other-message", bytes(other)
    for i in range(8 * len(tag)):
        b = bytearray(tag)
        b[i >> 3] ^= 0x80 >> (i & 7)
        yield "bitflip", bytes(b)
    if deep and len(tag) <= DEEP_TAG_MAX:
        for i in range(8 * len(tag)):
            for j in range(i + 1, 8 * len(tag)):
                b = bytearray(tag)
                b[i >> 3] ^= 0x80 >> (i & 7)
                b[j >> 3] ^= 0x80 >> (j & 7)
                yield "bitflip2", bytes(b)
        for i in range(len(tag)):
            for v in range(256):
                if v != tag[i]:
                    yield "byte-substitution", tag[:i] + bytes([v]) + tag[i + 1:]
    yield "authentic-again", tag


# ---------------------------------------------------------------------------
def selftest():
    for m in REF_MODULES:
        if m.selftest() is False:
            raise AssertionError("selftest of %s failed" % m.__name__)
    return selftest_glue()


def selftest_glue():
    """Validates the glue in this file against independently tested functions; raises on mismatch."""
    # HMAC: RFC 2202 / RFC 4231 test case 1 and the stdlib for every hashlib-backed hash
    assert hmac_ref("MD5", b"\x0b" * 16, b"Hi There").hex() == "9294727a3638bb1c13f48ef8158bfc9d"
    assert hmac_ref("SHA256", b"\x0b" * 20, b"Hi There").hex() == \
        "b0344c61d8db38535ca8afceaf0bf12b881dc200c9833da726e9376c2e32cff7"
    for name, (_, B, _, hl) in HASH_REF.items():
        if hl is None or name.startswith("BLAKE2"):
            continue
        for kl in (0, 1, B - 1, B, B + 1, 2 * B):
            k = bytes((7 + i) & 255 for i in range(kl))
            for ml in (0, 1, B + 1):
                exp = _stdhmac.new(k, bytes(ml), lambda d=b"", _n=hl: hashlib.new(_n, d)).digest()
                assert hmac_ref(name, k, bytes(ml)) == exp, ("hmac", name, kl, ml)
    # RFC 1320 / RFC 1319 vectors through the table
    assert hash_ref("MD4", b"abc").hex() == "a448017aaf21d8525fc10ae87aa6729d"
    assert hash_ref("MD2", b"abc").hex() == "da853b0d3f88d99b30283a69e6ded6bb"
    assert hash_ref("RIPEMD160", b"abc").hex() == "8eb208f7e05d987a9b044a8e98c6b087f15a0bfc"
    assert hash_ref("keccak256", b"").hex() == \
        "c5d2460186f7233c927e7db2dcc703c0e500b653ca82273b7bfad8045d85a470"
    # primed sponges against the reference module's own (self-tested) one-shot functions
    for bits in (128, 256):
        for cu in (b"", b"x", bytes(300)):
            for ml in (0, 5, 200):
                m = bytes(i & 255 for i in range(ml))
                assert cshake_ref(bits, m, 40, b"", cu) == K.cshake(bits, m, 40, b"", cu)
                assert cshake_ref(bits, m, 40, b"Fn", cu) == K.cshake(bits, m, 40, b"Fn", cu)
                assert kmac_ref(bits, bytes(33), m, 40, cu) == K.kmac(bits, bytes(33), m, 40, cu)
                assert tuplehash_ref(bits, [m, b"q"], 40, cu) == K.tuplehash(bits, [m, b"q"], 40, cu)
        assert cshake_ref(bits, b"abc", 17) == (hashlib.shake_128 if bits == 128 else hashlib.shake_256)(b"abc").digest(17)
    # SHA-3 / SHAKE: hashlib (the reference used in the grids) against the pure-Python sponge
    for n in (0, 1, 71, 72, 135, 136, 137, 143, 144, 167, 168, 169):
        m = bytes((i * 7) & 255 for i in range(n))
        for b in (224, 256, 384, 512):
            assert hashlib.new("sha3_%d" % b, m).digest() == K.sha3(b, m)
        assert hashlib.shake_128(m).digest(200) == K.shake(128, m, 200)
        assert hashlib.shake_256(m).digest(200) == K.shake(256, m, 200)
    # KT128: single-node helper agrees with the reference below the chunk size
    assert k12_single_node(b"abc", 32) == K.kangarootwelve(b"", b"abc", 32)
    assert k12_ref(b"xy", b"abc")[:32] == K.kangarootwelve(b"xy", b"abc", 32)
    # Poly1305: RFC 8439 2.5.2 and the Poly1305-AES paper's first example
    key = bytes.fromhex("85d6be7857556d337f4452fe42d506a80103808afb0db2fd4abff6af4149f51b")
    assert poly_ref(key[:16], key[16:], b"Cryptographic Forum Research Group").hex() == \
        "a8061dc1305136c6c22b8baf0c0127a9"
    k_r = bytes.fromhex("ec074c835580741701425b623235add6" "851fc40c3467ac0be05cc20404f3f700")
    n = bytes.fromhex("fb447350c4e868c52ac3275cf9d4327e")
    r, s = poly_aes_rs(k_r, n)
    assert s.hex() == "580b3b0f9447bb1e69d095b5928b6dbc"
    assert poly_ref(r, s, bytes.fromhex("f3f6")).hex() == "f4c633c3044fc145f84f335cb81953de"
    assert poly_aes_nonce_for_s(k_r, s) == n
    # RFC 8439 2.6.2 key generation
    k = bytes(range(0x80, 0xA0))
    r, s = poly_chacha_rs(k, bytes.fromhex("000000000001020304050607"))
    assert (r + s).hex() == "8ad5a08b905f81cc815040274ab29471a833b637e3fd0da508dbb8e2fdd1a646"
    # CMAC: RFC 4493 example 2
    c = ref_cipher("AES", bytes.fromhex("2b7e151628aed2a6abf7158809cf4f3c"))
    assert cmac_ref(c, bytes.fromhex("6bc1bee22e409f96e93d7e117393172a")).hex() == "070a16b46b4d4144f79bdd9dd04a287c"
    # the tag alphabet contains what it promises
    cl = {}
    for c_, t_ in tag_candidates(b"\x01\x02\x03\x04", longer=b"\x01\x02\x03\x04\x05", other=b"zzzz"):
        cl.setdefault(c_, []).append(t_)
    assert len(cl["bitflip"]) == 32 and len(set(cl["bitflip"])) == 32 and b"\x01\x02\x03\x04" not in cl["bitflip"]
    assert cl["truncated"] == [b"", b"\x01", b"\x01\x02", b"\x01\x02\x03"]
    assert cl["extended-next"] == [b"\x01\x02\x03\x04\x05"] and cl["other-message"] == [b"zzzz"]
    assert "bitflip2" not in cl and "byte-substitution" not in cl
    cl = {}
    for c_, t_ in tag_candidates(b"\x01\x02\x03", deep=True):
        cl.setdefault(c_, set()).add(t_)
    assert len(cl["bitflip2"]) == 24 * 23 // 2 and len(cl["byte-substitution"]) == 3 * 255
    assert b"\x01\x02\x03" not in cl["bitflip2"] | cl["byte-substitution"]
    assert all(len(t_) == 3 for t_ in cl["bitflip2"] | cl["byte-substitution"])
    return True
