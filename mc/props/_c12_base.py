"""C12 helpers: hash table, value alphabet, comparison plumbing, pure-Python scrypt (RFC 7914)."""
import hashlib
import hmac as _hmac
import importlib
import struct

from ..common import exc_site, short, seeded, asc
from ..ref import kdf as rkdf


class HarnessError(Exception):
    pass


# ---------------------------------------------------------------------------
# hashes:  label -> (reference name, hLen, HMAC block size, how to get the library hash)
# ---------------------------------------------------------------------------
_H = [
    # C fast path expected (module has _pbkdf2_hmac_assist)
    ("MD5", "md5", 16, 64), ("SHA1", "sha1", 20, 64), ("SHA224", "sha224", 28, 64),
    ("SHA256", "sha256", 32, 64), ("SHA384", "sha384", 48, 128), ("SHA512", "sha512", 64, 128),
    # generic path: modules without the helper
    ("MD2", "md2", 16, 16), ("MD4", "md4", 16, 64), ("RIPEMD160", "ripemd160", 20, 64),
    ("SHA3_224", "sha3_224", 28, 144), ("SHA3_256", "sha3_256", 32, 136),
    ("SHA3_384", "sha3_384", 48, 104), ("SHA3_512", "sha3_512", 64, 72),
    # generic path: hash *objects* used as digestmod
    ("SHA512/224", "sha512_224", 28, 128), ("SHA512/256", "sha512_256", 32, 128),
    ("MD5.new()", "md5", 16, 64), ("SHA1.new()", "sha1", 20, 64), ("SHA256.new()", "sha256", 32, 64),
    ("SHA512.new()", "sha512", 64, 128),
]
HSPEC = {h[0]: h for h in _H}
FAST_EXPECTED = ("MD5", "SHA1", "SHA224", "SHA256", "SHA384", "SHA512")
MODULE_HASHES = [h[0] for h in _H[:13]]
OBJECT_HASHES = [h[0] for h in _H[13:]]
ALL_HASHES = [h[0] for h in _H]


def have_ref(label):
    name = HSPEC[label][1]
    return name in ("md2", "md4") or name in hashlib.algorithms_available


def lib_hash(label):
    """the library-side digestmod for a label (module, or hash object)"""
    if label.endswith("/224") or label.endswith("/256"):
        from Crypto.Hash import SHA512
        return SHA512.new(truncate=label[-3:])
    if label.endswith(".new()"):
        return importlib.import_module("Crypto.Hash." + label[:-6]).new()
    return importlib.import_module("Crypto.Hash." + label)


def ref_name(label):
    return HSPEC[label][1]


def hlen(label):
    return HSPEC[label][2]


def hblock(label):
    return HSPEC[label][3]


# ---------------------------------------------------------------------------
# value alphabet
# ---------------------------------------------------------------------------
def mk(spec, label=""):
    """('asc',n) ('zero',n) ('ones',n) ('seed',n) ('raw',bytes) ('str',text) ('none',)"""
    kind = spec[0]
    if kind == "asc":
        return asc(spec[1], 1)
    if kind == "zero":
        return bytes(spec[1])
    if kind == "ones":
        return b"\xff" * spec[1]
    if kind == "seed":
        return seeded("c12/" + label, spec[1])
    if kind == "raw":
        return spec[1]
    if kind == "str":
        return spec[1]
    if kind == "none":
        return None
    raise HarnessError("bad value spec %r" % (spec,))


def as_bytes(x, enc="latin-1"):
    if x is None:
        return b""
    if isinstance(x, str):
        return x.encode(enc)
    return bytes(x)


def lenclass(n, block):
    if n == 0:
        return "0"
    if n < block:
        return "<B"
    if n == block:
        return "=B"
    return ">B"


def digest8(b):
    return hashlib.sha256(bytes(b)).digest()[:8]


# ---------------------------------------------------------------------------
# running the library
# ---------------------------------------------------------------------------
def run_lib(fn):
    """-> ('ok', value) | ('exc', exception)"""
    try:
        return ("ok", fn())
    except Exception as e:  # noqa
        return ("exc", e)


def raised(acc, keybase, what, case, e, script=None):
    acc.violation("%s/raises-%s@%s" % (keybase, type(e).__name__, exc_site(e)),
                  "%s raised %s: %s (inputs are inside the specified domain)" % (what, type(e).__name__, e),
                  case, script)


def cmp_bytes(acc, keybase, what, case, got, exp, script=None):
    """compare a single-key output; -> True if equal"""
    if not isinstance(got, (bytes, bytearray)):
        acc.violation(keybase + "/wrong-type", "%s returned %s, expected a byte string" % (what, short(got)),
                      case, script)
        return False
    got = bytes(got)
    if got == exp:
        return True
    if len(got) != len(exp):
        acc.violation(keybase + "/wrong-length", "%s returned %d bytes, specification defines %d"
                      % (what, len(got), len(exp)), case, script)
    else:
        acc.violation(keybase + "/wrong-bytes", "%s returned %s, specification defines %s"
                      % (what, short(got), short(exp)), case, script)
    return False


def cmp_multi(acc, keybase, what, case, got, stream, key_len, nk, script=None):
    """multi-key result must be a sequence of nk consecutive key_len-slices of `stream`"""
    exp = [stream[i * key_len:(i + 1) * key_len] for i in range(nk)]
    if isinstance(got, (bytes, bytearray)) or not hasattr(got, "__len__"):
        acc.violation(keybase + "/multi-key-wrong-type",
                      "%s returned %s, expected a sequence of %d keys" % (what, short(got), nk), case, script)
        return False
    try:
        g = [bytes(k) for k in got]
    except Exception:  # noqa
        acc.violation(keybase + "/multi-key-wrong-type",
                      "%s returned %s, expected a sequence of %d byte strings" % (what, short(got), nk), case, script)
        return False
    if g == exp:
        return True
    if len(g) != nk or any(len(k) != key_len for k in g):
        acc.violation(keybase + "/multi-key-wrong-shape",
                      "%s returned %d keys of lengths %s, expected %d keys of %d bytes"
                      % (what, len(g), sorted({len(k) for k in g}), nk, key_len), case, script)
    elif b"".join(g) == b"".join(exp):
        acc.violation(keybase + "/multi-key-not-slices", "%s: keys are not the consecutive slices" % what,
                      case, script)
    elif g[0] == exp[0]:
        acc.violation(keybase + "/multi-key-not-slices",
                      "%s: first key correct, later keys %s are not consecutive slices of the single stream %s"
                      % (what, short(g[1:]), short(exp[1:])), case, script)
    else:
        acc.violation(keybase + "/wrong-bytes", "%s returned %s, specification defines %s"
                      % (what, short(g), short(exp)), case, script)
    return False


# ---------------------------------------------------------------------------
# pure-Python scrypt, transcribed from RFC 7914 sections 3-6 (second oracle, and N = 1)
# ---------------------------------------------------------------------------
_M32 = 0xFFFFFFFF
_QR = (  # (target, a, b, rotation): x[target] ^= rotl(x[a] + x[b], rotation)   RFC 7914 section 3
    (4, 0, 12, 7), (8, 4, 0, 9), (12, 8, 4, 13), (0, 12, 8, 18),
    (9, 5, 1, 7), (13, 9, 5, 9), (1, 13, 9, 13), (5, 1, 13, 18),
    (14, 10, 6, 7), (2, 14, 10, 9), (6, 2, 14, 13), (10, 6, 2, 18),
    (3, 15, 11, 7), (7, 3, 15, 9), (11, 7, 3, 13), (15, 11, 7, 18),
    (1, 0, 3, 7), (2, 1, 0, 9), (3, 2, 1, 13), (0, 3, 2, 18),
    (6, 5, 4, 7), (7, 6, 5, 9), (4, 7, 6, 13), (5, 4, 7, 18),
    (11, 10, 9, 7), (8, 11, 10, 9), (9, 8, 11, 13), (10, 9, 8, 18),
    (12, 15, 14, 7), (13, 12, 15, 9), (14, 13, 12, 13), (15, 14, 13, 18),
)


def salsa20_8(b64):
    x = list(struct.unpack("<16I", b64))
    o = list(x)
    for _ in range(4):
        for t, a, b, r in _QR:
            s = (x[a] + x[b]) & _M32
            x[t] ^= ((s << r) | (s >> (32 - r))) & _M32
    return struct.pack("<16I", *[(x[i] + o[i]) & _M32 for i in range(16)])


def _xor(a, b):
    return (int.from_bytes(a, "big") ^ int.from_bytes(b, "big")).to_bytes(len(a), "big")


def _blockmix(B, r):
    X = B[-64:]
    Y = []
    for i in range(2 * r):
        X = salsa20_8(_xor(X, B[64 * i:64 * i + 64]))
        Y.append(X)
    return b"".join(Y[0::2]) + b"".join(Y[1::2])


def _romix(B, N, r):
    X = B
    V = []
    for _ in range(N):
        V.append(X)
        X = _blockmix(X, r)
    for _ in range(N):
        j = int.from_bytes(X[-64:-56], "little") % N
        X = _blockmix(_xor(X, V[j]), r)
    return X


def py_scrypt(password, salt, N, r, p, dklen):
    B = hashlib.pbkdf2_hmac("sha256", password, salt, 1, p * 128 * r)
    out = b"".join(_romix(B[128 * r * i:128 * r * (i + 1)], N, r) for i in range(p))
    return hashlib.pbkdf2_hmac("sha256", password, out, 1, dklen)


def scrypt_selftest():
    # RFC 7914 section 12, first vector
    v = py_scrypt(b"", b"", 16, 1, 1, 64)
    assert v.hex().startswith("77d6576238657b203b19ca42c18a0497f16b4844e3074ae8dfdffa3fede21442"), v.hex()
    for (N, r, p) in ((2, 1, 1), (4, 2, 2), (8, 1, 3), (16, 2, 1)):
        a = py_scrypt(b"pw", b"NaCl", N, r, p, 40)
        b = hashlib.scrypt(b"pw", salt=b"NaCl", n=N, r=r, p=p, dklen=40, maxmem=2 ** 26)
        assert a == b, (N, r, p)
    return True
