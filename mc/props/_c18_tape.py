"""TapeExplorer for C18: entropy tapes, complete tape-tree enumeration, reference samplers,
system-RNG tripwire and the call recorder used at cryptographic sizes.

An execution of a sampler is a pure function of its tape.  `Tape(prefix)` answers the first
len(prefix) non-empty entropy requests from `prefix` (a tuple of byte strings) and raises the
private `NeedMore(n)` for the next one; `expand` catches it and branches over all 256^n answers.
`NeedMore`/`Diverged` derive from BaseException so that no `except Exception` inside the
library (or the harness) can swallow them.
"""
import itertools
from fractions import Fraction

REJ = "<needs more entropy>"
MAX_FANOUT = 65536              # a single request is branched only when 256^n <= this


class NeedMore(BaseException):
    def __init__(self, n):
        self.n = n


class Diverged(BaseException):
    """Replaying a recorded prefix the sampler asked something else than before: the execution
    is not a function of the tape."""


class TooWide(BaseException):
    """A single entropy request has more than MAX_FANOUT answers (treated as a cap)."""


class Tape(object):
    """byte tape: answers are byte strings, an answer of n bytes costs 8n bits"""
    __slots__ = ("prefix", "pos", "calls", "neg")

    def __init__(self, prefix):
        self.prefix = prefix
        self.pos = 0
        self.calls = 0          # all requests, including empty ones
        self.neg = False        # a negative size was requested

    def __call__(self, n):
        self.calls += 1
        if n <= 0:
            if n < 0:
                self.neg = True
            return b""
        i = self.pos
        p = self.prefix
        if i < len(p):
            a = p[i]
            if len(a) != n:
                raise Diverged("request #%d asks %d bytes, the recorded answer has %d" % (i, n, len(a)))
            self.pos = i + 1
            return a
        raise NeedMore(n)

    read = __call__             # usable as StrongRandom(rng=tape)

    _ANS = {}

    @classmethod
    def answers(cls, n):
        r = cls._ANS.get(n)
        if r is None:
            if 256 ** n > MAX_FANOUT:
                raise TooWide(n)
            r = cls._ANS[n] = [bytes(t) for t in itertools.product(range(256), repeat=n)]
        return r

    @classmethod
    def answers_first(cls, n, firsts):
        """answers to an n-byte request whose first byte is in `firsts` (never materialises 256^n strings)"""
        rest = cls.answers(n - 1) if n > 1 else [b""]
        return [bytes([b]) + r for b in sorted(firsts) for r in rest]

    @staticmethod
    def bits(a):
        return 8 * len(a)

    @staticmethod
    def show(cont):
        return "|".join(a.hex() for a in cont) if cont else "(empty tape)"


class BitTape(object):
    """tape for the getrandbits seam: request = k bits, answers = (k, v) for v in [0, 2^k), cost k bits"""
    __slots__ = ("prefix", "pos", "calls", "neg")

    def __init__(self, prefix):
        self.prefix = prefix
        self.pos = 0
        self.calls = 0
        self.neg = False

    def __call__(self, k):
        self.calls += 1
        if k <= 0:
            return 0
        i = self.pos
        p = self.prefix
        if i < len(p):
            a = p[i]
            if a[0] != k:
                raise Diverged("request #%d asks %d bits, the recorded answer has %d" % (i, k, a[0]))
            self.pos = i + 1
            return a[1]
        raise NeedMore(k)

    @classmethod
    def answers(cls, k):
        if (1 << k) > MAX_FANOUT:
            raise TooWide(k)
        return [(k, v) for v in range(1 << k)]

    @staticmethod
    def bits(a):
        return a[0]

    @staticmethod
    def show(cont):
        return "|".join("%d/%db" % (a[1], a[0]) for a in cont) if cont else "(empty tape)"


def expand(run, prefix, ncalls, tapecls=Tape, first=None, max_nodes=300000):
    """Complete enumeration of the continuations of `prefix` by up to `ncalls` further non-empty
    entropy requests.  -> (leaves, opens, executions): leaves maps the continuation (tuple of
    answers) to the outcome of the run that terminated on it, opens lists (in tape order) the
    continuations after which the sampler asked for still more.  `first` optionally restricts
    the answers to the first request to those whose first byte is in the set `first` (sharding of very
    large trees).  More than `max_nodes` executions => TooWide."""
    leaves = {}
    opens = []
    nexec = 0
    stack = [()]
    while stack:
        cont = stack.pop()
        t = tapecls(prefix + cont)
        nexec += 1
        try:
            out = run(t)
        except NeedMore as e:
            if len(cont) >= ncalls:
                opens.append(cont)
                continue
            if first is not None and not cont:
                ans = tapecls.answers_first(e.n, first)
            else:
                ans = tapecls.answers(e.n)
            if nexec + len(ans) > max_nodes:
                raise TooWide("more than %d tapes" % max_nodes)
            if len(cont) == ncalls - 1:
                base = prefix + cont
                for a in ans:
                    t = tapecls(base + (a,))
                    try:
                        out = run(t)
                    except NeedMore:
                        opens.append(cont + (a,))
                        continue
                    except Exception as ex:  # noqa
                        out = ("exc", type(ex).__name__)
                    if t.pos != len(t.prefix):
                        raise Diverged("a recorded answer was not consumed on replay")
                    leaves[cont + (a,)] = out
                nexec += len(ans)
            else:
                for a in reversed(ans):
                    stack.append(cont + (a,))
            continue
        except Exception as ex:  # noqa
            out = ("exc", type(ex).__name__)
        if t.pos != len(t.prefix):
            raise Diverged("a recorded answer was not consumed on replay")
        leaves[cont] = out
    return leaves, opens, nexec


def group_weights(leaves, tapecls=Tape, by="bits"):
    """-> {group: {outcome: number of leaves}} and the bit cost of each group.  Leaves of one group all
    have the same entropy cost c (weight 2^-c each) when grouped by 'bits'."""
    groups = {}
    bits = tapecls.bits
    for cont, out in leaves.items():
        c = 0
        for a in cont:
            c += bits(a)
        g = groups.get(c)
        if g is None:
            g = groups[c] = {}
        g[out] = g.get(out, 0) + 1
    return groups


def weight(count, cost):
    return Fraction(count, 1 << cost)


# ---------------------------------------------------------------------------
# boring reference samplers (what a plain rejection sampler does with the same bytes)
# ---------------------------------------------------------------------------
class RefMore(Exception):
    pass


class Reader(object):
    """sequential reader over a byte string; logs request sizes"""

    def __init__(self, data):
        self.data = data
        self.pos = 0
        self.sizes = []

    def __call__(self, n):
        if n > 0:
            self.sizes.append(n)
        if n <= 0:
            return b""
        if self.pos + n > len(self.data):
            raise RefMore()
        r = self.data[self.pos:self.pos + n]
        self.pos += n
        return r


def ref_random(bits, exact, rd):
    """n-bit integer: top byte first, masked to the significant bits, then the remaining bytes"""
    nb = (bits + 7) // 8
    sig = bits - 8 * (nb - 1)
    top = rd(1)[0] & ((1 << sig) - 1)
    if exact:
        top |= 1 << (sig - 1)
    return int.from_bytes(bytes([top]) + rd(nb - 1), "big")


def ref_range_attempt(nm, rd):
    """one attempt for a value in [0, nm]: candidate of bitlen(nm) bits, accepted iff <= nm"""
    c = ref_random(max(1, nm.bit_length()), False, rd)
    return c if c <= nm else None


def ref_random_range(lo, hi, rd):
    while True:
        c = ref_range_attempt(hi - lo, rd)
        if c is not None:
            return lo + c


def ref_getrandbits(k, rd):
    return int.from_bytes(rd((k + 7) // 8), "big") & ((1 << k) - 1)


def ref_randrange_attempt(n, rd):
    """StrongRandom.randrange draws bitlen(n) bits (not bitlen(n-1)); accepted iff < n"""
    r = ref_getrandbits(n.bit_length(), rd)
    return r if r < n else None


def ref_randbelow(n, rd):
    while True:
        r = ref_randrange_attempt(n, rd)
        if r is not None:
            return r


def ref_legacy_integer(N, rd):
    """getRandomInteger: low bytes first, then the odd top bits taken from the HIGH end of one byte"""
    s = rd(N >> 3)
    if N % 8:
        s = bytes([rd(1)[0] >> (8 - N % 8)]) + s
    return int.from_bytes(s, "big")


def ref_legacy_range_attempt(nm, rd):
    v = ref_legacy_integer(nm.bit_length(), rd)
    return v if v <= nm else None


def ref_shuffle(n, rd):
    x = list(range(n))
    for i in range(n - 1, 0, -1):
        j = ref_randbelow(i + 1, rd)
        x[i], x[j] = x[j], x[i]
    return tuple(x)


def ref_sample(n, k, rd):
    out = []
    while len(out) < k:
        r = ref_randbelow(n, rd)
        if r not in out:
            out.append(r)
    return tuple(out)


# ---------------------------------------------------------------------------
# system RNG tripwire
# ---------------------------------------------------------------------------
class Tripwire(object):
    """Counts (and optionally answers) every request that reaches the process-wide entropy source:
    Crypto.Random.urandom (behind Random.new().read), Crypto.Random.get_random_bytes, os.urandom and
    the copies of get_random_bytes bound at import time in the modules under test."""

    def __init__(self, feed=None, log=None):
        self.count = 0
        self.feed = feed            # optional callable answering instead of the OS
        self.log = log              # optional list receiving the bytes handed out
        self._saved = []

    def _source(self, n):
        self.count += 1
        out = self.feed(n) if self.feed is not None else self._real(n)
        if self.log is not None and n > 0:
            self.log.append(out)
        return out

    def __enter__(self):
        import os
        import Crypto.Random as CR
        from Crypto.PublicKey import ECC
        self._real = os.urandom
        for mod, name in ((CR, "urandom"), (CR, "get_random_bytes"), (ECC, "get_random_bytes"), (os, "urandom")):
            self._saved.append((mod, name, getattr(mod, name)))
            setattr(mod, name, self._source)
        return self

    def __exit__(self, *a):
        for mod, name, old in reversed(self._saved):
            setattr(mod, name, old)
        self._saved = []
        return False


# ---------------------------------------------------------------------------
# byte-stream tape for cryptographic sizes and the recorder of Integer.random / random_range calls
# ---------------------------------------------------------------------------
class Feed(object):
    """byte stream: `head` first, then mc.keys.Stream(label) (deterministic).  Robust to how the
    consumer chunks its requests.  Every non-empty answer is appended to `log` (shared entropy log)."""

    def __init__(self, head, label, log=None):
        from ..keys import Stream
        self.head = bytes(head)
        self.pos = 0
        self.stream = Stream(label)
        self.sizes = []
        self.total = 0
        self.log = log

    def __call__(self, n):
        self.sizes.append(n)
        if n <= 0:
            return b""
        out = self.head[self.pos:self.pos + n]
        self.pos += len(out)
        if len(out) < n:
            out += self.stream(n - len(out))
        self.total += n
        if self.log is not None:
            self.log.append(out)
        return out

    read = __call__


class Recorder(object):
    """Wraps the classmethods _IntegerBase.random / random_range (behaviour unchanged) and records for
    every call its arguments, its result and the entropy bytes handed out while it ran (from the shared
    entropy log that the caller's Feed and the Tripwire write to)."""

    def __init__(self, log):
        self.log = log
        self.calls = []
        self._saved = None

    def __enter__(self):
        from Crypto.Math import _IntegerBase as IB
        base = IB.IntegerBase
        o_random = base.__dict__["random"]
        o_range = base.__dict__["random_range"]
        self._saved = (base, o_random, o_range)
        rec = self

        def random(cls, **kw):
            a = len(rec.log)
            res = o_random.__func__(cls, **kw)
            rec.calls.append(("random", {k: int(v) for k, v in kw.items() if k != "randfunc" and v is not None},
                              kw.get("randfunc") is not None, int(res), b"".join(rec.log[a:])))
            return res

        def random_range(cls, **kw):
            a = len(rec.log)
            res = o_range.__func__(cls, **kw)
            rec.calls.append(("random_range", {k: int(v) for k, v in kw.items() if k != "randfunc" and v is not None},
                              kw.get("randfunc") is not None, int(res), b"".join(rec.log[a:])))
            return res

        base.random = classmethod(random)
        base.random_range = classmethod(random_range)
        return self

    def __exit__(self, *a):
        base, o_random, o_range = self._saved
        base.random = o_random
        base.random_range = o_range
        return False


def _short(v):
    return str(v) if abs(v) < 1 << 64 else "%s2^%d.." % ("-" if v < 0 else "", abs(v).bit_length() - 1)


def check_recorded_call(call):
    """-> None when the recorded call is within its documented bounds and equals the reference sampler on the
    bytes it consumed; otherwise (tag, text)."""
    name, kw, has_rf, res, data = call
    rd = Reader(data)
    try:
        if name == "random":
            exact = kw.get("exact_bits")
            bits = exact or kw.get("max_bits")
            lo, hi = ((1 << (bits - 1)) if exact else 0), (1 << bits) - 1
            exp = ref_random(bits, bool(exact), rd)
            desc = "Integer.random(%s=%d)" % ("exact_bits" if exact else "max_bits", bits)
        else:
            lo = kw["min_inclusive"]
            hi = kw["max_inclusive"] if "max_inclusive" in kw else kw["max_exclusive"] - 1
            exp = ref_random_range(lo, hi, rd)
            desc = "Integer.random_range(%d-bit interval)" % (hi - lo).bit_length()
    except RefMore:
        return ("consumed-fewer-bytes-than-a-rejection-sampler",
                "%s returned after consuming only %d bytes; the reference rejection sampler needs more" % (name, len(data)))
    if not lo <= res <= hi:
        return ("out-of-range", "%s returned a value outside its documented interval (result-lo=%s, hi-result=%s)"
                % (desc, _short(res - lo), _short(hi - res)))
    if exp != res:
        return ("differs-from-reference-rejection-sampler",
                "%s returned a value different from the plain rejection sampler on the same %d bytes" % (desc, len(data)))
    if rd.pos != len(data):
        return ("consumed-more-bytes-than-a-rejection-sampler",
                "%s consumed %d bytes, the reference rejection sampler %d for the same result" % (desc, len(data), rd.pos))
    return None


def walk(run, ncalls, tapecls, first, on_leaf, on_open):
    """streaming variant of expand(prefix=()) for trees too large to keep: calls on_leaf(cont, outcome) /
    on_open(cont) instead of storing; -> executions"""
    nexec = 0
    stack = [()]
    while stack:
        cont = stack.pop()
        t = tapecls(cont)
        nexec += 1
        try:
            out = run(t)
        except NeedMore as e:
            if len(cont) >= ncalls:
                on_open(cont)
                continue
            if first is not None and not cont:
                ans = tapecls.answers_first(e.n, first)
            else:
                ans = tapecls.answers(e.n)
            if len(cont) == ncalls - 1:
                for a in ans:
                    c2 = cont + (a,)
                    t = tapecls(c2)
                    try:
                        out = run(t)
                    except NeedMore:
                        on_open(c2)
                        continue
                    except Exception as ex:  # noqa
                        out = ("exc", type(ex).__name__)
                    if t.pos != len(c2):
                        raise Diverged("a recorded answer was not consumed on replay")
                    on_leaf(c2, out)
                nexec += len(ans)
            else:
                for a in reversed(ans):
                    stack.append(cont + (a,))
            continue
        except Exception as ex:  # noqa
            out = ("exc", type(ex).__name__)
        if t.pos != len(cont):
            raise Diverged("a recorded answer was not consumed on replay")
        on_leaf(cont, out)
    return nexec
