"""C14 part A - each big-integer back-end against EXACT Python int arithmetic.

The three classes IntegerGMP / IntegerCustom / IntegerNative are imported directly (helper of the
finished C16 driver) and every (operation, operands, operand form) of the grids below is evaluated
on each of them.  The oracle is the mathematical result computed with Python's own integers
(math.isqrt, pow, int.to_bytes, mc.ref.nt.jacobi) - NOT the other back-ends (that is C16).

Reference domain = the documented one: where no result exists (zero modulus / divisor, negative
modulus, negative exponent, no inverse, quadratic non-residue, negative shift count, negative value
for sqrt / size / to_bytes, too short explicit length, unknown byte order, even or non-positive n for
the Jacobi symbol, even modulus for _mult_modulo_bytes) the exception class the methods use for that
case (ZeroDivisionError for a zero modulus/divisor, ValueError otherwise) must be raised; where a
result exists it must be returned exactly - a refusal is a violation unless a limit is documented
(none is: no docstring of Crypto.Math mentions a limit on shift counts or exponents).

Only VALUES are compared (int(result), bytes, truth value); result TYPES (int vs Integer, bool vs
int, self vs None) are the business of C16.  Besides the result, every operand that is not the
receiver of an in-place operation must still hold its value afterwards (no clobbering, also when
the same object is passed on both sides).
"""
import math
import operator as op

from ..common import Acc, short, seeded_int
from ..ref import nt
from . import _c16_int as I

VE, ZDE = "ValueError", "ZeroDivisionError"

CURVE_PRIMES = [
    ("p192", 2 ** 192 - 2 ** 64 - 1),
    ("p224", 2 ** 224 - 2 ** 96 + 1),
    ("p256", 2 ** 256 - 2 ** 224 + 2 ** 192 + 2 ** 96 - 1),
    ("p384", 2 ** 384 - 2 ** 128 - 2 ** 96 + 2 ** 32 - 1),
    ("p521", 2 ** 521 - 1),
    ("p25519", 2 ** 255 - 19),
    ("p448", 2 ** 448 - 2 ** 224 - 1),
]


# ---------------------------------------------------------------------------
# expected outcomes
# ---------------------------------------------------------------------------
def V(v, soft=None):
    """the exact result v exists (soft: the operands are outside the documented domain - a mismatch is logged)"""
    return ("v", v, soft)


def X(*classes, **kw):
    """no result exists: one of these exception classes is documented"""
    return ("x", frozenset(classes), kw.get("soft"))


def U(why):
    """nothing is documented and nothing is mathematically determined"""
    return ("u", why, None)


def ROOT(r, p, allow_refusal):
    """any x in [0, p) with x*x = r (mod p); allow_refusal: ValueError is also acceptable"""
    return ("root", (r, p, allow_refusal), None)


def _div_ref(a, b):
    return X(ZDE) if b == 0 else V(a // b)


def _mod_ref(a, b):
    if b == 0:
        return X(ZDE)
    if b < 0:
        return X(VE)
    return V(a % b)


def _inv_ref(a, m):
    if m == 0:
        return X(ZDE)
    if m < 0:
        return X(VE)
    if math.gcd(a, m) != 1:
        return X(VE)
    return V(pow(a, -1, m))


def _jac_ref(a, n):
    if n <= 0 or n % 2 == 0:
        return X(VE)
    return V(nt.jacobi(a, n))


def _fidb_ref(a, d):
    if d == 0:
        return U("divisor 0")
    soft = None if d > 0 else "negative divisor (documented: a small prime)"
    if a % d == 0:
        return X(VE, soft=soft)
    return V(None, soft)


def _lcm_ref(a, b):
    return V(0 if a == 0 or b == 0 else abs(a * b) // math.gcd(a, b))


def _size_bits_ref(a):
    if a < 0:
        return X(VE)
    if a == 0:
        return V(1, "size of 0: the library's convention is 1 bit (int.bit_length says 0)")
    return V(a.bit_length())


def _size_bytes_ref(a):
    if a < 0:
        return X(VE)
    if a == 0:
        return V(1, "size of 0: the library's convention is 1 byte")
    return V((a.bit_length() + 7) // 8)


def _rshift_ref(a, n):
    if n < 0:
        return X(VE)
    if n > a.bit_length():
        return V(-1 if a < 0 else 0)
    return V(a >> n)


def _lshift_ref(a, n):
    if n < 0:
        return X(VE)
    return V(a << n)


def _getbit_ref(a, n):
    if a < 0:
        # a two's complement bit exists mathematically; all back-ends say "no bit representation for negative values"
        return X(VE, soft="negative value")
    if n < 0:
        return X(VE)
    if n > a.bit_length():
        return V(False)
    return V(bool((a >> n) & 1))


def _tobytes_ref(a, bs, bo):
    if a < 0 or bo not in ("big", "little"):
        return X(VE)
    need = max(1, (a.bit_length() + 7) // 8)
    if bs > 0 and need > bs:
        return X(VE)
    return V(a.to_bytes(bs if bs > 0 else need, bo))


def _frombytes_ref(data, bo, typ):
    if bo not in ("big", "little"):
        return X(VE)
    return V(int.from_bytes(data, bo))


def _pow2_ref(a, e):
    if e < 0:
        return X(VE)
    return V(a ** e)


def _pow3_ref(a, e, m):
    cl = set()
    if e < 0:
        cl.add(VE)
    if m == 0:
        cl.add(ZDE)
    if m < 0:
        cl.add(VE)
    if cl:
        return X(*cl)
    return V(pow(a, e, m))


def _mmb_ref(t1, t2, m):
    if m == 0:
        return X(ZDE)
    if m < 0 or m % 2 == 0:
        return X(VE)
    soft = "negative term (documented: non-negative terms)" if t1 < 0 or t2 < 0 else None
    return V((t1 * t2 % m).to_bytes(max(1, (m.bit_length() + 7) // 8), "big"), soft)


_PRIME_CACHE = {}


def _is_prime(p):
    r = _PRIME_CACHE.get(p)
    if r is None:
        r = _PRIME_CACHE[p] = nt.is_prime(p)
    return r


def _sqrtmod_ref(r, p):
    if p <= 0:
        return X(VE)
    rr = r % p
    if _is_prime(p):
        if p == 2 or rr == 0 or pow(rr, (p - 1) // 2, p) == 1:
            return ROOT(rr, p, False)
        return X(VE)                        # quadratic non-residue
    # _tonelli_shanks: "we cannot assume that p is really a prime: if it's not, we can either raise an
    # exception or return the correct value"
    return ROOT(rr, p, True)


def _ts_ref(n, p):
    if p <= 0 or not 0 <= n < p:
        return U("outside the documented domain n in [0, p-1]")
    return _sqrtmod_ref(n, p)


# ---------------------------------------------------------------------------
# operation table
# ---------------------------------------------------------------------------
class Op(object):
    def __init__(self, name, nint, call, ref, mode="pure", key=None, tag=None, static=False, expr=None):
        self.name, self.nint, self.call, self.ref = name, nint, call, ref
        self.mode = mode                # pure | iop (result = returned value) | imeth (result = receiver afterwards)
        self.key = key or name
        self.tag = tag
        self.static = static
        self.expr = expr


OPS = {}


def _reg(name, nint, call, ref, **kw):
    OPS[name] = Op(name, nint, call, ref, **kw)


def _b(fn):
    return lambda K, o: fn(o[0], o[1])


def _u(fn):
    return lambda K, o: fn(o[0])


for _n, _f, _s in (("add", op.add, "+"), ("sub", op.sub, "-"), ("mul", op.mul, "*"), ("and", op.and_, "&"),
                   ("or", op.or_, "|"), ("eq", op.eq, "=="), ("ne", op.ne, "!="), ("lt", op.lt, "<"),
                   ("le", op.le, "<="), ("gt", op.gt, ">"), ("ge", op.ge, ">=")):
    _reg(_n, 2, _b(_f), (lambda f: (lambda a, b: V(f(a, b))))(_f), expr="K(a) %s w(b)" % _s)
for _n, _f, _base in (("iadd", op.iadd, op.add), ("isub", op.isub, op.sub), ("imul", op.imul, op.mul),
                      ("iand", op.iand, op.and_), ("ior", op.ior, op.or_)):
    _reg(_n, 2, _b(_f), (lambda f: (lambda a, b: V(f(a, b))))(_base), mode="iop", key=_base.__name__.strip("_"),
         expr="operator.%s(K(a), w(b))" % _n)
_reg("floordiv", 2, _b(op.floordiv), _div_ref, expr="K(a) // w(b)")
_reg("ifloordiv", 2, _b(op.ifloordiv), _div_ref, mode="iop", key="floordiv", expr="operator.ifloordiv(K(a), w(b))")
_reg("mod", 2, _b(op.mod), _mod_ref, expr="K(a) % w(b)")
_reg("imod", 2, _b(op.imod), _mod_ref, mode="iop", key="mod", expr="operator.imod(K(a), w(b))")
_reg("gcd", 2, _b(lambda x, y: x.gcd(y)), lambda a, b: V(math.gcd(a, b)), expr="K(a).gcd(w(b))")
_reg("lcm", 2, _b(lambda x, y: x.lcm(y)), _lcm_ref, expr="K(a).lcm(w(b))")
_reg("macc_bb", 2, _b(lambda x, y: x.multiply_accumulate(y, y)), lambda a, b: V(a + b * b), mode="imeth",
     key="multiply_accumulate", expr="K(a).multiply_accumulate(w(b), w(b))")
_reg("macc_3b", 2, _b(lambda x, y: x.multiply_accumulate(3, y)), lambda a, b: V(a + 3 * b), mode="imeth",
     key="multiply_accumulate", expr="K(a).multiply_accumulate(3, w(b))")
_reg("macc_b3", 2, _b(lambda x, y: x.multiply_accumulate(y, -3)), lambda a, b: V(a - 3 * b), mode="imeth",
     key="multiply_accumulate", expr="K(a).multiply_accumulate(w(b), -3)")
_reg("set", 2, _b(lambda x, y: x.set(y)), lambda a, b: V(b), mode="imeth", expr="K(a).set(w(b))")
_reg("inverse", 2, _b(lambda x, y: x.inverse(y)), _inv_ref, expr="K(a).inverse(w(b))")
_reg("inplace_inverse", 2, _b(lambda x, y: x.inplace_inverse(y)), _inv_ref, mode="imeth", key="inverse",
     expr="K(a).inplace_inverse(w(b))")
_reg("jacobi_symbol", 2, lambda K, o: K.jacobi_symbol(o[0], o[1]), _jac_ref, static=True,
     expr="K.jacobi_symbol(w(a), w(b))")
_reg("fail_if_divisible_by", 2, _b(lambda x, y: x.fail_if_divisible_by(y)), _fidb_ref,
     expr="K(a).fail_if_divisible_by(w(b))")


def _copy(K, o):
    c = K(o[0])
    c += 1                  # the copy must be independent of the original (receiver is checked afterwards)
    return c - 1


for _n, _f, _r, _e in (
        ("int", int, lambda a: V(a), "int(K(a))"),
        ("str", str, lambda a: V(str(a)), "str(K(a))"),
        ("bool", bool, lambda a: V(a != 0), "bool(K(a))"),
        ("index", op.index, lambda a: V(a), "operator.index(K(a))"),
        ("hex", hex, lambda a: V(hex(a)), "hex(K(a))"),
        ("abs", abs, lambda a: V(abs(a)), "abs(K(a))"),
        ("is_negative", lambda x: x.is_negative(), lambda a: V(a < 0), "K(a).is_negative()"),
        ("is_odd", lambda x: x.is_odd(), lambda a: V(a % 2 == 1), "K(a).is_odd()"),
        ("is_even", lambda x: x.is_even(), lambda a: V(a % 2 == 0), "K(a).is_even()"),
        ("is_perfect_square", lambda x: x.is_perfect_square(),
         lambda a: V(a >= 0 and math.isqrt(a) ** 2 == a), "K(a).is_perfect_square()"),
        ("size_in_bits", lambda x: x.size_in_bits(), _size_bits_ref, "K(a).size_in_bits()"),
        ("size_in_bytes", lambda x: x.size_in_bytes(), _size_bytes_ref, "K(a).size_in_bytes()"),
        ("sqrt", lambda x: x.sqrt(), lambda a: X(VE) if a < 0 else V(math.isqrt(a)), "K(a).sqrt()"),
        ("to_bytes0", lambda x: x.to_bytes(), lambda a: _tobytes_ref(a, 0, "big"), "K(a).to_bytes()")):
    _reg(_n, 1, _u(_f), _r, expr=_e)
_reg("copy", 1, _copy, lambda a: V(a), expr="K(K(a))")


def _shift_tag(vals):
    a, n = vals
    if n <= 0:
        return ""
    if n > 65536 and a.bit_length() > n:
        return "count-gt-65536-value-wider"
    if a < 0 and (n > a.bit_length() or a & ((1 << n) - 1)):
        return "negative-value-inexact"
    return ""


_lsh_tag = lambda v: "count-ge-65536" if v[1] >= 65536 else ""
_reg("rshift", 2, _b(op.rshift), _rshift_ref, tag=_shift_tag, expr="K(a) >> w(b)")
_reg("irshift", 2, _b(op.irshift), _rshift_ref, mode="iop", key="rshift", tag=_shift_tag,
     expr="operator.irshift(K(a), w(b))")
_reg("lshift", 2, _b(op.lshift), _lshift_ref, tag=_lsh_tag, expr="K(a) << w(b)")
_reg("ilshift", 2, _b(op.ilshift), _lshift_ref, mode="iop", key="lshift", tag=_lsh_tag,
     expr="operator.ilshift(K(a), w(b))")
_reg("get_bit", 2, _b(lambda x, n: x.get_bit(n)), _getbit_ref,
     tag=lambda v: "index-gt-65536-bit-set" if v[0] >= 0 and v[1] > 65536 and (v[0] >> v[1]) & 1 else "",
     expr="K(a).get_bit(w(b))")

_TYPES = {"bytes": bytes, "bytearray": bytearray, "memoryview": memoryview}
_reg("to_bytes", 1, lambda K, o: o[0].to_bytes(o[1], o[2]), _tobytes_ref, expr="K(a).to_bytes(b, c)")
class CallerBufferChanged(Exception):
    pass


def _from_bytes_twice(K, o):
    """the conversion is made twice from ONE carrier object: the caller's buffer reads the same afterwards and the second result equals the first"""
    buf = _TYPES[o[2]](o[0])
    r1 = K.from_bytes(buf, o[1])
    if bytes(buf) != bytes(o[0]):
        raise CallerBufferChanged("from_bytes changed its %s argument from %s to %s" % (o[2], bytes(o[0]).hex()[:40], bytes(buf).hex()[:40]))
    r2 = K.from_bytes(buf, o[1])
    if int(r1) != int(r2):
        raise CallerBufferChanged("the second from_bytes of the same %s gives another value" % o[2])
    return r1


_reg("from_bytes", 0, _from_bytes_twice, _frombytes_ref, static=True,
     expr="K.from_bytes(a, b)")

_pow2_tag = lambda v: "no-modulus-exponent-gt-256" if v[1] > 256 else ""
_reg("pow2", 2, _b(lambda x, e: pow(x, e)), _pow2_ref, key="pow", tag=_pow2_tag, expr="pow(K(a), w(b))")
_reg("ipow2", 2, _b(lambda x, e: x.inplace_pow(e)), _pow2_ref, mode="imeth", key="pow", tag=_pow2_tag,
     expr="K(a).inplace_pow(w(b))")


def _pow3_tag(v):
    b, e, m = v
    if e < 0 or m <= 0:
        return ""
    if m == 1:
        return "modulus-1"
    if b < 0 and m % 2 == 1:
        return "negative-base-odd-modulus"
    return ""


_reg("pow3", 3, lambda K, o: pow(o[0], o[1], o[2]), _pow3_ref, key="pow", tag=_pow3_tag,
     expr="pow(K(a), w(b), w(c))")
_reg("ipow3", 3, lambda K, o: o[0].inplace_pow(o[1], o[2]), _pow3_ref, mode="imeth", key="pow", tag=_pow3_tag,
     expr="K(a).inplace_pow(w(b), w(c))")
_reg("_mult_modulo_bytes", 3, lambda K, o: K._mult_modulo_bytes(o[0], o[1], o[2]), _mmb_ref, static=True,
     tag=lambda v: "modulus-1" if v[2] == 1 else "", expr="K._mult_modulo_bytes(w(a), w(b), w(c))")
_sq_tag = lambda v: "" if v[1] <= 0 or _is_prime(v[1]) else "composite-modulus"
_reg("sqrt_mod", 2, _b(lambda x, p: x.sqrt(p)), _sqrtmod_ref, tag=_sq_tag, expr="K(a).sqrt(w(b))")
_reg("_tonelli_shanks", 2, lambda K, o: K._tonelli_shanks(o[0], o[1]), _ts_ref, static=True, tag=_sq_tag,
     expr="K._tonelli_shanks(K(a), K(b))")


# ---------------------------------------------------------------------------
# execution of one (operation, operands, form) on one back-end
# ---------------------------------------------------------------------------
_IB = None
_PRISTINE = {}


def _ibase():
    global _IB
    if _IB is None:
        from Crypto.Math._IntegerBase import IntegerBase
        _IB = IntegerBase
    return _IB


def _fresh(bname, K, v):
    """a new object holding v (copy of a cached pristine object that is never handed to an operation)"""
    p = _PRISTINE.get((bname, v))
    if p is None:
        if len(_PRISTINE) > 4000:
            _PRISTINE.clear()
        p = _PRISTINE[(bname, v)] = K(v)
    return K(p), p


def _norm(r):
    if isinstance(r, _ibase()):
        return int(r)
    if isinstance(r, (bytes, bytearray)):
        return bytes(r)
    if r is NotImplemented:
        return "NotImplemented"
    return r


def execute(bname, K, spec, vals, form):
    """-> (outcome, clobbered)   outcome = ('v', value) | ('x', ExcName, message)"""
    objs, prist = [], []
    alias = None
    for i in range(spec.nint):
        v = vals[i]
        if form == "A" and alias is not None:
            objs.append(alias)
            prist.append(None)
            continue
        if (i == 0 and not spec.static) or form in ("I", "A") or spec.name == "_tonelli_shanks":
            o, p = _fresh(bname, K, v)
            if form == "A":
                alias = o
            objs.append(o)
            prist.append(p)
        else:
            objs.append(v)
            prist.append(None)
    objs += list(vals[spec.nint:])
    try:
        r = spec.call(K, objs)
    except Exception as e:  # noqa
        out = ("x", type(e).__name__, str(e)[:80])
        r = None
    else:
        if spec.mode == "imeth":
            out = ("v", int(objs[0]))
            if isinstance(r, _ibase()) and int(r) != out[1]:
                out = ("v", ("receiver", out[1], "returned", int(r)))
        else:
            out = ("v", _norm(r))
    clobbered = []
    start = 0
    shared = None
    if spec.mode == "pure" and isinstance(r, _ibase()) and form != "A" and not spec.name.startswith("_"):
        # (private helpers are exempt: _tonelli_shanks hands back its argument for n in (0, 1), and its only caller,
        #  sqrt(modulus), passes it a temporary)
        # the result of an out-of-place operation is a value of its own: updating it in place must not reach an operand
        # (an operation that hands back one of its operands instead of a new object shares its state with it)
        before = [int(o) if isinstance(o, _ibase()) else None for o in objs[:spec.nint]]
        try:
            r += 1
        except Exception:  # noqa
            pass
        for i in range(spec.nint):
            if before[i] is not None and int(objs[i]) != before[i]:
                shared = (i, before[i], int(objs[i]))
        if shared:
            return out, [("shared", shared[0], shared[1], shared[2])]
    if spec.mode == "imeth" or (spec.mode == "iop" and r is objs[0]) or (out[0] == "x" and spec.mode != "pure"):
        start = 1                       # the receiver of an in-place operation legitimately changes
    for i in range(start, spec.nint):
        if prist[i] is not None and not (objs[i] == prist[i]):
            clobbered.append((i, vals[i], _norm(objs[i])))
    return out, clobbered


def judge(exp, out):
    """-> (ok, class, detail)"""
    kind = exp[0]
    if kind == "u":
        return True, "unspecified", ""
    if kind == "v":
        if out[0] == "v":
            g, e = out[1], exp[1]
            same = (g == e) and (isinstance(g, (bytes, str)) == isinstance(e, (bytes, str))) and \
                   ((g is None) == (e is None))
            return (True, "exact", "") if same else (False, "wrong-value", "")
        return False, "refuses-existing-result", out[1]
    if kind == "x":
        if out[0] == "x":
            return (True, "documented-exception", "") if out[1] in exp[1] else (False, "wrong-exception", out[1])
        return False, "no-exception", ""
    if kind == "root":
        r, p, allow = exp[1]
        if out[0] == "x":
            if allow and out[1] == VE:
                return True, "refused-composite-modulus", ""
            return False, "refuses-existing-result", out[1]
        g = out[1]
        if isinstance(g, int) and not isinstance(g, bool) and 0 <= g < p and g * g % p == r:
            return True, "exact", ""
        return False, "wrong-value", ""
    raise AssertionError(kind)


def _show_exp(exp):
    if exp[0] == "v":
        return "exact result %s" % short(exp[1], 40)
    if exp[0] == "x":
        return "no result exists, documented: %s" % "/".join(sorted(exp[1]))
    if exp[0] == "root":
        return "a root x in [0,p) with x^2 = %s (mod p)%s" % (short(exp[1][0], 40),
                                                             " or ValueError (composite modulus)" if exp[1][2] else "")
    return exp[1]


def _size(vals):
    s = 0
    for v in vals:
        if isinstance(v, int) and not isinstance(v, bool):
            s += v.bit_length() + (1 if v < 0 else 0)
        elif isinstance(v, (bytes, bytearray)):
            s += 8 * len(v)
    return s


def enc_val(v):
    """replay files: integers too wide for str() (common.jsonable) travel as hexadecimal text"""
    if isinstance(v, int) and not isinstance(v, bool) and v.bit_length() > 12000:
        return {"hexint": hex(v)}
    return v


def dec_val(v):
    if isinstance(v, dict) and "hexint" in v:
        return int(v["hexint"], 16)
    return v


def int_case(name, vals, form, acc):
    """Run one (operation, operands, form) on the three back-ends and compare each with exact arithmetic."""
    vals = tuple(vals)
    spec = OPS[name]
    exp = spec.ref(*vals)
    tag = spec.tag(vals) if spec.tag else ""
    acc.count("int_cases")
    keys = []
    for bname, K in I.backends():
        out, clob = execute(bname, K, spec, vals, form)
        acc.count("evaluations")
        ok, cls, det = judge(exp, out)
        acc.seen("int_classes", (spec.key, tag, form, exp[0], out[0] if out[0] == "v" else "x:" + out[1], cls))
        if tag:
            acc.seen("int_tags", (spec.key, tag))
        call = "%s%s form %s on %s" % (name, short(list(vals), 40), form, bname)
        case = {"part": "int", "op": name, "vals": [enc_val(v) for v in vals], "form": form}
        if not ok:
            got = "raises %s(%s)" % (out[1], out[2]) if out[0] == "x" else "returns %s" % short(out[1], 40)
            if exp[2]:
                acc.observe("int/%s/%s%s on %s: outside the documented domain (%s), not judged"
                            % (spec.key, tag + "/" if tag else "", cls, bname, exp[2]))
                acc.count("int_soft_mismatches")
            else:
                key = "C14/int/%s/%s%s/%s%s" % (spec.key, tag + "/" if tag else "", cls, bname, ":" + det if det else "")
                acc.violation(key, "%s %s; %s" % (call, got, _show_exp(exp)), case,
                              script=_script(spec, vals, form, bname, exp), size=_size(vals))
                keys.append(key)
        if clob and clob[0][0] == "shared":
            key = "C14/int/%s/result-shares-state-with-operand/%s" % (spec.key, bname)
            acc.violation(key, "%s returns an object that shares its state with operand #%d: after 'result += 1' the operand "
                          "changed from %s to %s" % (call, clob[0][1], short(clob[0][2], 40), short(clob[0][3], 40)), case,
                          size=_size(vals))
            keys.append(key)
        elif clob:
            key = "C14/int/%s/operand-clobbered/%s" % (spec.key, bname)
            acc.violation(key, "%s changed operand #%d from %s to %s"
                          % (call, clob[0][0], short(clob[0][1], 40), short(clob[0][2], 40)), case,
                          script=_clobber_script(spec, vals, bname),
                          size=_size(vals) + (0 if ok and not exp[2] else 10 ** 6))   # prefer an otherwise clean example
            keys.append(key)
    return keys


_BK = {"gmp": "IntegerGMP", "custom": "IntegerCustom", "native": "IntegerNative"}


def _lit(v):
    if isinstance(v, int) and not isinstance(v, bool) and abs(v) >= 10 ** 12:
        return hex(v)
    return repr(v)


def _clobber_script(spec, vals, bname):
    if spec.name != "_mult_modulo_bytes":
        return None
    cls = _BK[bname]
    return ("# stand-alone reproduction (needs only pycryptodome)\n"
            "from Crypto.Math._%s import %s as K\n"
            "t1, t2, m = K(%s), K(%s), K(%s)\n"
            "print('result', K._mult_modulo_bytes(t1, t2, m).hex())\n"
            "print('operands afterwards', int(t1), int(t2), '(were %s, %s)')\n"
            % (cls, cls, _lit(vals[0]), _lit(vals[1]), _lit(vals[2]), _lit(vals[0]), _lit(vals[1])))


def _script(spec, vals, form, bname, exp):
    if not spec.expr:
        return None
    ops = (list(vals) + [None, None, None])[:3]
    cls = _BK[bname]
    return ("# stand-alone reproduction (needs only pycryptodome)\nimport operator\n"
            "from Crypto.Math._%s import %s as K\n"
            "a, b, c = %s, %s, %s\n"
            "w = %s\n"
            "try:\n    r = %s\n    print(type(r).__name__, r)\n"
            "except Exception as e:\n    print('raises', type(e).__name__, e)\n"
            "# exact arithmetic: %s\n"
            % (cls, cls, _lit(ops[0]), _lit(ops[1]), _lit(ops[2]), "K" if form in ("I", "A") else "(lambda v: v)", spec.expr,
               _show_exp(exp).replace("\n", " ")))


# ---------------------------------------------------------------------------
# alphabets
# ---------------------------------------------------------------------------
# DESIGN's operand alphabet V.  C14 keeps its OWN copy of these definitions (they started out shared with the C16 helper):
# every cross product of this driver is sized for exactly this alphabet, and the thorough tier enumerates EVERY bit size
# separately (BITS_TOP below) instead of adding more boundary sizes to V.
KS_FULL = (7, 8, 31, 32, 63, 64, 65, 127, 128, 255, 256, 521, 1024, 2048)
KS_QUICK = (8, 31, 32, 63, 64, 65, 128, 1024)
BLOCK_SIZES = (0, 1, 2, 7, 8, 9, 16, 17, 32, 33, 64, 65, 66, 128, 129, 256, 257, 258, 300)
SMALL_PRIMES = [p for p in range(2, 200) if all(p % q for q in range(2, int(p ** 0.5) + 1))]
CORE_WORDS = {True: (1, 2, 17), False: (1, 2, 3, 4, 8, 16, 17, 32, 33)}


def alphabet(quick):
    """DESIGN's V plus the 2^16 boundary used by the *_ui fast paths of the GMP wrapper"""
    v = [0, 1, -1, 2, -2]
    for k in (KS_QUICK if quick else KS_FULL):
        for x in (2 ** k - 1, 2 ** k, 2 ** k + 1):
            v += [x, -x]
    for bits in ((300,) if quick else (300, 1100, 2100)):
        x = seeded_int("c16int%d" % bits, bits) | (1 << (bits - 1))
        v += [x, -x]
    for x in (2 ** 16 - 2, 2 ** 16 - 1, 2 ** 16, 2 ** 16 + 1):
        v += [x, -x]
    return v


WORDS_QUICK = (1, 2, 3, 4, 8, 9, 16, 17, 32, 33)
WORDS_FULL = tuple(range(1, 34))


def word_moduli(w, label="c14mod"):
    """structured and seeded moduli of exactly w 64-bit words: odd (all-ones, sparse, alternating limbs,
    seeded) and even"""
    top = 2 ** (64 * w)
    alt = sum((2 ** 64 - 1) << (128 * i) for i in range((w + 1) // 2)) % top | 1 | (1 << (64 * w - 1))
    sd = seeded_int("%s%d" % (label, w), 64 * w) | 1 | (1 << (64 * w - 1))
    return [top - 1, top - 2, top // 2 + 1, top // 2, alt, sd]


def moduli_small():
    return [1, 2, 3, 4, 0, -1, -3]


def moduli_all(quick):
    m = moduli_small() + [p for _, p in CURVE_PRIMES]
    for w in (WORDS_QUICK if quick else WORDS_FULL):
        m += word_moduli(w)
    return m


def moduli_core(quick):
    """odd, even and 1 at 1, 2, 17 / 1..33 words by powers (all-ones, all-ones even, sparse odd, power of two), plus the
    curve primes"""
    m = [1, 2, 3, 4, 0, -1, -3]
    for w in CORE_WORDS[quick]:
        m += [2 ** (64 * w) - 1, 2 ** (64 * w) - 2, 2 ** (64 * w - 1) + 1, 2 ** (64 * w - 1)]
    return m + [p for _, p in CURVE_PRIMES]


SHIFTS = (0, 1, 31, 32, 33, 63, 64, 65, 4096, 65535, 65536, 65537, 2 ** 31, 2 ** 32, 2 ** 64, -1)
HUGE = (2 ** 65537, 2 ** 70000, 2 ** 70000 - 1, -(2 ** 70000), 2 ** 65536, 2 ** 65536 - 1)

BIN_OPS = ("add", "sub", "mul", "floordiv", "mod", "and", "or", "eq", "ne", "lt", "le", "gt", "ge",
           "iadd", "isub", "imul", "imod", "ifloordiv", "iand", "ior", "gcd", "lcm", "macc_bb", "macc_3b",
           "macc_b3", "set", "inverse", "inplace_inverse", "jacobi_symbol", "fail_if_divisible_by")
UN_OPS = ("int", "str", "bool", "index", "hex", "abs", "is_negative", "is_odd", "is_even", "is_perfect_square",
          "copy", "size_in_bits", "size_in_bytes", "sqrt", "to_bytes0")
SHIFT_OPS = ("rshift", "irshift", "lshift", "ilshift", "get_bit")
SMALL_R = {True: 16, False: 80}

# ---- dimensions enumerated by the THOROUGH tier only ---------------------------------------------------------------
BITS_TOP = 4160             # every operand bit size 1..4160 (65 words): unary operations, conversions, size-relative shifts
BITS_SQRT_TOP = 2200        # sqrt / is_perfect_square: every size up to here, above it 64w-1, 64w, 64w+1 only
BITS_BIN_TOP = 320          # every bit size up to here (and the sizes 64w-1, 64w, 64w+1 of every word count w <= 65) is
                            # also crossed with every binary operator against the partner set
MODBITS_TOP = 640           # every modulus bit length 2..640: every byte length 1..80 x every position of the top bit
WORDS_BIG = (34, 35, 36, 40, 47, 48, 49, 63, 64, 65, 96, 127, 128, 129)     # word counts beyond WORDS_FULL
EXP_SWEEP_TOP = 4096        # every exponent 0..4095 = every triple of 4-bit window digits of monty_pow (WINDOW_SIZE 4)
EXPLEN_TOP = 48             # every (exponent byte length, modulus byte length) pair of 1..48 x 1..48
LIMB_WORDS = 16             # single-limb operand patterns at every pair of limb positions for every word count 1..16
SHIFT_BOX = 200             # every shift count / bit index -1..200
SQRT_BOX_TOP = 400          # modular square roots: all residues modulo EVERY modulus -2..400
TWO_ADICITY_TOP = 64        # Tonelli-Shanks: primes c * 2^s + 1 of every 2-adicity s = 1..64
SQRT_BITS_TOP = 256         # ... and primes of every bit size 3..256 in every residue class mod 8
BOX = {                     # complete small-scope boxes: (quick, thorough)
    "pow3-b": (range(-6, 13), range(-8, 25)), "pow3-e": (range(-1, 13), range(-1, 18)),
    "pow3-m": (range(-1, 26), range(-1, 81)), "jacobi-n": (range(-3, 100), range(-3, 400)),
    "jacobi-a": (range(-60, 61), range(-100, 101)), "inverse-m": (range(-3, 40), range(-3, 200)),
    "inverse-a": (range(-45, 46), range(-100, 101)),
}


def _dedupe(seq):
    out = []
    for x in seq:
        if x not in out:
            out.append(x)
    return out


def word_moduli_extra(w, label="c14modx"):
    """further limb patterns of exactly w words (thorough): low limb 1 under all-ones limbs (m0 = -1 mod 2^64), top limb 1
    over all-ones limbs (barely w words), all-ones top and bottom limbs around zero limbs, an even modulus whose low limb
    is zero, a seeded odd modulus with an 8-bit top limb (byte length not a multiple of 8)"""
    top = 2 ** (64 * w)
    hi = 64 * (w - 1)
    sd = seeded_int("%s%d" % (label, w), hi + 8) | 1 | (1 << (hi + 7))
    cand = [top - 2 ** 64 + 1 if w > 1 else 2 ** 64 - 2 ** 32 + 1, 2 ** (hi + 1) - 1,
            ((2 ** 64 - 1) << hi) | (2 ** 64 - 1), top - 2 ** 64 if w > 1 else 2 ** 64 - 2 ** 32, sd]
    base = word_moduli(w)
    return [m for m in _dedupe(cand) if m > 4 and m not in base]


def bits_bin_sizes():
    ks = list(range(1, BITS_BIN_TOP + 1))
    for w in range(1, BITS_TOP // 64 + 1):
        ks += [64 * w - 1, 64 * w, 64 * w + 1]
    return sorted(set(k for k in ks if k <= BITS_TOP))


def exp_sweep_moduli():
    m = [3, 2 ** 64 - 59, 2 ** 64, 2 ** 128 - 2]
    for w in (1, 2, 3, 4, 5, 8, 9, 16, 17):
        m.append(seeded_int("c14expm%d" % w, 64 * w) | 1 | (1 << (64 * w - 1)))
    return m + [p for _, p in CURVE_PRIMES]


def proth_prime(s):
    """the smallest prime c * 2^s + 1 with c odd: a prime of 2-adicity exactly s"""
    c = 1
    while not _is_prime(c * 2 ** s + 1):
        c += 2
    return c * 2 ** s + 1


def prime_in_class(nb, r):
    """the smallest prime p >= 2^(nb-1) with p = r (mod 8), or None when it would need more than nb bits"""
    p = 2 ** (nb - 1)
    p += (r - p) % 8
    while p < 2 ** nb:
        if _is_prime(p):
            return p
        p += 8
    return None


def _forms(a, b):
    return ("I", "i", "A") if a == b else ("I", "i")


# ---------------------------------------------------------------------------
# enumeration
# ---------------------------------------------------------------------------
def int_shards(quick):
    nV = len(alphabet(quick))
    R = SMALL_R[quick]
    sh = [("pow3-wide", i, 12 if quick else 24) for i in range(12 if quick else 24)]
    sh += [("pow3-all", i) for i in range(nV)]
    sh += [("bin", i) for i in range(nV)]
    sh += [("mmb", i) for i in range(nV)]
    sh += [("small-bin", a) for a in range(-R, R + 1)]
    nb = 4 if quick else 8              # the small boxes are wider in thorough: more shards of the old size
    sh += [("unary",), ("shift", 0), ("shift", 1), ("shift", 2), ("shift", 3), ("conv",), ("pow2",), ("huge",)]
    sh += [("pow3-small", i, nb) for i in range(nb)]
    sh += [("jacobi-small", i, 1 if quick else 6) for i in range(1 if quick else 6)]
    sh += [("inverse-small", i, 1 if quick else 6) for i in range(1 if quick else 6)]
    sh += [("sqrt-small", i, 8) for i in range(8)] if quick else [("sqrt-small", i, 24) for i in range(24)]
    sh = [("sqrt-curve", i, j, 6) for i in range(len(CURVE_PRIMES)) for j in range(6)
          if CURVE_PRIMES[i][1] % 8 == 1] + sh          # p224 (2-adicity 96: the long Tonelli-Shanks loop) first
    sh += [("sqrt-curve", i, 0, 1) for i in range(len(CURVE_PRIMES)) if CURVE_PRIMES[i][1] % 8 != 1]
    top = 2 ** 13 if quick else 2 ** 17
    sh += [("isqrt-range", a, a + 1024) for a in range(0, top, 1024)]
    # neighbours of perfect squares of EVERY size (k = 2^m + j and k = floor(sqrt(2) 2^m) + j): integer square roots
    # computed through floating point go wrong first around 2^52..2^53, between the sizes of the operand alphabet
    mtop = 140 if quick else 1100
    sh += [("sqrt-neighbours", a, min(a + 20, mtop)) for a in range(1, mtop, 20)]
    if not quick:
        sh = deep_shards() + sh
    return [("int",) + s + (quick,) for s in sh]


def deep_shards():
    """the dimensions only the thorough tier enumerates (heaviest first; sweeps are interleaved so that the shards of
    one kind cost the same)"""
    sh = [("words-big", w, i, 4) for w in sorted(WORDS_BIG, reverse=True) for i in range(4)]
    sh += [("bits-bin", i, 48) for i in range(48)]
    sh += [("bits", i, 63) for i in range(63)]
    sh += [("modbits", i, 40) for i in range(40)]
    sh += [("patterns", w) for w in sorted(WORDS_FULL, reverse=True)]
    sh += [("exp-sweep", i) for i in range(len(exp_sweep_moduli()))]
    sh += [("limbs", w) for w in range(LIMB_WORDS, 0, -1)]
    sh += [("curve-limbs", i) for i in range(len(CURVE_PRIMES))]
    sh += [("explen", i, 8) for i in range(8)]
    sh += [("sqrt-bits", i, 8) for i in range(8)]
    sh += [("shift-box", i, 4) for i in range(4)]
    sh += [("conv-sweep",)]
    return sh


def int_worker(sh, acc):
    quick = sh[-1]
    sh = sh[1:-1]
    Vv = alphabet(quick)
    kind = sh[0]
    if kind == "bin":
        a = Vv[sh[1]]
        for b in Vv:
            for name in BIN_OPS:
                for form in _forms(a, b):
                    int_case(name, (a, b), form, acc)
    elif kind == "small-bin":
        a = sh[1]
        R = SMALL_R[quick]
        for b in range(-R, R + 1):
            for name in BIN_OPS:
                for form in _forms(a, b):
                    int_case(name, (a, b), form, acc)
            for name in ("rshift", "irshift", "lshift", "ilshift", "get_bit"):
                if -2 <= b <= 12:
                    for form in ("I", "i"):
                        int_case(name, (a, b), form, acc)
            if 0 <= b <= 12:
                for form in ("I", "i"):
                    int_case("pow2", (a, b), form, acc)
                    int_case("ipow2", (a, b), form, acc)
    elif kind == "unary":
        sq = [v * v for v in Vv] + [v * v + 1 for v in Vv] + [v * v - 1 for v in Vv if abs(v) > 1]
        for a in Vv + sq:
            for name in UN_OPS:
                int_case(name, (a,), "I", acc)
    elif kind == "sqrt-neighbours":
        for m in range(sh[1], sh[2]):
            for base in (1 << m, math.isqrt(1 << (2 * m + 1))):
                for j in (-2, -1, 0, 1, 2):
                    k = base + j
                    if k < 0:
                        continue
                    for d in (-2, -1, 0, 1, 2):
                        a = k * k + d
                        if a >= 0:
                            int_case("sqrt", (a,), "I", acc)
                            int_case("is_perfect_square", (a,), "I", acc)
    elif kind == "isqrt-range":
        for a in range(sh[1], sh[2]):
            for name in ("sqrt", "is_perfect_square", "size_in_bits", "size_in_bytes", "to_bytes0", "int", "is_odd"):
                int_case(name, (a,), "I", acc)
                if a and name in ("is_perfect_square", "is_odd", "int"):
                    int_case(name, (-a,), "I", acc)
    elif kind == "shift":
        for a in Vv[sh[1]::4]:
            for n in SHIFTS:
                for name in SHIFT_OPS:
                    if name in ("lshift", "ilshift") and n > 70000:
                        continue            # the result would need > 2^31 bits
                    for form in ("I", "i"):
                        int_case(name, (a, n), form, acc)
    elif kind == "huge":
        # operands wider than 65536 bits: only shifts and bit tests (the GMP wrapper special-cases counts > 65536)
        for a in HUGE:
            for n in (0, 1, 64, 65535, 65536, 65537, 69999, 70000, 70001, 2 ** 32):
                for name in ("rshift", "irshift", "get_bit"):
                    int_case(name, (a, n), "i", acc)
            for name in ("size_in_bits", "is_odd", "int"):
                int_case(name, (a,), "I", acc)
    elif kind == "conv":
        for a in Vv:
            for bs in BLOCK_SIZES:
                for bo in ("big", "little", "middle"):
                    int_case("to_bytes", (a, bs, bo), "I", acc)
            if a >= 0:
                # every explicit length around the minimal one (too short by 1, exact, one more)
                need = max(1, (a.bit_length() + 7) // 8)
                for bs in (need - 1, need, need + 1):
                    if bs > 0:
                        for bo in ("big", "little"):
                            int_case("to_bytes", (a, bs, bo), "I", acc)
        for L in range(0, 40):
            for pat in (b"\x00", b"\xff", b"\x01", b"\x80", bytes(range(1, 41))):
                data = (pat * 40)[:L]
                for bo in ("big", "little", "middle"):
                    for typ in ("bytes", "bytearray", "memoryview"):
                        int_case("from_bytes", (data, bo, typ), "I", acc)
        for L in (63, 64, 65, 127, 128, 129, 255, 256, 257, 263):
            data = bytes((7 * i + 1) & 255 for i in range(L))
            for bo in ("big", "little"):
                int_case("from_bytes", (data, bo, "bytes"), "I", acc)
                int_case("from_bytes", (b"\x00" * 9 + data, bo, "bytes"), "I", acc)
    elif kind == "pow2":
        small = [v for v in Vv if abs(v) < 2 ** 130]
        for a in small:
            for e in (0, 1, 2, 3, 4, 255, 256, 257, 300, -1):
                for form in ("I", "i"):
                    int_case("pow2", (a, e), form, acc)
                    int_case("ipow2", (a, e), form, acc)
    elif kind == "pow3-small":
        # small scope, complete: every base, exponent and modulus in a box (Montgomery code on tiny moduli)
        bq = 0 if quick else 1
        for b in BOX["pow3-b"][bq]:
            if (b - BOX["pow3-b"][bq][0]) % sh[2] != sh[1]:
                continue
            for e in BOX["pow3-e"][bq]:
                for m in BOX["pow3-m"][bq]:
                    for form in ("I", "i"):
                        int_case("pow3", (b, e, m), form, acc)
                    int_case("ipow3", (b, e, m), "I", acc)
    elif kind == "pow3-all":
        # every base of V x every exponent of V up to 65 bits (and -1) x every modulus of every word count
        b = Vv[sh[1]]
        E = [v for v in Vv if 0 <= v and v.bit_length() <= 66] + [-1]
        for m in moduli_all(quick):
            for e in E:
                if quick and e.bit_length() > 17 and m.bit_length() > 300 and m.bit_length() % 512 > 128:
                    acc.count("int_pow_skipped_cost")
                    continue
                for form in ("I", "i"):
                    int_case("pow3", (b, e, m), form, acc)
                if e.bit_length() <= 17:
                    int_case("ipow3", (b, e, m), "I", acc)
            if m > 2:
                # the base just around the modulus, exponents tied to the modulus
                for bb in (m - 1, m, m + 1):
                    if sh[1] < 3:
                        int_case("pow3", (bb, (2, 3, 65537)[sh[1]], m), "I", acc)
    elif kind == "pow3-wide":
        # wide exponents (> 65 bits): selected bases x V exponents x the core moduli, cost-bounded
        E = [v for v in Vv if v.bit_length() > 66 and v > 0]
        M = moduli_core(quick)
        B0 = [0, 1, 2, 3, -1, -2, 2 ** 64 - 1, 2 ** 64 + 1, -(2 ** 64 + 1), 2 ** 1024 - 1, 2 ** 1024 + 1]
        B0 += [v for v in Vv if v.bit_length() in (300, 1100, 2100)]
        cases = []
        for m in M:
            for e in E:
                big_e = e.bit_length() > 130
                if big_e and quick and not abs(m) < 5:          # (thorough: no cost restriction any more)
                    acc.count("int_pow_skipped_cost")
                    continue
                for b in B0:
                    cases.append((b, e, m))
            if m > 4:
                # full-size exponents tied to the modulus for every core modulus (Fermat/Euler shaped)
                for e in (m - 1, m - 2, (m - 1) // 2, m, m + 1):
                    for b in (2, 3, m - 1, m - 2, -2, seeded_int("c14powb", m.bit_length() + 8)):
                        cases.append((b, e, m))
        for (b, e, m) in cases[sh[1]::sh[2]]:
            int_case("pow3", (b, e, m), "I", acc)
            if e.bit_length() <= 130:
                int_case("pow3", (b, e, m), "i", acc)
                int_case("ipow3", (b, e, m), "I", acc)
    elif kind == "mmb":
        a = Vv[sh[1]]
        M = moduli_core(quick)
        odd_all = [m for m in moduli_all(quick) if m > 0 and m % 2]
        for b in (Vv if not quick else [v for v in Vv if abs(v) < 4 or abs(v).bit_length() in (16, 17, 32, 33, 64, 65,
                                                                                                1024, 1025, 300)]):
            for m in M:
                for form in ("I", "i"):
                    int_case("_mult_modulo_bytes", (a, b, m), form, acc)
        for m in odd_all:
            # every odd modulus of every word count: operands around the modulus
            for b in (0, 1, m - 1, m, m + 1, a, seeded_int("c14mmb", m.bit_length() + 8)):
                int_case("_mult_modulo_bytes", (a, b, m), "I", acc)
                int_case("_mult_modulo_bytes", (b, a, m), "i", acc)
            if sh[1] == 0:
                for t in (m - 1, m - 2, (m + 1) // 2):
                    int_case("_mult_modulo_bytes", (t, t, m), "I", acc)
    elif kind == "sqrt-small":
        mods = [p for p in SMALL_PRIMES if p < 200] + [9, 15, 21, 25, 27, 33, 35, 49, 91, 121, 4, 6, 8, 16, 1, 0, -7]
        if not quick:
            # EVERY modulus -2..SQRT_BOX_TOP, prime or not, heaviest first (all residues of each)
            mods = sorted(set(mods) | set(range(-2, SQRT_BOX_TOP + 1)), reverse=True)
        for p in mods[sh[1]::sh[2]]:
            for r in range(-2, p + 2):
                for form in ("I", "i"):
                    int_case("sqrt_mod", (r, p), form, acc)
                if 0 <= r < p:
                    int_case("_tonelli_shanks", (r, p), "I", acc)
    elif kind == "sqrt-curve":
        name, p = CURVE_PRIMES[sh[1]]
        for i in range(6 if quick else 24):
            if i % sh[3] != sh[2]:
                continue
            r = seeded_int("c14sqrt%s/%d" % (name, i), p.bit_length() + 8) % p
            for rr in (r, r * r % p, p - (r * r % p)):
                int_case("sqrt_mod", (rr, p), "I", acc)
                int_case("_tonelli_shanks", (rr, p), "I", acc)
            int_case("sqrt_mod", (r * r, p), "i", acc)          # unreduced and negative residues
            int_case("sqrt_mod", (r * r % p - p, p), "i", acc)
        if sh[2] == 0:
            for rr in (0, 1, 2, 3, 4, p - 1, p - 2, p, p + 1, -1):
                int_case("sqrt_mod", (rr, p), "I", acc)
    elif kind == "jacobi-small":
        bq = 0 if quick else 1
        for n in BOX["jacobi-n"][bq]:
            if (n + 3) % sh[2] != sh[1]:
                continue
            for a in BOX["jacobi-a"][bq]:
                for form in ("I", "i"):
                    int_case("jacobi_symbol", (a, n), form, acc)
        for _, p in (CURVE_PRIMES if sh[1] == 0 else ()):
            for i in range(6):
                a = seeded_int("c14jac%d" % i, p.bit_length() + 8)
                int_case("jacobi_symbol", (a, p), "I", acc)
                int_case("jacobi_symbol", (-a, p), "i", acc)
                int_case("jacobi_symbol", (a, p * 3 * 5), "I", acc)
    elif kind == "inverse-small":
        bq = 0 if quick else 1
        for m in BOX["inverse-m"][bq]:
            if (m + 3) % sh[2] != sh[1]:
                continue
            for a in BOX["inverse-a"][bq]:
                for form in ("I", "i"):
                    int_case("inverse", (a, m), form, acc)
                int_case("inplace_inverse", (a, m), "I", acc)
        for w in ((WORDS_QUICK if quick else WORDS_FULL + WORDS_BIG) if sh[1] == 0 else ()):
            for m in word_moduli(w, "c14inv"):
                for a in (2, 3, m - 1, m + 2, -5, seeded_int("c14inva", 64 * w)):
                    int_case("inverse", (a, m), "I", acc)
                    int_case("inplace_inverse", (a, m), "i", acc)
    elif not deep_worker(kind, sh, Vv, acc):
        acc.error("unknown int shard %r" % (sh,))
        return
    acc.sample({"part": "int", "shard": [str(s)[:30] for s in sh]})


# ---------------------------------------------------------------------------
# the dimensions of the thorough tier (complete enumerations, see the constants above)
# ---------------------------------------------------------------------------
def _pow_bases(m, label):
    return [0, 1, 2, 3, -1, -2, 2 ** 64 - 1, 2 ** 64 + 1, m - 1, m - 2, m, m + 1,
            seeded_int(label, m.bit_length() + 8), -seeded_int(label + "n", m.bit_length())]


def _terms(m, label):
    return [0, 1, 2, m - 1, m - 2, (m + 1) // 2, m, m + 1, -1, seeded_int(label, m.bit_length() + 8)]


def _pow_block(m, B, E, acc, tied=()):
    """pow(b, e, m) for every b of B and e of E (Integer operands); int operands and the in-place form for the
    exponents of `tied`"""
    for b in B:
        for e in E:
            int_case("pow3", (b, e, m), "I", acc)
            if e in tied:
                int_case("pow3", (b, e, m), "i", acc)
                int_case("ipow3", (b, e, m), "I", acc)


def _mmb_block(m, T, acc):
    for t1 in T:
        for t2 in T:
            int_case("_mult_modulo_bytes", (t1, t2, m), "I", acc)
        int_case("_mult_modulo_bytes", (t1, t1, m), "i", acc)


def deep_worker(kind, sh, Vv, acc):
    if kind == "bits":
        # EVERY operand bit size k: 2^k-1, 2^k, 2^k+1 and their negatives x every unary operation, byte conversions
        # around the minimal length and the limb size, shifts and bit tests around k
        for k in range(1 + sh[1], BITS_TOP + 1, sh[2]):
            acc.seen("int_dims", ("bits", k))
            # (the pure-Python Newton iterations of IntegerNative need ~0.1 s per call at 4000 bits: above BITS_SQRT_TOP
            #  the two square-root operations run at the three sizes around every word boundary only)
            roots = k <= BITS_SQRT_TOP or (k + 1) % 64 <= 2
            if roots:
                acc.seen("int_dims", ("bits-sqrt", k))
            for x in (2 ** k - 1, 2 ** k, 2 ** k + 1):
                for a in (x, -x):
                    for name in UN_OPS:
                        if roots or a < 0 or name not in ("sqrt", "is_perfect_square"):
                            int_case(name, (a,), "I", acc)
                need = (x.bit_length() + 7) // 8
                limb = 8 * ((need + 7) // 8)
                for bs in sorted(set((0, need - 1, need, need + 1, limb, limb + 8))):
                    for bo in ("big", "little"):
                        int_case("to_bytes", (x, bs, bo), "I", acc)
                data = x.to_bytes(need, "big")
                for d in (data, b"\x00" + data, b"\x00" * 8 + data):
                    for bo in ("big", "little"):
                        int_case("from_bytes", (d, bo, "bytes"), "I", acc)
                int_case("from_bytes", (data, "big", "bytearray"), "I", acc)
                int_case("from_bytes", (data, "little", "memoryview"), "I", acc)
            for a in (2 ** k - 1, -(2 ** k - 1), 2 ** k, -(2 ** k + 1)):
                for n in sorted(set((1, 63, 64, 65, k - 1, k, k + 1))):
                    for name in SHIFT_OPS:
                        int_case(name, (a, n), "i", acc)
    elif kind == "bits-bin":
        # every binary operator on operands of every size against the partner set (both orders, Integer and int right
        # operands, the operand itself)
        for k in bits_bin_sizes()[sh[1]::sh[2]]:
            acc.seen("int_dims", ("bits-bin", k))
            # a seeded odd value of exactly k bits: unstructured operands of every size (long Euclidean chains in gcd,
            # inverse, jacobi_symbol)
            sd = seeded_int("c14bb%d" % k, k) | 1 | (1 << (k - 1))
            for x in (2 ** k - 1, 2 ** k, 2 ** k + 1):
                for a in (x, -x):
                    for b in (1, -65536, 2 ** 32 + 1, -(2 ** 64 - 1), (a >> 1) | 1, sd, -a):
                        for name in BIN_OPS:
                            int_case(name, (a, b), "I", acc)
                            int_case(name, (a, b), "i", acc)
                            int_case(name, (b, a), "I", acc)
                    for name in BIN_OPS:
                        for form in ("I", "i", "A"):
                            int_case(name, (a, a), form, acc)
    elif kind == "modbits":
        # EVERY modulus bit length: pow, _mult_modulo_bytes, inverse
        for nb in range(2 + sh[1], MODBITS_TOP + 1, sh[2]):
            acc.seen("int_dims", ("modbits", nb))
            top = 2 ** nb
            sd = seeded_int("c14mb%d" % nb, nb) | 1 | (1 << (nb - 1))
            for m in _dedupe([top - 1, top // 2 + 1, sd, top - 2, top // 2]):
                B = [0, 1, 2, 3, m - 1, m - 2, m, m + 1, -2, seeded_int("c14mbb%d" % nb, nb + 8)]
                E = _dedupe([0, 1, 2, 3, 15, 16, 17, 255, 256, 257, 65535, 65536, 65537, 2 ** 64 - 1, 2 ** 64, (m - 1) // 2,
                             m - 1, m, top + 1, seeded_int("c14mbe%d" % nb, nb), seeded_int("c14mbf%d" % nb, nb + 72)])
                _pow_block(m, B, E, acc, tied=(3, 65537, m - 1))
                if m % 2:
                    _mmb_block(m, _terms(m, "c14mbt%d" % nb), acc)
                for a in (2, 3, m - 1, m - 2, m + 1, -5, (m + 1) // 2, seeded_int("c14mbi%d" % nb, nb + 8)):
                    int_case("inverse", (a, m), "I", acc)
                    int_case("inplace_inverse", (a, m), "i", acc)
    elif kind == "words-big":
        # word counts beyond 33 (up to 129 words = 8256 bits): all ten limb patterns
        w = sh[1]
        acc.seen("int_dims", ("words-big", w))
        mods = word_moduli(w) + word_moduli_extra(w)
        E = [0, 1, 2, 3, 16, 17, 255, 256, 65535, 65536, 65537, 2 ** 32 + 1, 2 ** 64 - 1, 2 ** 64 + 1, -1]
        for m in mods[sh[2]::sh[3]]:
            _pow_block(m, _pow_bases(m, "c14wb%d" % w), E, acc, tied=(3, 65537))
            if m % 2:
                T = _terms(m, "c14wbt%d" % w)
                for t1 in T:
                    for t2 in T[:7]:
                        int_case("_mult_modulo_bytes", (t1, t2, m), "I", acc)
            # a full-size exponent (Fermat shaped) on the four principal patterns
            if m in word_moduli(w)[:4]:
                for b in (2, seeded_int("c14wbf%d" % w, 64 * w - 3)):
                    int_case("pow3", (b, m - 1, m), "I", acc)
    elif kind == "patterns":
        # the further limb patterns for every word count 1..33: every exponent of V up to 66 bits
        w = sh[1]
        E = [v for v in Vv if 0 <= v and v.bit_length() <= 66] + [-1]
        for m in word_moduli_extra(w):
            acc.seen("int_dims", ("patterns", w))
            _pow_block(m, _pow_bases(m, "c14pt%d" % w), E, acc, tied=(3, 65537))
            if m % 2:
                _mmb_block(m, _terms(m, "c14ptt%d" % w), acc)
            for e in (m - 1, (m - 1) // 2, m + 1):
                for b in (2, m - 2, seeded_int("c14ptf%d" % w, 64 * w + 8)):
                    int_case("pow3", (b, e, m), "I", acc)
    elif kind == "exp-sweep":
        # EVERY exponent 0..4095: all triples of window digits (and all leading-zero-digit shapes)
        m = exp_sweep_moduli()[sh[1]]
        acc.seen("int_dims", ("exp-sweep", m))
        for e in range(EXP_SWEEP_TOP):
            for b in (2, 3, m - 2, seeded_int("c14esb", m.bit_length() + 8)):
                int_case("pow3", (b, e, m), "I", acc)
            if e < 256:
                int_case("ipow3", (3, e, m), "I", acc)
                int_case("pow3", (m - 2, e, m), "i", acc)
    elif kind == "explen":
        # every (exponent byte length, modulus byte length): the C code pads all operands to the longest one
        for le in range(1 + sh[1], EXPLEN_TOP + 1, sh[2]):
            exps = _dedupe([2 ** (8 * le) - 1, 2 ** (8 * le - 1) + 1, 2 ** (8 * le - 8),
                            seeded_int("c14ele%d" % le, 8 * le) | (1 << (8 * le - 8))])
            for lm in range(1, EXPLEN_TOP + 1):
                acc.seen("int_dims", ("explen", (le, lm)))
                mods = _dedupe([2 ** (8 * lm) - 1, 2 ** (8 * lm - 8) + 2 if lm > 1 else 5,
                                seeded_int("c14elm%d" % lm, 8 * lm) | 1 | (1 << (8 * lm - 8))])
                for m in mods:
                    m |= 1
                    for e in exps:
                        for b in (3, m - 2, seeded_int("c14elb", 8 * lm + 8)):
                            int_case("pow3", (b, e, m), "I", acc)
    elif kind == "limbs":
        # single-limb and prefix patterns at EVERY pair of limb positions (carries of the schoolbook product, the
        # Montgomery reduction two limbs at a time, the final conditional subtraction)
        w = sh[1]
        acc.seen("int_dims", ("limbs", w))
        T = []
        for i in range(w):
            T += [1 << (64 * i), (2 ** 63) << (64 * i), (2 ** 64 - 1) << (64 * i), 2 ** (64 * (i + 1)) - 1]
        for m in word_moduli(w) + word_moduli_extra(w):
            if m % 2 == 0:
                continue
            for t1 in T:
                for t2 in T:
                    int_case("_mult_modulo_bytes", (t1, t2, m), "I", acc)
                for e in (2, 3, 17):
                    int_case("pow3", (t1, e, m), "I", acc)
    elif kind == "curve-limbs":
        # the special reductions (P-256, P-384, P-521, Ed448) and the generic path on the other curve primes: operands
        # with a single 32-bit limb set / cleared at every position, all ordered pairs
        name, p = CURVE_PRIMES[sh[1]]
        acc.seen("int_dims", ("curve-limbs", name))
        S = [0, 1, 2, p - 1, p - 2, (p - 1) // 2, (p + 1) // 2]
        for i in range((p.bit_length() + 31) // 32):
            S += [1 << (32 * i), (1 << (32 * i)) - 1, ((2 ** 32 - 1) << (32 * i)) % p, p - (1 << (32 * i))]
        S = _dedupe([t for t in S if 0 <= t])
        for t1 in S:
            for t2 in S:
                int_case("_mult_modulo_bytes", (t1, t2, p), "I", acc)
            for e in (2, 3, (p - 1) // 2, p - 2):
                int_case("pow3", (t1, e, p), "I", acc)
            int_case("inverse", (t1, p), "I", acc)
        for m in (p - 2, p + 2):
            # the odd neighbours of the special primes: same size, generic reduction
            _pow_block(m, _pow_bases(m, "c14cl" + name), [0, 1, 2, 3, 16, 17, 65537, 2 ** 64 + 1, (m - 1) // 2, m - 1], acc,
                       tied=(3, 65537))
            _mmb_block(m, _terms(m, "c14clt" + name), acc)
    elif kind == "sqrt-bits":
        # Tonelli-Shanks on primes of EVERY 2-adicity 1..64 and of every bit size in every residue class mod 8
        primes = [("2-adicity", s, proth_prime(s)) for s in range(1, TWO_ADICITY_TOP + 1)]
        for nb in range(3, SQRT_BITS_TOP + 1):
            for r in (1, 3, 5, 7):
                p = prime_in_class(nb, r)
                if p is not None:
                    primes.append(("bits-class", (nb, r), p))
        for what, par, p in primes[sh[1]::sh[2]]:
            acc.seen("int_dims", ("sqrt-" + what, par))
            rs = [0, 1, 4, p - 1, p - 4, 2, 3]
            for i in range(3):
                r = seeded_int("c14sqb%d/%d" % (p.bit_length(), i), p.bit_length() + 8) % p
                rs += [r, r * r % p, p - r * r % p]
            for rr in _dedupe(rs):
                int_case("sqrt_mod", (rr, p), "I", acc)
                int_case("sqrt_mod", (rr - p, p), "i", acc)
                if 0 <= rr < p:
                    int_case("_tonelli_shanks", (rr, p), "I", acc)
    elif kind == "shift-box":
        # every shift count and bit index -1..200 on every value of V below 130 bits
        for a in [v for v in Vv if abs(v) < 2 ** 130][sh[1]::sh[2]]:
            for n in range(-1, SHIFT_BOX + 1):
                acc.seen("int_dims", ("shift-box", n))
                for name in SHIFT_OPS:
                    int_case(name, (a, n), "i", acc)
                    if n in (0, 1, 63, 64, 65, 127, 128, 129):
                        int_case(name, (a, n), "I", acc)
    elif kind == "conv-sweep":
        # from_bytes at every length 0..300 (both byte orders; leading / trailing zero bytes)
        for L in range(0, 301):
            acc.seen("int_dims", ("conv-sweep", L))
            for pat in (b"\x00", b"\xff", b"\x01", b"\x80", bytes(range(1, 251))):
                data = (pat * 301)[:L]
                for bo in ("big", "little"):
                    int_case("from_bytes", (data, bo, "bytes"), "I", acc)
            data = bytes((11 * i + 3) & 255 for i in range(L))
            int_case("from_bytes", (data, "big", "memoryview"), "I", acc)
            int_case("from_bytes", (data, "little", "bytearray"), "I", acc)
    else:
        return False
    return True
