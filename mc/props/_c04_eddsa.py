"""C04 part EdDSA: Ed25519 / Ed25519ctx / Ed25519ph / Ed448 / Ed448ph against RFC 8032 (mc.ref.ec, strict decoding,
S < L, cofactored equation).

  sign     library signature == reference signature byte for byte, verify(sign) accepted, sign / verify repeated on the
           same prehash object, SHA-512 digest / next SHAKE256 read() unchanged
  genuine  candidates derived from a genuine signature: every single-bit flip, wrong lengths, S + jL, S in {0, L-S, L,
           2^b-1}, other key / message / context / prehash flag, re-encodings of the PUBLIC KEY (Ed448: the seven spare
           bits of the last octet; sign bit)
  crafted  small-order A and R in all their encodings (canonical, x = 0 with the sign bit set, y + p, Ed448 spare bits)
           x S in {0, 1, L-1, L, L+1, 2L, 2^b-1}: the cofactored equation holds iff S = 0 mod L, whatever the message
  edsweep  (thorough tier) one octet of the genuine signature (first / last of R, first / top / last of S) or of the public key
           (first / last) takes each of the 255 other values
The thorough tier also uses the context lengths of VARIANTS_T and message names 'len:N' (length sweeps, _c04_base.message).
"""
import hashlib

from ..common import Acc, exc_site, short, seeded, asc
from ..ref import ec as REC
from . import _c04_base as B

NB = {"ed25519": 32, "ed448": 57}
_KEYS = None
_LIBPRIV = {}
_LIBPUB = {}
_SMALL = {}


def build_keys(acc):
    global _KEYS
    if _KEYS is not None:
        return _KEYS
    ks = {}
    for cv, nb in NB.items():
        for suffix in ("", "/2"):
            seed = seeded("c04/%s/seed%s" % (cv, suffix), nb)
            ks[cv + suffix] = {"name": cv + suffix, "curve": cv, "seed": seed, "pub": REC.ed_public(cv, seed)}
        small_order_points(cv)
    _KEYS = ks
    return ks


def keymat(kd):
    return {"name": kd["name"], "curve": kd["curve"], "seed": kd["seed"], "pub": kd["pub"]}


def libpriv(kd):
    from Crypto.PublicKey import ECC
    k = _LIBPRIV.get(kd["seed"])
    if k is None:
        k = _LIBPRIV[kd["seed"]] = ECC.construct(curve=kd["curve"], seed=kd["seed"])
    return k


def lib_input(cv, ph, msg):
    if not ph:
        return bytes(msg)
    if cv == "ed25519":
        from Crypto.Hash import SHA512
        return SHA512.new(bytes(msg))
    from Crypto.Hash import SHAKE256
    return SHAKE256.new(bytes(msg))


def ref_input(cv, ph, msg):
    return REC.ed_prehash(cv, msg) if ph else bytes(msg)


def input_unchanged(cv, ph, obj, msg):
    """(iv): SHA-512 object still gives the digest; the SHAKE256 object's NEXT read starts at offset 0"""
    if not ph:
        return True
    if cv == "ed25519":
        return obj.digest() == hashlib.sha512(bytes(msg)).digest()
    return obj.read(64) == hashlib.shake_256(bytes(msg)).digest(64)


def vname(ph, ctx):
    return "%s,ctx=%dB" % ("prehash" if ph else "pure", len(ctx))


# ---------------------------------------------------------------------------
# reference diagnosis
# ---------------------------------------------------------------------------
def point_reason(cv, enc):
    """None when enc is a valid RFC 8032 point encoding, else why not"""
    c = REC.CURVES[cv]
    nb = NB[cv]
    if len(enc) != nb:
        return "wrong-length"
    v = int.from_bytes(enc, "little")
    y = v & ((1 << (8 * nb - 1)) - 1)
    try:
        REC.ed_decode_point(c, enc)
        return None
    except ValueError:
        pass
    if y >= c.p:
        if cv == "ed448" and (y >> 448) and (y & ((1 << 448) - 1)) < c.p:
            return "last-octet-junk-bits"
        return "y-not-below-p"
    try:
        P = REC.ed_decode_point(c, (y).to_bytes(nb, "little"))          # same y, sign bit cleared
        if P[0] == 0:
            return "x0-with-sign-bit"
    except ValueError:
        pass
    return "not-on-curve"


def ed_diagnose(cv, pub, ph, ctx, msg, sig, with_equation=True):
    """-> (verdict 'accept'|'reject'|'n/e', first reason)"""
    nb = NB[cv]
    L = REC.CURVES[cv].order
    if len(sig) != 2 * nb:
        return "reject", "wrong-length"
    a = point_reason(cv, pub)
    if a:
        return "reject", "A-" + a
    r = point_reason(cv, sig[:nb])
    if r:
        return "reject", "R-" + r
    S = int.from_bytes(sig[nb:], "little")
    if S == L:
        return "reject", "S-equals-order"
    if S > L:
        return "reject", "S-above-order"
    if len(ctx) > 255:
        return "reject", "context-too-long"
    if not with_equation:
        return "n/e", None
    if not REC.eddsa_verify(cv, pub, ref_input(cv, ph, msg), sig, ctx, ph):
        return "reject", "equation-fails"
    return "accept", None


# ---------------------------------------------------------------------------
# sign / verify cases
# ---------------------------------------------------------------------------
def ed_sign_case(kd, ph, ctx, msg, acc):
    from Crypto.Signature import eddsa
    cv = kd["curve"]
    case = {"part": "ed-sign", "key": keymat(kd), "ph": ph, "ctx": ctx, "msg": msg}
    pre = "%s (%s), %d-byte message" % (cv, vname(ph, ctx), len(msg))
    acc.count("sign_calls")
    signer = eddsa.new(libpriv(kd), "rfc8032", context=ctx)
    obj = lib_input(cv, ph, msg)
    out = B.lib_outcome(signer.sign, obj)
    if out[0] in ("ValueError", "TypeError"):
        if len(ctx) <= 255:
            acc.violation("C04/eddsa/%s/sign-refuses-a-defined-signature" % cv,
                          pre + ": sign() raised %s (%s) although RFC 8032 defines the signature" % (out[0], out[1]), case)
        else:
            acc.observe("eddsa sign refuses (%s): %s, %s" % (out[0], cv, vname(ph, ctx)))
        return None
    if out[0] != "accept":
        acc.violation("C04/eddsa/%s/sign-raises/%s@%s" % (cv, out[0], exc_site(out[1])), pre + ": sign raised %s: %s" % (out[0], out[1]), case)
        return None
    acc.count("signatures_ok")
    sig = out[1]
    exp = REC.eddsa_sign(cv, kd["seed"], ref_input(cv, ph, msg), ctx, ph)
    if sig != exp or type(sig) is not bytes:
        acc.violation("C04/eddsa/%s/signature-differs-from-rfc8032" % cv,
                      pre + ": sign() = %s, RFC 8032 gives %s" % (short(sig), short(exp)), case)
        return sig
    out2 = B.lib_outcome(signer.sign, obj)
    if out2[0] != "accept" or out2[1] != sig:
        acc.violation("C04/eddsa/%s/repeated-sign-differs" % cv, pre + ": second sign() with the same %s gives %s"
                      % ("prehash object" if ph else "message", short(out2[1]) if out2[0] == "accept" else out2[0]), case)
    if not input_unchanged(cv, ph, obj, msg):
        acc.violation("C04/eddsa/%s/prehash-object-consumed-by-sign" % cv,
                      pre + ": after sign() the caller's %s no longer yields the prehash from the start"
                      % ("SHA-512 object" if cv == "ed25519" else "SHAKE256 object"), case)
    return sig


_SCRIPT = '''# stand-alone reproduction (needs only pycryptodome)
from Crypto.Signature import eddsa
from Crypto.Hash import SHA512, SHAKE256
pub = bytes.fromhex("%s")
msg = bytes.fromhex("%s")
sig = bytes.fromhex("%s")        # R = %s   S = %d
try:
    key = eddsa.import_public_key(pub)
    eddsa.new(key, "rfc8032", context=bytes.fromhex("%s")).verify(%s, sig)
    print("library: accepted")
except Exception as e:
    print("library:", type(e).__name__, e)
print("RFC 8032: %s")
'''


def _script(cv, pub, ph, ctx, msg, sig, exp):
    nb = NB[cv]
    inp = "msg" if not ph else ("SHA512.new(msg)" if cv == "ed25519" else "SHAKE256.new(msg)")
    return _SCRIPT % (bytes(pub).hex(), bytes(msg).hex(), bytes(sig).hex(), bytes(sig[:nb]).hex(),
                      int.from_bytes(sig[nb:], "little"), bytes(ctx).hex(), inp, exp)


def libpub(pub):
    """-> ('ok', key) | ('ValueError', e) | (<Exc>, e) ; cached"""
    from Crypto.Signature import eddsa
    r = _LIBPUB.get(pub)
    if r is None:
        r = B.lib_outcome(eddsa.import_public_key, pub)
        r = ("ok", r[1]) if r[0] == "accept" else r
        if len(_LIBPUB) > 4000:
            _LIBPUB.clear()
        _LIBPUB[pub] = r
    return r


def ed_verify_case(cv, pub, ph, ctx, msg, sig, tag, acc, demand=False, full=False, size=None):
    """one verification of (public key encoding, message, signature) -> (verdict | 'n/e', reason, library outcome)"""
    from Crypto.Signature import eddsa
    case = {"part": "ed-verify", "curve": cv, "pub": pub, "ph": ph, "ctx": ctx, "msg": msg, "sig": sig, "tag": tag,
            "demand": demand, "full": full}
    pre = "%s (%s), public key %s, %d-byte message, candidate '%s' %s" % (cv, vname(ph, ctx), short(pub, 120), len(msg), tag, short(sig, 240))
    k = libpub(bytes(pub))
    obj = None
    if k[0] == "ok":
        try:
            ver = eddsa.new(k[1], "rfc8032", context=ctx)
            obj = lib_input(cv, ph, msg)
            out = B.lib_outcome(ver.verify, obj, sig)
        except ValueError as e:
            out = ("ValueError", e)
    else:
        out = k
    res = out[0]
    verdict, reason = "n/e", None
    if res == "accept" or demand:
        verdict, reason = ed_diagnose(cv, pub, ph, ctx, msg, sig)
    elif full:
        S = int.from_bytes(sig[NB[cv]:], "little") if len(sig) == 2 * NB[cv] else -1
        verdict, reason = ed_diagnose(cv, pub, ph, ctx, msg, sig, with_equation=(S == 0))
    if res not in ("accept", "ValueError"):
        acc.violation("C04/eddsa/%s/verify-raises/%s@%s" % (cv, res, exc_site(out[1])),
                      pre + ": raised %s: %s (must be ValueError)" % (res, out[1]), case,
                      script=_script(cv, pub, ph, ctx, msg, sig, "not evaluated"))
    elif res == "accept":
        if verdict == "reject":
            acc.violation("C04/eddsa/%s/accepts-%s" % (cv, reason),
                          pre + ": accepted, RFC 8032 rejects it (%s)" % reason, case,
                          script=_script(cv, pub, ph, ctx, msg, sig, "invalid (%s)" % reason), size=size)
        out2 = B.lib_outcome(ver.verify, obj, sig)
        if out2[0] != "accept":
            acc.violation("C04/eddsa/%s/repeated-verify-differs" % cv,
                          pre + ": second verify() with the same %s gives %s" % ("prehash object" if ph else "message", out2[0]), case)
        if not input_unchanged(cv, ph, obj, msg):
            acc.violation("C04/eddsa/%s/prehash-object-consumed-by-verify" % cv,
                          pre + ": after verify() the caller's prehash object no longer yields the prehash from the start", case)
    elif verdict == "accept":
        if demand:
            acc.violation("C04/eddsa/%s/own-signature-rejected" % cv, pre + ": the signature made by sign() is refused by verify()", case,
                          script=_script(cv, pub, ph, ctx, msg, sig, "valid"))
        else:
            acc.observe("eddsa verify refuses a standard-valid (key, message, signature) that sign() does not emit: %s, %s"
                        % (cv, "crafted small-order A / R with S = 0 (the library refuses some small-order points)"
                           if tag.startswith("A=") else tag))
    return verdict, reason, res


def ed_context_limit_case(cv, acc):
    """contexts longer than 255 octets do not exist in RFC 8032: nothing may be signed or accepted under one, and the
    refusal (by new(), sign() or verify()) must be a ValueError; 255 octets must work"""
    from Crypto.Signature import eddsa
    kd = _KEYS[cv]
    case = {"part": "ed-context", "curve": cv}
    out = B.lib_outcome(eddsa.new, libpriv(kd), "rfc8032", bytes(256))
    if out[0] == "accept":
        o2 = B.lib_outcome(out[1].sign, b"m")
        o3 = B.lib_outcome(out[1].verify, b"m", REC.eddsa_sign(cv, kd["seed"], b"m", bytes(255), False))
        if o2[0] == "accept" or o3[0] == "accept":
            acc.violation("C04/eddsa/%s/context-of-256-octets-usable" % cv,
                          "%s: with a 256-octet context sign() gives %s and verify() gives %s; RFC 8032 contexts are at most 255 octets"
                          % (cv, short(o2[1]) if o2[0] == "accept" else o2[0], o3[0]), case)
        elif o2[0] != "ValueError" or o3[0] != "ValueError":
            acc.violation("C04/eddsa/%s/context-of-256-octets-raises-%s" % (cv, o2[0] if o2[0] != "ValueError" else o3[0]),
                          "%s: with a 256-octet context sign() raises %s and verify() raises %s (must be ValueError)" % (cv, o2[0], o3[0]), case)
        else:
            acc.observe("eddsa.new() accepts a 256-octet context; sign() and verify() then raise ValueError")
    elif out[0] != "ValueError":
        acc.violation("C04/eddsa/%s/context-of-256-octets-raises-%s" % (cv, out[0]),
                      "%s: eddsa.new(context=256 octets) raises %s (must be ValueError)" % (cv, out[0]), case)
    out = B.lib_outcome(eddsa.new, libpriv(kd), "rfc8032", bytes(255))
    if out[0] != "accept":
        acc.observe("eddsa.new(context=255 octets) raises %s" % out[0])
    acc.count("evaluations", 2)
    acc.seen("classes", ("eddsa", cv, "context-limit"))


# ---------------------------------------------------------------------------
# candidate alphabets
# ---------------------------------------------------------------------------
def small_order_points(cv):
    """all points of order dividing the cofactor, simplest first (reference arithmetic)"""
    if cv in _SMALL:
        return _SMALL[cv]
    c = REC.CURVES[cv]
    nb = NB[cv]
    gen = None
    for y in range(2, 400):
        try:
            P = REC.ed_decode_point(c, y.to_bytes(nb, "little"))
        except ValueError:
            continue
        T = REC.mul(c, c.order, P)
        o, Q = 1, T
        while not REC.is_neutral(c, Q) and o <= c.cofactor:
            Q = REC.add(c, Q, T)
            o += 1
        if o == c.cofactor:
            gen = T
            break
    pts = [(0, 1)]
    Q = gen
    while not REC.is_neutral(c, Q):
        pts.append(Q)
        Q = REC.add(c, Q, gen)
    assert len(pts) == c.cofactor and all(REC.on_curve(c, P) for P in pts)
    pts.sort(key=lambda P: (P[0] != 0, min(P[1], c.p - P[1]), P[1], P[0]))
    _SMALL[cv] = pts
    return pts


def point_encodings(cv, P, junk=(0x01, 0x40, 0x7F)):
    """(tag, encoding) of a point: canonical first, then the encodings RFC 8032 does not allow"""
    c = REC.CURVES[cv]
    nb = NB[cv]
    x, y = P
    can = REC.ed_encode_point(c, P)
    out = [("canonical", can)]
    top = 1 << (8 * nb - 1)
    if x == 0:
        out.append(("x=0 with sign bit", (y | top).to_bytes(nb, "little")))
    lim = 1 << (255 if cv == "ed25519" else 448)
    if y + c.p < lim:
        out.append(("y+p", (y + c.p).to_bytes(nb, "little")))
        out.append(("y+p with sign bit", (y + c.p | top).to_bytes(nb, "little")))
    if cv == "ed448":
        for j in junk:
            b = bytearray(can)
            b[56] |= j
            out.append(("last octet |= %02x" % j, bytes(b)))
    return out


def s_values(cv):
    L = REC.CURVES[cv].order
    nb = NB[cv]
    top = (1 << (253 if cv == "ed25519" else 447)) - 1
    return [("0", 0), ("L", L), ("1", 1), ("L-1", L - 1), ("L+1", L + 1), ("2L", 2 * L), ("2^b-1", top),
            ("all-ff", 256 ** nb - 1)]


def genuine_candidates(cv, sig, flips=None):
    nb = NB[cv]
    L = REC.CURVES[cv].order
    R, S = sig[:nb], int.from_bytes(sig[nb:], "little")
    if flips is None or flips[0] == 0:
        yield "authentic", sig
        for tag, c in (("empty", b""), ("truncated-last", sig[:-1]), ("truncated-first", sig[1:]), ("appended-00", sig + b"\x00"),
                       ("R-only", R), ("doubled", sig + sig)):
            yield tag, c
        j = 1
        while S + j * L < 256 ** nb and j <= 3:
            yield "S+%dL" % j, R + (S + j * L).to_bytes(nb, "little")
            j += 1
        jm = (256 ** nb - 1 - S) // L
        if jm > 3:
            yield "S+%dL (largest that fits)" % jm, R + (S + jm * L).to_bytes(nb, "little")
        for tag, v in (("S=0", 0), ("S=L-S", L - S), ("S=L", L), ("S=S+1", S + 1), ("S=all-ff", 256 ** nb - 1)):
            yield tag, R + v.to_bytes(nb, "little")
        yield "R sign bit flipped", R[:-1] + bytes([R[-1] ^ 0x80]) + sig[nb:]
        yield "R and S swapped", sig[nb:] + R
        yield "S big-endian", R + sig[nb:][::-1]
    if flips is not None:
        part, nparts = flips
        for bit in range(8 * len(sig)):
            if bit % nparts == part:
                yield "bit-flip", B.flip(sig, bit)


def pubkey_variants(cv, pub):
    """re-encodings of a genuine public key that RFC 8032 does not accept as that key"""
    nb = NB[cv]
    yield "sign bit flipped", pub[:-1] + bytes([pub[-1] ^ 0x80])
    yield "truncated", pub[:-1]
    yield "extended", pub + b"\x00"
    if cv == "ed448":
        for j in (0x01, 0x02, 0x04, 0x08, 0x10, 0x20, 0x40, 0x7F):
            yield "last octet |= %02x" % j, pub[:-1] + bytes([pub[-1] | j])


VARIANTS = ((False, b""), (True, b""), (False, b"c"), (True, b"c"), (False, asc(255, 1)), (True, asc(255, 1)))
# thorough tier: more context lengths (2, 127, 128, 254 octets; the length travels in one octet of dom2 / dom4); the first six
# entries are VARIANTS, so a variant index means the same in both tiers
VARIANTS_T = VARIANTS + tuple((ph, asc(n, 1)) for n in (2, 127, 128, 254) for ph in (False, True))


def octet_sweep(cv, pub, sig, which):
    """(tag, public key, signature): ONE octet of the genuine signature or of the public key replaced by every other value
    (thorough tier).  S-top is the highest octet of S that the order reaches (Ed448: octet 55; octet 56 must be zero)"""
    nb = NB[cv]
    where = {"R-first": ("sig", 0), "R-last": ("sig", nb - 1), "S-first": ("sig", nb), "S-top": ("sig", 2 * nb - (2 if cv == "ed448" else 1)),
             "S-last": ("sig", 2 * nb - 1), "A-first": ("pub", 0), "A-last": ("pub", nb - 1)}
    what, off = where[which]
    base = sig if what == "sig" else pub
    for v in range(256):
        if v != base[off]:
            c = base[:off] + bytes([v]) + base[off + 1:]
            yield "octet/%s@%02x" % (which, v), (pub if what == "sig" else c), (c if what == "sig" else sig)


SWEEPS = ("R-first", "R-last", "S-first", "S-top", "S-last", "A-first", "A-last")


# ---------------------------------------------------------------------------
# worker
# ---------------------------------------------------------------------------
def _tally(acc, cv, ph, ctx, tag, verdict, reason, res):
    acc.count("evaluations")
    acc.count("ed_%s" % ("accept" if res == "accept" else "reject" if res == "ValueError" else "other"))
    acc.seen("classes", ("eddsa", cv, ph, min(len(ctx), 2), tag.split("@")[0], verdict, reason, res))


def worker(shards):
    acc = Acc()
    keys = _KEYS
    msgs = B.messages()
    last = None
    for sh in shards:
        kind = sh[0]
        cv = sh[1]
        kd = keys[cv]
        nb = NB[cv]
        if kind == "sign":
            # ("sign", curve, variant index, message names)
            _, _, vi, mnames = sh
            ph, ctx = VARIANTS_T[vi]
            for mn in mnames:
                msg = B.message(mn, msgs)
                sig = ed_sign_case(kd, ph, ctx, msg, acc)
                acc.seen("sign_cfgs", (cv, ph, len(ctx), mn))
                acc.seen("ed_ctx_lens", (cv, ph, len(ctx)))
                if sig is None:
                    continue
                T = lambda tag, *a, **kw: _tally(acc, cv, ph, ctx, tag, *ed_verify_case(cv, *a, **kw))  # noqa
                T("authentic", kd["pub"], ph, ctx, msg, sig, "authentic", acc, demand=True)
                T("other-message", kd["pub"], ph, ctx, B.other_message(msg), sig, "other-message", acc)
                T("other-key", keys[cv + "/2"]["pub"], ph, ctx, msg, sig, "other-key", acc)
                T("other-context", kd["pub"], ph, ctx + b"x" if len(ctx) < 255 else ctx[:-1], msg, sig, "other-context", acc)
                T("other-prehash-flag", kd["pub"], not ph, ctx, msg, sig, "other-prehash-flag", acc)
                if ph:
                    T("prehash-as-message", kd["pub"], False, ctx, REC.ed_prehash(cv, msg), sig, "prehash-as-message", acc)
            last = {"part": "eddsa-sign", "curve": cv, "variant": vname(ph, ctx), "messages": list(mnames)}
        elif kind == "genuine":
            # ("genuine", curve, variant index, message, flips|None)
            _, _, vi, mn, flips = sh
            ph, ctx = VARIANTS_T[vi]
            msg = B.message(mn, msgs)
            acc.seen("ed_genuine_cfgs", (cv, ph, len(ctx), mn, bool(flips)))
            sig = ed_sign_case(kd, ph, ctx, msg, acc)        # the library's own signature (compared with the reference)
            if sig is None:
                continue
            n = 0
            for tag, cand in genuine_candidates(cv, sig, tuple(flips) if flips else None):
                _tally(acc, cv, ph, ctx, tag, *ed_verify_case(cv, kd["pub"], ph, ctx, msg, cand, tag, acc, demand=(tag == "authentic")))
                n += 1
            if not flips or flips[0] == 0:
                for pi, (tag, pub) in enumerate(pubkey_variants(cv, kd["pub"])):
                    _tally(acc, cv, ph, ctx, "pubkey: " + tag.split("=")[0],
                           *ed_verify_case(cv, pub, ph, ctx, msg, sig, "genuine signature, public key re-encoded: " + tag, acc,
                                           size=vi * 100 + pi))
                    n += 1
            last = {"part": "eddsa-genuine-candidates", "curve": cv, "variant": vname(ph, ctx), "message": mn,
                    "bit_flip_slice": list(flips) if flips else None, "candidates": n}
        elif kind == "crafted":
            # ("crafted", curve, variant index, shape 'star'|'product', A-slice part, nparts)
            _, _, vi, shape, part, nparts = sh[:6]
            ph, ctx = VARIANTS_T[vi]
            mn = sh[6] if len(sh) > 6 else "asc33"          # optional 7th element: the message (thorough tier)
            msg = B.message(mn, msgs)
            acc.seen("ed_crafted_cfgs", (cv, ph, len(ctx), mn))
            pts = small_order_points(cv)
            encs = []
            for pi, P in enumerate(pts):
                for tag, e in point_encodings(cv, P):
                    encs.append(("P%d(order %s) %s" % (pi, _order_of(cv, P), tag), e, tag == "canonical", pi))
            neutral = encs[0]
            pairs = []
            for a in encs:
                for r in encs:
                    if shape == "product" or (a[2] and r[2]) or a is neutral or r is neutral:
                        pairs.append((a, r))
            n = 0
            for idx, (a, r) in enumerate(pairs):
                if idx % nparts != part:
                    continue
                for si, (stag, S) in enumerate(s_values(cv)):
                    sig = r[1] + S.to_bytes(nb, "little")
                    tag = "A=%s R=%s S=%s" % (a[0], r[0], stag)
                    v = ed_verify_case(cv, a[1], ph, ctx, msg, sig, tag, acc, full=True, size=1000 + vi * 1000000 + idx * 10 + si)
                    acc.count("evaluations")
                    acc.count("crafted_cases")
                    acc.count("ed_%s" % ("accept" if v[2] == "accept" else "reject" if v[2] == "ValueError" else "other"))
                    acc.seen("classes", ("eddsa-crafted", cv, ph, a[0].split(") ")[1], r[0].split(") ")[1], stag, v[0], v[1], v[2]))
                    n += 1
            last = {"part": "eddsa-crafted-small-order", "curve": cv, "variant": vname(ph, ctx), "shape": shape,
                    "A_encodings": len(encs), "pairs": len(pairs), "cases_in_shard": n}
        elif kind == "edsweep":
            # ("edsweep", curve, variant index, message, position names)
            _, _, vi, mn, which = sh
            ph, ctx = VARIANTS_T[vi]
            msg = B.message(mn, msgs)
            sig = ed_sign_case(kd, ph, ctx, msg, acc)
            if sig is None:
                continue
            n = 0
            for name in which:
                for tag, pub, cand in octet_sweep(cv, kd["pub"], sig, name):
                    _tally(acc, cv, ph, ctx, tag, *ed_verify_case(cv, pub, ph, ctx, msg, cand, tag, acc))
                    acc.count("octet_sweep_cases")
                    n += 1
                acc.seen("ed_sweep_cfgs", (cv, ph, len(ctx), mn, name))
            last = {"part": "eddsa-octet-sweep", "curve": cv, "variant": vname(ph, ctx), "message": mn, "positions": list(which),
                    "candidates": n}
        elif kind == "context":
            ed_context_limit_case(cv, acc)
    if last:
        acc.sample(last)
    return acc


def _order_of(cv, P):
    c = REC.CURVES[cv]
    o, Q = 1, P
    while not REC.is_neutral(c, Q):
        Q = REC.add(c, Q, P)
        o += 1
    return o


def replay(case, acc):
    p = case["part"]
    if p == "ed-sign":
        ed_sign_case(case["key"], case["ph"], case["ctx"], case["msg"], acc)
    elif p == "ed-verify":
        ed_verify_case(case["curve"], case["pub"], case["ph"], case["ctx"], case["msg"], case["sig"], case["tag"], acc,
                       demand=case.get("demand", False), full=case.get("full", False))
    elif p == "ed-context":
        global _KEYS
        if _KEYS is None:
            build_keys(acc)
        ed_context_limit_case(case["curve"], acc)
    else:
        acc.error("unknown replay part %r" % p)
