"""Reference AES (FIPS 197), pure Python, standard library only.

All tables (S-box, inverse S-box, T-tables) are *computed* at import time from
the GF(2^8) definition in FIPS 197 section 4 / 5.1.1, nothing is pasted.

State layout: four 32-bit big-endian column words, i.e. word c holds the bytes
s[0,c] s[1,c] s[2,c] s[3,c] from most to least significant.

Encryption uses the classic T-table formulation of SubBytes+ShiftRows+MixColumns;
decryption uses the "equivalent inverse cipher" of FIPS 197 section 5.3.5
(InvMixColumns applied to the middle round keys).
"""

import struct

__all__ = ["AES", "selftest"]


# --------------------------------------------------------------------------
# GF(2^8) arithmetic, modulus x^8 + x^4 + x^3 + x + 1  (0x11B)
# --------------------------------------------------------------------------

def _xtime(a):
    a <<= 1
    if a & 0x100:
        a ^= 0x11B
    return a


def _gmul(a, b):
    r = 0
    while b:
        if b & 1:
            r ^= a
        a = _xtime(a)
        b >>= 1
    return r


def _build_sbox():
    # multiplicative inverse via exhaustive search-free method: log/antilog
    # tables with generator 3.
    exp = [0] * 255
    log = [0] * 256
    x = 1
    for i in range(255):
        exp[i] = x
        log[x] = i
        x = _gmul(x, 3)
    sbox = [0] * 256
    for a in range(256):
        inv = 0 if a == 0 else exp[(255 - log[a]) % 255]
        # affine transformation: b'_i = b_i ^ b_(i+4) ^ b_(i+5) ^ b_(i+6) ^ b_(i+7) ^ c_i
        b = inv
        r = 0
        for i in range(8):
            bit = ((b >> i) ^ (b >> ((i + 4) & 7)) ^ (b >> ((i + 5) & 7)) ^
                   (b >> ((i + 6) & 7)) ^ (b >> ((i + 7) & 7)) ^ (0x63 >> i)) & 1
            r |= bit << i
        sbox[a] = r
    inv_sbox = [0] * 256
    for a in range(256):
        inv_sbox[sbox[a]] = a
    return sbox, inv_sbox


_S, _SI = _build_sbox()


def _ror8(w):
    return ((w >> 8) | (w << 24)) & 0xFFFFFFFF


def _build_tables():
    te0 = [0] * 256
    td0 = [0] * 256
    for x in range(256):
        s = _S[x]
        s2 = _xtime(s)
        s3 = s2 ^ s
        # column (02 01 01 03)^T * s
        te0[x] = (s2 << 24) | (s << 16) | (s << 8) | s3
        v = _SI[x]
        # column (0e 09 0d 0b)^T * v
        td0[x] = ((_gmul(v, 14) << 24) | (_gmul(v, 9) << 16) |
                  (_gmul(v, 13) << 8) | _gmul(v, 11))
    te1 = [_ror8(w) for w in te0]
    te2 = [_ror8(w) for w in te1]
    te3 = [_ror8(w) for w in te2]
    td1 = [_ror8(w) for w in td0]
    td2 = [_ror8(w) for w in td1]
    td3 = [_ror8(w) for w in td2]
    return (te0, te1, te2, te3), (td0, td1, td2, td3)


(_TE0, _TE1, _TE2, _TE3), (_TD0, _TD1, _TD2, _TD3) = _build_tables()

# Rcon[i] = x^(i-1) in GF(2^8), placed in the most significant byte
_RCON = []
_r = 1
for _i in range(14):
    _RCON.append(_r << 24)
    _r = _xtime(_r)
del _r, _i

_pack4 = struct.Struct(">4I").pack
_unpack4 = struct.Struct(">4I").unpack


def _sub_word(w):
    return ((_S[w >> 24] << 24) | (_S[(w >> 16) & 255] << 16) |
            (_S[(w >> 8) & 255] << 8) | _S[w & 255])


def _inv_mix_word(w):
    # InvMixColumns on one column == Td0[S[b0]] ^ Td1[S[b1]] ^ ...
    return (_TD0[_S[w >> 24]] ^ _TD1[_S[(w >> 16) & 255]] ^
            _TD2[_S[(w >> 8) & 255]] ^ _TD3[_S[w & 255]])


def _expand_key(key):
    nk = len(key) // 4
    nr = nk + 6
    w = list(struct.unpack(">%dI" % nk, key))
    for i in range(nk, 4 * (nr + 1)):
        t = w[i - 1]
        if i % nk == 0:
            t = _sub_word(((t << 8) | (t >> 24)) & 0xFFFFFFFF) ^ _RCON[i // nk - 1]
        elif nk > 6 and i % nk == 4:
            t = _sub_word(t)
        w.append(w[i - nk] ^ t)
    return nr, w


class AES:
    block_size = 16

    def __init__(self, key):
        key = bytes(key)
        if len(key) not in (16, 24, 32):
            raise ValueError("AES key must be 16, 24 or 32 bytes long")
        self.key_size = len(key)
        nr, w = _expand_key(key)
        self.rounds = nr
        self._ek = tuple(w)
        # decryption schedule for the equivalent inverse cipher:
        # round keys in reverse order, InvMixColumns on all but first/last.
        dk = []
        for r in range(nr, -1, -1):
            rk = w[4 * r:4 * r + 4]
            if 0 < r < nr:
                rk = [_inv_mix_word(x) for x in rk]
            dk.extend(rk)
        self._dk = tuple(dk)

    def encrypt_block(self, b):
        if len(b) != 16:
            raise ValueError("AES block must be 16 bytes")
        rk = self._ek
        te0 = _TE0; te1 = _TE1; te2 = _TE2; te3 = _TE3
        s0, s1, s2, s3 = _unpack4(b)
        s0 ^= rk[0]; s1 ^= rk[1]; s2 ^= rk[2]; s3 ^= rk[3]
        k = 4
        for _ in range(self.rounds - 1):
            t0 = te0[s0 >> 24] ^ te1[(s1 >> 16) & 255] ^ te2[(s2 >> 8) & 255] ^ te3[s3 & 255] ^ rk[k]
            t1 = te0[s1 >> 24] ^ te1[(s2 >> 16) & 255] ^ te2[(s3 >> 8) & 255] ^ te3[s0 & 255] ^ rk[k + 1]
            t2 = te0[s2 >> 24] ^ te1[(s3 >> 16) & 255] ^ te2[(s0 >> 8) & 255] ^ te3[s1 & 255] ^ rk[k + 2]
            t3 = te0[s3 >> 24] ^ te1[(s0 >> 16) & 255] ^ te2[(s1 >> 8) & 255] ^ te3[s2 & 255] ^ rk[k + 3]
            s0 = t0; s1 = t1; s2 = t2; s3 = t3
            k += 4
        S = _S
        t0 = ((S[s0 >> 24] << 24) | (S[(s1 >> 16) & 255] << 16) | (S[(s2 >> 8) & 255] << 8) | S[s3 & 255]) ^ rk[k]
        t1 = ((S[s1 >> 24] << 24) | (S[(s2 >> 16) & 255] << 16) | (S[(s3 >> 8) & 255] << 8) | S[s0 & 255]) ^ rk[k + 1]
        t2 = ((S[s2 >> 24] << 24) | (S[(s3 >> 16) & 255] << 16) | (S[(s0 >> 8) & 255] << 8) | S[s1 & 255]) ^ rk[k + 2]
        t3 = ((S[s3 >> 24] << 24) | (S[(s0 >> 16) & 255] << 16) | (S[(s1 >> 8) & 255] << 8) | S[s2 & 255]) ^ rk[k + 3]
        return _pack4(t0, t1, t2, t3)

    def decrypt_block(self, b):
        if len(b) != 16:
            raise ValueError("AES block must be 16 bytes")
        rk = self._dk
        td0 = _TD0; td1 = _TD1; td2 = _TD2; td3 = _TD3
        s0, s1, s2, s3 = _unpack4(b)
        s0 ^= rk[0]; s1 ^= rk[1]; s2 ^= rk[2]; s3 ^= rk[3]
        k = 4
        for _ in range(self.rounds - 1):
            t0 = td0[s0 >> 24] ^ td1[(s3 >> 16) & 255] ^ td2[(s2 >> 8) & 255] ^ td3[s1 & 255] ^ rk[k]
            t1 = td0[s1 >> 24] ^ td1[(s0 >> 16) & 255] ^ td2[(s3 >> 8) & 255] ^ td3[s2 & 255] ^ rk[k + 1]
            t2 = td0[s2 >> 24] ^ td1[(s1 >> 16) & 255] ^ td2[(s0 >> 8) & 255] ^ td3[s3 & 255] ^ rk[k + 2]
            t3 = td0[s3 >> 24] ^ td1[(s2 >> 16) & 255] ^ td2[(s1 >> 8) & 255] ^ td3[s0 & 255] ^ rk[k + 3]
            s0 = t0; s1 = t1; s2 = t2; s3 = t3
            k += 4
        S = _SI
        t0 = ((S[s0 >> 24] << 24) | (S[(s3 >> 16) & 255] << 16) | (S[(s2 >> 8) & 255] << 8) | S[s1 & 255]) ^ rk[k]
        t1 = ((S[s1 >> 24] << 24) | (S[(s0 >> 16) & 255] << 16) | (S[(s3 >> 8) & 255] << 8) | S[s2 & 255]) ^ rk[k + 1]
        t2 = ((S[s2 >> 24] << 24) | (S[(s1 >> 16) & 255] << 16) | (S[(s0 >> 8) & 255] << 8) | S[s3 & 255]) ^ rk[k + 2]
        t3 = ((S[s3 >> 24] << 24) | (S[(s2 >> 16) & 255] << 16) | (S[(s1 >> 8) & 255] << 8) | S[s0 & 255]) ^ rk[k + 3]
        return _pack4(t0, t1, t2, t3)


# --------------------------------------------------------------------------
# Straightforward (slow) FIPS-197 round functions, used only by selftest() to
# check the T-table implementation against the textbook description.
# --------------------------------------------------------------------------

def _slow_encrypt(key, block):
    nr, w = _expand_key(key)
    st = [[block[r + 4 * c] for c in range(4)] for r in range(4)]  # st[r][c]

    def add_round_key(rnd):
        for c in range(4):
            word = w[4 * rnd + c]
            for r in range(4):
                st[r][c] ^= (word >> (24 - 8 * r)) & 255

    add_round_key(0)
    for rnd in range(1, nr + 1):
        for r in range(4):
            for c in range(4):
                st[r][c] = _S[st[r][c]]
        for r in range(1, 4):
            st[r] = st[r][r:] + st[r][:r]
        if rnd != nr:
            for c in range(4):
                a = [st[r][c] for r in range(4)]
                st[0][c] = _gmul(a[0], 2) ^ _gmul(a[1], 3) ^ a[2] ^ a[3]
                st[1][c] = a[0] ^ _gmul(a[1], 2) ^ _gmul(a[2], 3) ^ a[3]
                st[2][c] = a[0] ^ a[1] ^ _gmul(a[2], 2) ^ _gmul(a[3], 3)
                st[3][c] = _gmul(a[0], 3) ^ a[1] ^ a[2] ^ _gmul(a[3], 2)
        add_round_key(rnd)
    return bytes(st[r][c] for c in range(4) for r in range(4))


def selftest():
    h = bytes.fromhex
    # S-box spot checks (FIPS 197 Figure 7)
    assert _S[0x00] == 0x63 and _S[0x53] == 0xED and _S[0xFF] == 0x16
    assert _SI[0x63] == 0x00
    # FIPS 197 Appendix B
    a = AES(h("2b7e151628aed2a6abf7158809cf4f3c"))
    pt = h("3243f6a8885a308d313198a2e0370734")
    ct = h("3925841d02dc09fbdc118597196a0b32")
    assert a.encrypt_block(pt) == ct
    assert a.decrypt_block(ct) == pt
    # FIPS 197 Appendix C.1 / C.2 / C.3
    pt = h("00112233445566778899aabbccddeeff")
    vectors = [
        ("000102030405060708090a0b0c0d0e0f",
         "69c4e0d86a7b0430d8cdb78070b4c55a"),
        ("000102030405060708090a0b0c0d0e0f1011121314151617",
         "dda97ca4864cdfe06eaf70a0ec0d7191"),
        ("000102030405060708090a0b0c0d0e0f101112131415161718191a1b1c1d1e1f",
         "8ea2b7ca516745bfeafc49904b496089"),
    ]
    for k, c in vectors:
        a = AES(h(k))
        assert a.encrypt_block(pt) == h(c), k
        assert a.decrypt_block(h(c)) == pt, k
        assert _slow_encrypt(h(k), pt) == h(c), k
    # SP 800-38A F.1.1 ECB-AES128 block 1
    a = AES(h("2b7e151628aed2a6abf7158809cf4f3c"))
    assert a.encrypt_block(h("6bc1bee22e409f96e93d7e117393172a")) == \
        h("3ad77bb40d7a3660a89ecaf32466ef97")
    # key expansion, FIPS 197 A.1: w[43] = b6630ca6
    assert _expand_key(h("2b7e151628aed2a6abf7158809cf4f3c"))[1][43] == 0xB6630CA6
    # T-table vs textbook rounds on a deterministic pseudo-random sweep
    import hashlib
    for i in range(30):
        d = hashlib.sha512(b"aes-selftest-%d" % i).digest()
        for kl in (16, 24, 32):
            key, blk = d[:kl], d[32:48]
            a = AES(key)
            c = a.encrypt_block(blk)
            assert c == _slow_encrypt(key, blk)
            assert a.decrypt_block(c) == blk
    for bad in (0, 15, 17, 31, 33):
        try:
            AES(bytes(bad))
        except ValueError:
            pass
        else:
            raise AssertionError("bad key length accepted")


if __name__ == "__main__":
    selftest()
    print("OK")
