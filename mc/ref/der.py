"""Strict DER (ITU-T X.690, clauses 8, 10, 11) reference parser / encoder.

Pure Python, standard library only.  The parser accepts *only* DER: every
deviation raises DerError (a ValueError):

  * identifier octets: only the low-tag-number form (tag number 0..30);
    the high-tag-number form (number bits 11111) -> DerError("unsupported ...")
  * length octets: definite form only (0x80 = indefinite -> error), 0xFF
    reserved, long form must be minimal (no leading zero octet, not used for
    lengths < 128)                                        [X.690 10.1]
  * length larger than the available data, truncated header
  * constructed encodings must be filled exactly by their children
  * universal class:  tag number 0 (end-of-contents) is rejected;
    BOOLEAN/INTEGER/NULL/OID/ENUMERATED/REAL/RELATIVE-OID and ALL string and
    time types must be primitive (10.2); SEQUENCE/SET must be constructed;
    BOOLEAN is one octet 00 or FF (11.1); INTEGER/ENUMERATED minimal (8.3.2);
    NULL empty (8.8); OBJECT IDENTIFIER well formed and minimal (8.19.2);
    BIT STRING unused-bits octet 0..7, zero when empty, unused bits zero
    (8.6.2, 11.2.1)
  * parse()/parse_exact(): no trailing bytes after the top-level element

Not checked (needs a schema): SET vs SET OF ordering (helper
``set_of_is_sorted``), DEFAULT-value omission, character-set restrictions of
string types, time formats.

Node = namedtuple (tag, constructed, value, start, end)
    tag          identifier octet as int (class and P/C bit included)
    constructed  bool (bit 6 of tag)
    value        bytes (primitive) or list of Node (constructed)
    start, end   offsets of the whole TLV in the buffer given to parse()
plus properties  .cls (0..3), .number (0..30), .content_start
"""

from collections import namedtuple

__all__ = [
    "DerError", "Node", "parse", "parse_exact", "parse_prefix", "reencode",
    "encode_length", "encode_tlv", "encode_integer", "decode_integer",
    "encode_oid", "decode_oid", "encode_sequence", "encode_set_of",
    "encode_bitstring", "decode_bitstring", "encode_octet_string",
    "encode_null", "encode_boolean", "encode_explicit", "encode_implicit",
    "set_of_is_sorted",
    "read_rsa_private_pkcs1", "read_rsa_public_pkcs1", "read_spki",
    "read_pkcs8", "read_ec_private_rfc5915", "read_dsa_params",
    "read_dsa_private_openssl", "read_ecdsa_sig", "read_digest_info",
]


class DerError(ValueError):
    pass


T_BOOLEAN, T_INTEGER, T_BITSTRING, T_OCTETSTRING, T_NULL, T_OID = 1, 2, 3, 4, 5, 6
T_ENUMERATED, T_SEQUENCE, T_SET = 10, 0x30, 0x31

# universal tag numbers that DER requires to be primitive / constructed
_UNIV_PRIMITIVE = frozenset([1, 2, 3, 4, 5, 6, 7, 9, 10, 12, 13, 14,
                             18, 19, 20, 21, 22, 23, 24, 25, 26, 27, 28, 29, 30])
_UNIV_CONSTRUCTED = frozenset([8, 11, 16, 17])     # EXTERNAL, EMBEDDED PDV, SEQUENCE, SET


class Node(namedtuple("Node", "tag constructed value start end")):
    __slots__ = ()

    @property
    def cls(self):
        return self.tag >> 6

    @property
    def number(self):
        return self.tag & 0x1F

    @property
    def children(self):
        if not self.constructed:
            raise DerError("primitive node has no children")
        return self.value

    @property
    def content(self):
        if self.constructed:
            return b"".join(reencode(c) for c in self.value)
        return self.value


# ------------------------------------------------------------------ parsing

def _parse_at(data, pos, end, validate):
    start = pos
    if pos >= end:
        raise DerError("truncated: no identifier octet at offset %d" % pos)
    tag = data[pos]
    pos += 1
    if tag & 0x1F == 0x1F:
        raise DerError("unsupported high-tag-number form at offset %d" % start)
    if pos >= end:
        raise DerError("truncated: no length octet at offset %d" % pos)
    first = data[pos]
    pos += 1
    if first < 0x80:
        length = first
    elif first == 0x80:
        raise DerError("indefinite length at offset %d" % (pos - 1))
    elif first == 0xFF:
        raise DerError("reserved length octet 0xFF at offset %d" % (pos - 1))
    else:
        nlen = first & 0x7F
        if pos + nlen > end:
            raise DerError("truncated length octets at offset %d" % pos)
        if data[pos] == 0:
            raise DerError("non-minimal length (leading zero) at offset %d" % pos)
        length = int.from_bytes(data[pos:pos + nlen], "big")
        if length < 0x80:
            raise DerError("non-minimal length (long form for %d) at offset %d"
                           % (length, pos))
        pos += nlen
    if length > end - pos:
        raise DerError("length %d exceeds available data (%d) at offset %d"
                       % (length, end - pos, start))
    cend = pos + length
    constructed = bool(tag & 0x20)
    if validate and tag >> 6 == 0:
        num = tag & 0x1F
        if num == 0:
            raise DerError("universal tag 0 (end-of-contents) at offset %d" % start)
        if constructed and num in _UNIV_PRIMITIVE:
            raise DerError("constructed encoding of universal type %d at offset %d"
                           % (num, start))
        if not constructed and num in _UNIV_CONSTRUCTED:
            raise DerError("primitive encoding of universal type %d at offset %d"
                           % (num, start))
    if constructed:
        children = []
        while pos < cend:
            child = _parse_at(data, pos, cend, validate)
            children.append(child)
            pos = child.end
        value = children
    else:
        value = bytes(data[pos:cend])
        if validate and tag >> 6 == 0:
            _validate_universal(tag & 0x1F, value, start)
    return Node(tag, constructed, value, start, cend)


def _validate_universal(num, content, start):
    try:
        if num == T_BOOLEAN:
            if content not in (b"\x00", b"\xff"):
                raise DerError("BOOLEAN must be one octet 00 or FF")
        elif num in (T_INTEGER, T_ENUMERATED):
            decode_integer(content)
        elif num == T_NULL:
            if content:
                raise DerError("NULL with content")
        elif num == T_OID:
            decode_oid(content)
        elif num == T_BITSTRING:
            decode_bitstring(content)
    except DerError as e:
        raise DerError("%s (element at offset %d)" % (e, start))


def parse_prefix(data, validate=True):
    """Parse one DER element at the start of data -> (node, rest_bytes)."""
    data = bytes(data)
    node = _parse_at(data, 0, len(data), validate)
    return node, data[node.end:]


def parse_exact(data, validate=True):
    """Parse data as exactly one DER element (no trailing bytes)."""
    data = bytes(data)
    node = _parse_at(data, 0, len(data), validate)
    if node.end != len(data):
        raise DerError("%d trailing byte(s) after top-level element"
                       % (len(data) - node.end))
    return node


parse = parse_exact


# ------------------------------------------------------------------ encoding

def encode_length(n):
    if n < 0:
        raise ValueError("negative length")
    if n < 0x80:
        return bytes([n])
    b = n.to_bytes((n.bit_length() + 7) // 8, "big")
    if len(b) > 126:
        raise ValueError("length too large")
    return bytes([0x80 | len(b)]) + b


def encode_tlv(tag, content):
    if not 0 <= tag <= 0xFF or tag & 0x1F == 0x1F:
        raise ValueError("only single-octet identifiers (tag number 0..30)")
    content = bytes(content)
    return bytes([tag]) + encode_length(len(content)) + content


def reencode(node):
    """Canonical serialisation of a Node tree; reencode(parse(x)) == x."""
    if node.constructed:
        return encode_tlv(node.tag, b"".join(reencode(c) for c in node.value))
    return encode_tlv(node.tag, node.value)


def _int_content(v):
    if v == 0:
        return b"\x00"
    if v > 0:
        return v.to_bytes(v.bit_length() // 8 + 1, "big")
    # negative: smallest n with -2^(8n-1) <= v
    n = ((-v - 1).bit_length()) // 8 + 1
    return v.to_bytes(n, "big", signed=True)


def encode_integer(v):
    return encode_tlv(T_INTEGER, _int_content(v))


def decode_integer(content):
    """Two's complement big-endian, minimal (X.690 8.3.2)."""
    content = bytes(content)
    if not content:
        raise DerError("INTEGER with empty content")
    if len(content) > 1:
        if content[0] == 0x00 and content[1] < 0x80:
            raise DerError("INTEGER not minimal (redundant leading 00)")
        if content[0] == 0xFF and content[1] >= 0x80:
            raise DerError("INTEGER not minimal (redundant leading FF)")
    return int.from_bytes(content, "big", signed=True)


def _oid_content(dotted):
    try:
        arcs = [int(x) for x in dotted.split(".")]
    except ValueError:
        raise ValueError("bad OID string %r" % (dotted,))
    if len(arcs) < 2 or any(a < 0 for a in arcs):
        raise ValueError("bad OID %r" % (dotted,))
    if arcs[0] > 2 or (arcs[0] < 2 and arcs[1] > 39):
        raise ValueError("bad OID root arcs %r" % (dotted,))
    out = bytearray()
    for sub in [arcs[0] * 40 + arcs[1]] + arcs[2:]:
        chunk = [sub & 0x7F]
        sub >>= 7
        while sub:
            chunk.append(0x80 | (sub & 0x7F))
            sub >>= 7
        out += bytes(reversed(chunk))
    return bytes(out)


def encode_oid(dotted):
    return encode_tlv(T_OID, _oid_content(dotted))


def decode_oid(content):
    """OID content octets -> dotted string (X.690 8.19), strict."""
    content = bytes(content)
    if not content:
        raise DerError("OID with empty content")
    if content[-1] & 0x80:
        raise DerError("OID truncated (last octet has continuation bit)")
    subs = []
    val = 0
    fresh = True
    for b in content:
        if fresh and b == 0x80:
            raise DerError("OID subidentifier not minimal (leading 0x80)")
        val = (val << 7) | (b & 0x7F)
        if b & 0x80:
            fresh = False
        else:
            subs.append(val)
            val = 0
            fresh = True
    first = subs[0]
    if first < 40:
        arcs = [0, first]
    elif first < 80:
        arcs = [1, first - 40]
    else:
        arcs = [2, first - 80]
    arcs += subs[1:]
    return ".".join(str(a) for a in arcs)


def encode_sequence(items):
    return encode_tlv(T_SEQUENCE, b"".join(bytes(i) for i in items))


def encode_set_of(items):
    """SET OF: element encodings sorted as octet strings, shorter one padded
    with trailing zero octets for the comparison (X.690 11.6)."""
    items = [bytes(i) for i in items]
    width = max([len(i) for i in items] or [0])
    items.sort(key=lambda e: e + b"\x00" * (width - len(e)))
    return encode_tlv(T_SET, b"".join(items))


def set_of_is_sorted(node):
    encs = [reencode(c) for c in node.children]
    width = max([len(e) for e in encs] or [0])
    keys = [e + b"\x00" * (width - len(e)) for e in encs]
    return keys == sorted(keys)


def encode_bitstring(data, unused_bits=0):
    data = bytes(data)
    if not 0 <= unused_bits <= 7:
        raise ValueError("unused bits must be 0..7")
    if not data and unused_bits:
        raise ValueError("empty BIT STRING with unused bits")
    if unused_bits and data[-1] & ((1 << unused_bits) - 1):
        raise ValueError("unused bits are not zero")
    return encode_tlv(T_BITSTRING, bytes([unused_bits]) + data)


def decode_bitstring(content):
    """BIT STRING content -> (data bytes, unused_bits), strict DER."""
    content = bytes(content)
    if not content:
        raise DerError("BIT STRING without unused-bits octet")
    unused = content[0]
    data = content[1:]
    if unused > 7:
        raise DerError("BIT STRING unused-bits octet > 7")
    if not data and unused:
        raise DerError("empty BIT STRING with non-zero unused bits")
    if unused and data[-1] & ((1 << unused) - 1):
        raise DerError("BIT STRING unused bits are not zero")
    return data, unused


def encode_octet_string(data):
    return encode_tlv(T_OCTETSTRING, data)


def encode_null():
    return b"\x05\x00"


def encode_boolean(v):
    return b"\x01\x01\xff" if v else b"\x01\x01\x00"


def encode_explicit(tagnum, inner):
    """[tagnum] EXPLICIT: context class, constructed, wrapping one encoding."""
    if not 0 <= tagnum <= 30:
        raise ValueError("tag number 0..30")
    return encode_tlv(0xA0 | tagnum, inner)


def encode_implicit(tagnum, constructed, content):
    """[tagnum] IMPLICIT: context class, given P/C bit, raw content octets."""
    if not 0 <= tagnum <= 30:
        raise ValueError("tag number 0..30")
    return encode_tlv(0x80 | (0x20 if constructed else 0) | tagnum, content)


# ------------------------------------------------------------------ readers

def _expect(node, tag, what):
    if node.tag != tag:
        raise DerError("%s: expected tag 0x%02x, found 0x%02x at offset %d"
                       % (what, tag, node.tag, node.start))
    return node


def _top(data, what):
    node = data if isinstance(data, Node) else parse_exact(data)
    return _expect(node, T_SEQUENCE, what)


def _int(node, what):
    return decode_integer(_expect(node, T_INTEGER, what).value)


def _octets(node, what):
    return _expect(node, T_OCTETSTRING, what).value


def _ints(seq, names, what):
    if len(seq.children) != len(names):
        raise DerError("%s: expected %d elements, found %d"
                       % (what, len(names), len(seq.children)))
    return dict((nm, _int(c, "%s.%s" % (what, nm)))
                for nm, c in zip(names, seq.children))


def _algorithm_identifier(node, what):
    _expect(node, T_SEQUENCE, what)
    ch = node.children
    if not 1 <= len(ch) <= 2:
        raise DerError("%s: AlgorithmIdentifier with %d elements" % (what, len(ch)))
    oid = decode_oid(_expect(ch[0], T_OID, what + ".algorithm").value)
    return oid, (ch[1] if len(ch) == 2 else None)


_RSA_PRIV = ("version", "n", "e", "d", "p", "q", "dp", "dq", "qinv")


def read_rsa_private_pkcs1(data):
    """RFC 8017 A.1.2 RSAPrivateKey.  qinv = q^{-1} mod p (PKCS#1 coefficient).
    version 0: exactly nine INTEGERs; version 1: plus otherPrimeInfos
    (returned as 'other_primes': [(r, d, t), ...], at least one)."""
    seq = _top(data, "RSAPrivateKey")
    ch = seq.children
    if not ch:
        raise DerError("RSAPrivateKey: empty")
    version = _int(ch[0], "RSAPrivateKey.version")
    if version == 0:
        return _ints(seq, _RSA_PRIV, "RSAPrivateKey")
    if version != 1:
        raise DerError("RSAPrivateKey: version %d" % version)
    if len(ch) != 10:
        raise DerError("RSAPrivateKey v1: expected 10 elements, found %d" % len(ch))
    out = dict((nm, _int(c, "RSAPrivateKey." + nm)) for nm, c in zip(_RSA_PRIV, ch))
    infos = _expect(ch[9], T_SEQUENCE, "otherPrimeInfos").children
    if not infos:
        raise DerError("otherPrimeInfos: empty")
    out["other_primes"] = []
    for info in infos:
        _expect(info, T_SEQUENCE, "OtherPrimeInfo")
        t = _ints(info, ("r", "d", "t"), "OtherPrimeInfo")
        out["other_primes"].append((t["r"], t["d"], t["t"]))
    return out


def read_rsa_public_pkcs1(data):
    """RFC 8017 A.1.1 RSAPublicKey ::= SEQUENCE { n, e }."""
    return _ints(_top(data, "RSAPublicKey"), ("n", "e"), "RSAPublicKey")


def read_spki(data):
    """RFC 5280 SubjectPublicKeyInfo -> dict(algorithm, params (Node|None),
    key (bytes), unused_bits)."""
    seq = _top(data, "SubjectPublicKeyInfo")
    if len(seq.children) != 2:
        raise DerError("SubjectPublicKeyInfo: expected 2 elements, found %d"
                       % len(seq.children))
    oid, params = _algorithm_identifier(seq.children[0], "SubjectPublicKeyInfo.algorithm")
    bs = _expect(seq.children[1], T_BITSTRING, "subjectPublicKey")
    key, unused = decode_bitstring(bs.value)
    return {"algorithm": oid, "params": params, "key": key, "unused_bits": unused}


def read_pkcs8(data):
    """RFC 5208 PrivateKeyInfo / RFC 5958 OneAsymmetricKey (unencrypted) ->
    dict(version, algorithm, params (Node|None), private_key (bytes),
    attributes (Node|None), public_key (bytes|None))."""
    seq = _top(data, "PrivateKeyInfo")
    ch = seq.children
    if len(ch) < 3:
        raise DerError("PrivateKeyInfo: expected at least 3 elements, found %d" % len(ch))
    version = _int(ch[0], "PrivateKeyInfo.version")
    if version not in (0, 1):
        raise DerError("PrivateKeyInfo: version %d" % version)
    oid, params = _algorithm_identifier(ch[1], "PrivateKeyInfo.privateKeyAlgorithm")
    out = {"version": version, "algorithm": oid, "params": params,
           "private_key": _octets(ch[2], "PrivateKeyInfo.privateKey"),
           "attributes": None, "public_key": None}
    rest = list(ch[3:])
    if rest and rest[0].tag == 0xA0:            # [0] IMPLICIT SET OF Attribute
        out["attributes"] = rest.pop(0)
    if rest and rest[0].tag == 0x81:            # [1] IMPLICIT BIT STRING
        if version != 1:
            raise DerError("PrivateKeyInfo: publicKey present with version 0")
        key, unused = decode_bitstring(rest.pop(0).value)
        if unused:
            raise DerError("PrivateKeyInfo.publicKey: unused bits")
        out["public_key"] = key
    if rest:
        raise DerError("PrivateKeyInfo: unexpected element tag 0x%02x" % rest[0].tag)
    return out


def read_ec_private_rfc5915(data):
    """RFC 5915 ECPrivateKey -> dict(version, private_key (bytes),
    curve_oid (str|None), params (Node|None), public_key (bytes|None))."""
    seq = _top(data, "ECPrivateKey")
    ch = seq.children
    if len(ch) < 2:
        raise DerError("ECPrivateKey: expected at least 2 elements, found %d" % len(ch))
    version = _int(ch[0], "ECPrivateKey.version")
    if version != 1:
        raise DerError("ECPrivateKey: version %d (must be 1)" % version)
    out = {"version": 1, "private_key": _octets(ch[1], "ECPrivateKey.privateKey"),
           "curve_oid": None, "params": None, "public_key": None}
    rest = list(ch[2:])
    if rest and rest[0].tag == 0xA0:            # [0] EXPLICIT ECParameters
        w = rest.pop(0)
        if len(w.children) != 1:
            raise DerError("ECPrivateKey.parameters: explicit tag must wrap one element")
        out["params"] = w.children[0]
        if w.children[0].tag == T_OID:
            out["curve_oid"] = decode_oid(w.children[0].value)
    if rest and rest[0].tag == 0xA1:            # [1] EXPLICIT BIT STRING
        w = rest.pop(0)
        if len(w.children) != 1:
            raise DerError("ECPrivateKey.publicKey: explicit tag must wrap one element")
        bs = _expect(w.children[0], T_BITSTRING, "ECPrivateKey.publicKey")
        key, unused = decode_bitstring(bs.value)
        if unused:
            raise DerError("ECPrivateKey.publicKey: unused bits")
        out["public_key"] = key
    if rest:
        raise DerError("ECPrivateKey: unexpected element tag 0x%02x" % rest[0].tag)
    return out


def read_dsa_params(data):
    """RFC 3279 Dss-Parms ::= SEQUENCE { p, q, g } (bytes or a parsed Node)."""
    return _ints(_top(data, "Dss-Parms"), ("p", "q", "g"), "Dss-Parms")


def read_dsa_private_openssl(data):
    """OpenSSL 'traditional' DSA private key: SEQUENCE {0, p, q, g, y, x}."""
    out = _ints(_top(data, "DSAPrivateKey"), ("version", "p", "q", "g", "y", "x"),
                "DSAPrivateKey")
    if out["version"] != 0:
        raise DerError("DSAPrivateKey: version %d" % out["version"])
    return out


def read_ecdsa_sig(data):
    """RFC 3279 Ecdsa-Sig-Value / Dss-Sig-Value ::= SEQUENCE { r, s } -> (r, s)."""
    t = _ints(_top(data, "Ecdsa-Sig-Value"), ("r", "s"), "Ecdsa-Sig-Value")
    return t["r"], t["s"]


def read_digest_info(data):
    """RFC 8017 A.2.4 DigestInfo -> dict(algorithm, params (Node|None), digest)."""
    seq = _top(data, "DigestInfo")
    if len(seq.children) != 2:
        raise DerError("DigestInfo: expected 2 elements")
    oid, params = _algorithm_identifier(seq.children[0], "DigestInfo.digestAlgorithm")
    return {"algorithm": oid, "params": params,
            "digest": _octets(seq.children[1], "DigestInfo.digest")}


# ------------------------------------------------------------------ selftest

def _raises(fn, *a):
    try:
        fn(*a)
    except DerError as e:
        return str(e)
    raise AssertionError("no DerError for %r" % (a,))


def selftest():
    h = bytes.fromhex
    # integers (X.690 8.3 examples and boundaries)
    cases = {0: "020100", 1: "020101", 127: "02017f", 128: "02020080",
             255: "020200ff", 256: "02020100", 32767: "02027fff",
             32768: "0203008000", -1: "0201ff", -128: "020180",
             -129: "0202ff7f", -256: "0202ff00", -32768: "02028000",
             -32769: "0203ff7fff"}
    for v, enc in cases.items():
        assert encode_integer(v) == h(enc), (v, encode_integer(v).hex())
        assert decode_integer(h(enc)[2:]) == v
        assert _int(parse(h(enc)), "t") == v
    for v in list(range(-70000, 70000, 7)) + [2**64, -2**64, 2**2048 - 1, -(2**63), -(2**63) - 1]:
        e = encode_integer(v)
        assert decode_integer(parse(e).value) == v
    for bad in ("0200", "02020001", "0202007f", "0202ff80", "0202ffff", "020300007f"):
        _raises(parse, h(bad))
    # lengths
    assert encode_length(0) == b"\x00" and encode_length(127) == b"\x7f"
    assert encode_length(128) == b"\x81\x80" and encode_length(255) == b"\x81\xff"
    assert encode_length(256) == b"\x82\x01\x00" and encode_length(65536) == b"\x83\x01\x00\x00"
    for n in (0, 1, 127, 128, 255, 256, 65535, 65536):
        e = encode_octet_string(bytes(n))
        nd = parse(e)
        assert nd.value == bytes(n) and nd.end == len(e) and reencode(nd) == e
    assert "indefinite" in _raises(parse, h("30800000"))
    assert "indefinite" in _raises(parse, h("0480"))
    assert "non-minimal" in _raises(parse, h("04810100"))            # long form for 1
    assert "non-minimal" in _raises(parse, h("0481" + "7f") + bytes(127))
    assert "non-minimal" in _raises(parse, h("04820080") + bytes(128))  # leading zero
    assert "reserved" in _raises(parse, h("04ff"))
    assert "exceeds" in _raises(parse, h("040500"))
    assert "truncated" in _raises(parse, h("04"))
    assert "truncated" in _raises(parse, b"")
    assert "truncated" in _raises(parse, h("0482ff"))
    assert "trailing" in _raises(parse, h("050000"))
    assert "exceeds" in _raises(parse, h("3003020201"))              # child overruns parent
    assert "unsupported" in _raises(parse, h("1f8101" "00"))
    assert "unsupported" in _raises(parse, h("bf2000"))
    nd, rest = parse_prefix(h("0500ffee"))
    assert nd.tag == 5 and rest == h("ffee")
    # universal content rules
    _raises(parse, h("0000"))                  # end-of-contents
    _raises(parse, h("010101"))                # BOOLEAN 01
    _raises(parse, h("0100"))
    _raises(parse, h("050100"))                # NULL with content
    _raises(parse, h("2403040100"))            # constructed OCTET STRING
    _raises(parse, h("2303030100"))            # constructed BIT STRING
    _raises(parse, h("1000"))                  # primitive SEQUENCE
    _raises(parse, h("1100"))                  # primitive SET
    _raises(parse, h("2203020101"))            # constructed INTEGER
    assert parse(h("0101ff")).value == b"\xff" and parse(h("010100")).value == b"\x00"
    # validate=False keeps only the encoding-level rules
    assert parse(h("010101"), validate=False).value == b"\x01"
    _raises(parse, h("04810100"), False)
    # OID
    oids = {"1.2.840.113549.1.1.1": "06092a864886f70d010101",
            "2.16.840.1.101.3.4.2.1": "0609608648016503040201",
            "1.3.14.3.2.26": "06052b0e03021a",
            "2.5.4.3": "0603550403",
            "2.100.3": "0603813403",            # X.690 8.19.5 example
            "0.0": "060100", "1.39": "06014f", "2.0": "060150",
            "2.999.1": "0603883701"}
    for d, enc in oids.items():
        assert encode_oid(d) == h(enc), (d, encode_oid(d).hex())
        assert decode_oid(h(enc)[2:]) == d
        assert reencode(parse(h(enc))) == h(enc)
    for bad in ("0600", "06022a80", "06032a8001", "0603808001", "06028001"):
        _raises(parse, h(bad))
    for bad in ("1", "3.1", "1.40", "0.40", "1.-1", "a.b"):
        try:
            encode_oid(bad)
        except ValueError:
            pass
        else:
            raise AssertionError(bad)
    # BIT STRING
    assert encode_bitstring(b"\x0a\x3b\x5f\x29\x1c\xd0", 4) == h("0307040a3b5f291cd0")  # X.690 8.6.4.2
    assert decode_bitstring(h("040a3b5f291cd0")) == (h("0a3b5f291cd0"), 4)
    assert encode_bitstring(b"") == h("030100")
    for bad in ("0300", "030108", "030101", "03020101", "030207ff"):
        _raises(parse, h(bad))
    assert parse(h("03020780")).value == h("0780")
    # constructed, explicit / implicit, set ordering
    s = encode_sequence([encode_integer(5), encode_null(), encode_octet_string(b"hi")])
    assert s == h("300902010505000402" "6869")
    nd = parse(s)
    assert [c.tag for c in nd.children] == [2, 5, 4] and reencode(nd) == s
    assert nd.content == s[2:] and (nd.start, nd.end) == (0, len(s))
    assert nd.children[2].start == 7 and nd.children[2].end == 11
    assert encode_explicit(0, encode_integer(1)) == h("a003020101")
    assert encode_implicit(1, False, b"\x00\x04") == h("81020004")
    assert encode_implicit(0, True, encode_integer(1)) == h("a003020101")
    e = parse(h("a003020101"))
    assert e.cls == 2 and e.number == 0 and e.constructed and e.children[0].value == b"\x01"
    so = encode_set_of([encode_integer(300), encode_integer(2), encode_integer(1)])
    assert so == h("310a" "020101" "020102" "0202012c")
    assert set_of_is_sorted(parse(so))
    assert not set_of_is_sorted(parse(h("3106" "020102" "020101")))
    assert encode_set_of([]) == h("3100")
    # readers, on hand-built structures
    priv = encode_sequence([encode_integer(v) for v in (0, 3233, 17, 413, 61, 53, 53, 49, 38)])
    r = read_rsa_private_pkcs1(priv)
    assert (r["n"], r["e"], r["d"], r["p"], r["q"], r["dp"], r["dq"], r["qinv"]) == \
           (3233, 17, 413, 61, 53, 53, 49, 38) and r["version"] == 0
    _raises(read_rsa_private_pkcs1, encode_sequence([encode_integer(v) for v in (0, 1, 2)]))
    _raises(read_rsa_private_pkcs1, priv + b"\x00")
    _raises(read_rsa_private_pkcs1, encode_sequence([encode_integer(v) for v in (2,) + (1,) * 8]))
    pub = encode_sequence([encode_integer(3233), encode_integer(17)])
    assert read_rsa_public_pkcs1(pub) == {"n": 3233, "e": 17}
    _raises(read_rsa_public_pkcs1, encode_sequence([encode_integer(1)]))
    _raises(read_rsa_public_pkcs1, encode_sequence([encode_integer(1), encode_null()]))
    spki = encode_sequence([encode_sequence([encode_oid("1.2.840.113549.1.1.1"), encode_null()]),
                            encode_bitstring(pub)])
    r = read_spki(spki)
    assert r["algorithm"] == "1.2.840.113549.1.1.1" and r["params"].tag == 5
    assert r["key"] == pub and r["unused_bits"] == 0
    p8 = encode_sequence([encode_integer(0),
                          encode_sequence([encode_oid("1.2.840.113549.1.1.1"), encode_null()]),
                          encode_octet_string(priv)])
    r = read_pkcs8(p8)
    assert r["version"] == 0 and r["private_key"] == priv and r["public_key"] is None
    p8v1 = encode_sequence([encode_integer(1), encode_sequence([encode_oid("1.3.101.112")]),
                            encode_octet_string(b"\x04\x20" + bytes(32)),
                            encode_implicit(1, False, b"\x00" + bytes(32))])
    r = read_pkcs8(p8v1)
    assert r["params"] is None and r["public_key"] == bytes(32) and r["version"] == 1
    _raises(read_pkcs8, encode_sequence([encode_integer(2)] + [reencode(c) for c in parse(p8).children[1:]]))
    ec = encode_sequence([encode_integer(1), encode_octet_string(b"\x11" * 32),
                          encode_explicit(0, encode_oid("1.2.840.10045.3.1.7")),
                          encode_explicit(1, encode_bitstring(b"\x04" + bytes(64)))])
    r = read_ec_private_rfc5915(ec)
    assert r["curve_oid"] == "1.2.840.10045.3.1.7" and r["private_key"] == b"\x11" * 32
    assert r["public_key"] == b"\x04" + bytes(64)
    r = read_ec_private_rfc5915(encode_sequence([encode_integer(1), encode_octet_string(b"\x01")]))
    assert r["curve_oid"] is None and r["public_key"] is None
    _raises(read_ec_private_rfc5915, encode_sequence([encode_integer(0), encode_octet_string(b"\x01")]))
    assert read_dsa_params(encode_sequence([encode_integer(v) for v in (23, 11, 4)])) == \
           {"p": 23, "q": 11, "g": 4}
    assert read_ecdsa_sig(h("3006020101020102")) == (1, 2)
    assert read_ecdsa_sig(encode_sequence([encode_integer(2**255), encode_integer(2**256 - 1)])) == \
           (2**255, 2**256 - 1)
    for bad in ("30070201010202" "0002", "3006020101020102" "00", "3003020101",
                "3009020101020102020103", "30810602010102" "0102", "3080020101020102" "0000",
                "3006020101040102", "3106020101020102"):
        _raises(read_ecdsa_sig, h(bad))
    di = h("3031300d060960864801650304020105000420") + bytes(32)
    r = read_digest_info(di)
    assert r["algorithm"] == "2.16.840.1.101.3.4.2.1" and r["params"].tag == 5 and r["digest"] == bytes(32)
    return True


if __name__ == "__main__":
    selftest()
    print("OK")
