"""Pure-Python reference KDFs.  Standard library only (hashlib, hmac, struct).

  * HKDF                       RFC 5869
  * PBKDF1, PBKDF2             RFC 8018 sections 5.1 and 5.2
  * KDF in Counter Mode        NIST SP 800-108r1 section 4.1

`hashname` arguments are hashlib names ('sha256', 'sha3_256', 'sha512_224',
...).  In addition 'md2' and 'md4' resolve to the pure-Python mc.ref.md
implementations (hashlib here has neither); those two cannot be used with
HMAC-based functions through the stdlib `hmac` module, so hmac_prf() carries
its own RFC 2104 construction for them.

Interface notes relative to pycryptodome (Crypto.Protocol.KDF):

  PBKDF1   RFC 8018 5.1 specifies S as "an eight-octet string" and limits the
           hash to MD2/MD5/SHA-1.  The iteration T_1 = Hash(P || S),
           T_i = Hash(T_{i-1}) is well defined for any salt/hash, so this
           reference does not enforce either restriction unless
           strict=True.  pycryptodome enforces len(salt) == 8.

  SP800-108  The standard leaves r (counter width) and the width of [L]_2
           to the implementation.  pycryptodome / Botan use 32-bit big-endian
           for both and L is the TOTAL output length in BITS
           (key_len * num_keys * 8); multiple keys are consecutive slices
           of the single output stream.  This reference takes the total
           length in bytes and returns the whole stream.  The standard does
           not forbid 0x00 inside Label/Context (pycryptodome rejects it);
           this reference accepts anything.
"""

import hashlib
import hmac as _hmac
import struct

__all__ = [
    "hmac_prf", "hkdf_extract", "hkdf_expand", "hkdf",
    "pbkdf1", "pbkdf2", "pbkdf2_hmac", "sp800_108_counter", "selftest",
]


# --------------------------------------------------------------------------
# hash / HMAC plumbing
# --------------------------------------------------------------------------

def _ref_md(name):
    from . import md
    return {"md2": md.md2, "md4": md.md4}[name]


_EXTRA_BLOCK = {"md2": 16, "md4": 64}
_EXTRA_DIGEST = {"md2": 16, "md4": 16}


def _hash_fn(hashname):
    """Return (fn(bytes)->bytes, digest_size, block_size)."""
    name = hashname.lower()
    if name in _EXTRA_BLOCK:
        return _ref_md(name), _EXTRA_DIGEST[name], _EXTRA_BLOCK[name]
    h = hashlib.new(hashname)
    if h.digest_size == 0:
        raise ValueError("%s has no fixed digest size" % hashname)

    def fn(data, _n=hashname):
        return hashlib.new(_n, data).digest()
    return fn, h.digest_size, h.block_size


def _hmac_generic(fn, block_size, key, msg):
    """RFC 2104, for hashes the stdlib hmac module cannot drive."""
    if len(key) > block_size:
        key = fn(key)
    key = key + b"\x00" * (block_size - len(key))
    ipad = bytes(b ^ 0x36 for b in key)
    opad = bytes(b ^ 0x5C for b in key)
    return fn(opad + fn(ipad + msg))


def hmac_prf(hashname):
    """Return prf(key, msg) -> bytes computing HMAC-<hashname>."""
    name = hashname.lower()
    if name in _EXTRA_BLOCK:
        fn, _, bs = _hash_fn(name)

        def prf(key, msg):
            return _hmac_generic(fn, bs, bytes(key), bytes(msg))
    else:
        hashlib.new(hashname)          # fail early on unknown names

        def prf(key, msg):
            return _hmac.new(bytes(key), bytes(msg), hashname).digest()
    prf.digest_size = _hash_fn(hashname)[1]
    return prf


# --------------------------------------------------------------------------
# HKDF (RFC 5869)
# --------------------------------------------------------------------------

def hkdf_extract(hashname, salt, ikm):
    prf = hmac_prf(hashname)
    if not salt:                       # "if not provided, ... HashLen zeros"
        salt = b"\x00" * prf.digest_size
    return prf(salt, ikm)


def hkdf_expand(hashname, prk, info, length):
    prf = hmac_prf(hashname)
    hlen = prf.digest_size
    if length < 0:
        raise ValueError("negative length")
    if length > 255 * hlen:
        raise ValueError("HKDF output length exceeds 255 * HashLen")
    n = -(-length // hlen)
    t = b""
    okm = []
    for i in range(1, n + 1):
        t = prf(prk, t + bytes(info) + bytes([i]))
        okm.append(t)
    return b"".join(okm)[:length]


def hkdf(hashname, ikm, length, salt=None, info=b""):
    # check length first so that an oversize request never costs an extract
    hlen = hmac_prf(hashname).digest_size
    if length > 255 * hlen:
        raise ValueError("HKDF output length exceeds 255 * HashLen")
    return hkdf_expand(hashname, hkdf_extract(hashname, salt, ikm), info, length)


# --------------------------------------------------------------------------
# PBKDF1 / PBKDF2 (RFC 8018)
# --------------------------------------------------------------------------

def pbkdf1(hashname, password, salt, count, dklen, strict=False):
    fn, hlen, _ = _hash_fn(hashname)
    if dklen > hlen:
        raise ValueError("derived key too long")
    if count < 1:
        raise ValueError("iteration count must be a positive integer")
    if strict:
        if len(salt) != 8:
            raise ValueError("RFC 8018 5.1: salt is an eight-octet string")
        if hashname.lower() not in ("md2", "md5", "sha1"):
            raise ValueError("RFC 8018 5.1: hash is MD2, MD5 or SHA-1")
    t = fn(bytes(password) + bytes(salt))
    for _ in range(count - 1):
        t = fn(t)
    return t[:dklen]


def pbkdf2(prf, password, salt, count, dklen):
    """RFC 8018 5.2 with an arbitrary prf(key, msg) -> bytes."""
    if count < 1:
        raise ValueError("iteration count must be a positive integer")
    if dklen < 0:
        raise ValueError("negative length")
    password = bytes(password)
    salt = bytes(salt)
    hlen = len(prf(password, b""))
    if dklen > (2 ** 32 - 1) * hlen:
        raise ValueError("derived key too long")
    blocks = []
    for i in range(1, -(-dklen // hlen) + 1):
        u = prf(password, salt + struct.pack(">I", i))
        acc = int.from_bytes(u, "big")
        for _ in range(count - 1):
            u = prf(password, u)
            acc ^= int.from_bytes(u, "big")
        blocks.append(acc.to_bytes(hlen, "big"))
    return b"".join(blocks)[:dklen]


def pbkdf2_hmac(hashname, password, salt, count, dklen):
    """PBKDF2 with HMAC-<hashname>, via the generic code above (deliberately
    NOT hashlib.pbkdf2_hmac, so that the two stay independent oracles)."""
    return pbkdf2(hmac_prf(hashname), password, salt, count, dklen)


# --------------------------------------------------------------------------
# SP 800-108r1 counter mode
# --------------------------------------------------------------------------

def sp800_108_counter(prf, prf_out_len, master, key_len_total, label=b"",
                      context=b"", r_bits=32, l_bits=32):
    """K(i) = PRF(K_IN, [i]_2 || Label || 0x00 || Context || [L]_2),
    i = 1..ceil(L/h); output = leftmost L bits of K(1) || K(2) || ...

    [i]_2 is r_bits wide, [L]_2 is l_bits wide, both big-endian;
    L = 8 * key_len_total.  Returns key_len_total bytes.
    """
    if r_bits % 8 or l_bits % 8 or r_bits <= 0 or l_bits <= 0:
        raise ValueError("field widths must be positive multiples of 8")
    if key_len_total < 0:
        raise ValueError("negative length")
    n = -(-key_len_total // prf_out_len)
    if n > 2 ** r_bits - 1:
        raise ValueError("n > 2^r - 1: too much keying material requested")
    L = 8 * key_len_total
    if L >= 2 ** l_bits:
        raise ValueError("L does not fit the [L]_2 field")
    fixed = bytes(label) + b"\x00" + bytes(context) + L.to_bytes(l_bits // 8, "big")
    out = []
    for i in range(1, n + 1):
        k = prf(master, i.to_bytes(r_bits // 8, "big") + fixed)
        if len(k) != prf_out_len:
            raise ValueError("PRF output length differs from prf_out_len")
        out.append(k)
    return b"".join(out)[:key_len_total]


# --------------------------------------------------------------------------
# Self test
# --------------------------------------------------------------------------

def _h(s):
    return bytes.fromhex(s.replace(" ", "").replace("\n", ""))


def selftest():
    # --- HMAC: RFC 2202 / RFC 4231 case 2, and generic construction vs stdlib
    assert hmac_prf("md5")(b"Jefe", b"what do ya want for nothing?") == _h(
        "750c783e6ab0b503eaa86e310a5db738")
    assert hmac_prf("sha256")(b"Jefe", b"what do ya want for nothing?") == _h(
        "5bdcc146bf60754e6a042426089575c75a003f089d2739839dec58b964ec3843")
    for name in ("md5", "sha1", "sha256", "sha512", "sha3_256", "sha512_224"):
        fn, _, bs = _hash_fn(name)
        for klen in (0, 1, bs - 1, bs, bs + 1, 2 * bs + 3):
            key = bytes(range(klen % 256)) * (klen // 256 + 1)
            key = (key * 2)[:klen] if klen else b""
            assert _hmac_generic(fn, bs, key, b"abc") == hmac_prf(name)(key, b"abc"), (name, klen)
    assert len(hmac_prf("md4")(b"k", b"m")) == 16

    # --- HKDF: RFC 5869 appendix A
    ikm = b"\x0b" * 22
    salt = bytes(range(0x0d))
    info = bytes(range(0xf0, 0xfa))
    assert hkdf_extract("sha256", salt, ikm) == _h(
        "077709362c2e32df0ddc3f0dc47bba6390b6c73bb50f9c3122ec844ad7c2b3e5")
    assert hkdf("sha256", ikm, 42, salt, info) == _h(
        "3cb25f25faacd57a90434f64d0362f2a2d2d0a90cf1a5a4c5db02d56ecc4c5bf"
        "34007208d5b887185865")
    assert hkdf("sha256", bytes(range(0x50)), 82, bytes(range(0x60, 0xb0)),
                bytes(range(0xb0, 0x100))) == _h(
        "b11e398dc80327a1c8e7f78c596a49344f012eda2d4efad8a050cc4c19afa97c"
        "59045a99cac7827271cb41c65e590e09da3275600c2f09b8367793a9aca3db71"
        "cc30c58179ec3e87c14c01d5c1f3434f1d87")
    tc3 = _h("8da4e775a563c18f715f802a063c5a31b8a11f5c5ee1879ec3454e5f3c738d2d"
             "9d201395faa4b61a96c8")
    assert hkdf_extract("sha256", b"", ikm) == _h(
        "19ef24a32c717b167f33a91d6f648bdf96596776afdb6377ac434c1c293ccb04")
    assert hkdf("sha256", ikm, 42, b"", b"") == tc3
    assert hkdf("sha256", ikm, 42, None, b"") == tc3
    assert hkdf("sha256", ikm, 42) == tc3
    assert hkdf_extract("sha1", salt, b"\x0b" * 11) == _h(
        "9b6c18c432a7bf8f0e71c8eb88f4b30baa2ba243")
    assert hkdf("sha1", b"\x0b" * 11, 42, salt, info) == _h(
        "085a01ea1b10f36933068b56efa5ad81a4f14b822f5b091568a9cdd4f155fda2"
        "c22e422478d305f3f896")
    # TC7: SHA-1, salt not provided
    assert hkdf("sha1", b"\x0c" * 22, 42) == _h(
        "2c91117204d745f3500d636a62f64f0ab3bae548aa53d423b0d1f27ebba6f5e5"
        "673a081d70cce7acfc48")
    assert len(hkdf("sha256", ikm, 255 * 32)) == 255 * 32
    for bad in (255 * 32 + 1, 256 * 32):
        try:
            hkdf("sha256", ikm, bad)
        except ValueError:
            pass
        else:
            raise AssertionError("HKDF accepted length %d" % bad)
    assert hkdf("sha256", ikm, 0) == b""

    # --- PBKDF2: RFC 6070
    p, s = b"password", b"salt"
    assert pbkdf2_hmac("sha1", p, s, 1, 20) == _h("0c60c80f961f0e71f3a9b524af6012062fe037a6")
    assert pbkdf2_hmac("sha1", p, s, 2, 20) == _h("ea6c014dc72d6f8ccd1ed92ace1d41f0d8de8957")
    assert pbkdf2_hmac("sha1", p, s, 4096, 20) == _h("4b007901b765489abead49d926f721d065a429c1")
    assert pbkdf2_hmac("sha1", b"passwordPASSWORDpassword",
                       b"saltSALTsaltSALTsaltSALTsaltSALTsalt", 4096, 25) == _h(
        "3d2eec4fe41c849b80c8d83662c0e44a8b291a964cf2f07038")
    assert pbkdf2_hmac("sha1", b"pass\0word", b"sa\0lt", 4096, 16) == _h(
        "56fa6aa75548099dcc37d7f03425e0c3")
    for name in ("sha1", "sha256", "sha3_256"):
        for dk in (1, 19, 20, 21, 32, 33, 65):
            assert pbkdf2_hmac(name, p, s, 3, dk) == hashlib.pbkdf2_hmac(name, p, s, 3, dk)

    # --- PBKDF1: widely published vector (DI Management "cryptoKDFs" page)
    assert pbkdf1("sha1", b"password", _h("78578E5A5D63CB06"), 1000, 16, strict=True) == _h(
        "DC19847E05C64D2FAF10EBFB4A3D2A20")
    assert pbkdf1("sha1", b"p", b"12345678", 1, 20) == hashlib.sha1(b"p12345678").digest()
    assert pbkdf1("md5", b"p", b"12345678", 2, 16) == hashlib.md5(
        hashlib.md5(b"p12345678").digest()).digest()
    assert len(pbkdf1("md2", b"p", b"12345678", 3, 16, strict=True)) == 16
    try:
        pbkdf1("sha1", b"p", b"12345678", 1, 21)
    except ValueError:
        pass
    else:
        raise AssertionError("PBKDF1 accepted dkLen > hLen")

    # --- SP 800-108 counter mode.  Vectors generated with Botan 2.19.1 and
    # published in pycryptodome-test-vectors (KDF_SP800_108_COUNTER.txt),
    # HMAC-SHA-256, r = 32, KIN = 00..0F, empty label and context.
    kin = bytes(range(16))
    prf = hmac_prf("sha256")
    for kout in ("83", "338D", "DD9D84", "1E9D797D", "013D12B1DD",
                 "1146CE0704E6", "D87D6C2196F0C3"):
        kout = _h(kout)
        assert sp800_108_counter(prf, 32, kin, len(kout), b"", b"") == kout, kout.hex()
    # structural checks from the text of the standard
    L = 70
    fixed = b"lab" + b"\x00" + b"ctx" + struct.pack(">I", 8 * L)
    exp = b"".join(prf(kin, struct.pack(">I", i) + fixed) for i in (1, 2, 3))[:L]
    assert sp800_108_counter(prf, 32, kin, L, b"lab", b"ctx") == exp
    assert sp800_108_counter(prf, 32, kin, 0, b"", b"") == b""
    return True


if __name__ == "__main__":
    selftest()
    print("OK")
