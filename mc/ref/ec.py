"""Reference elliptic-curve arithmetic (pure Python, affine, stdlib only).

Written from SEC 1/2, FIPS 186-4/5, RFC 6979, RFC 7748, RFC 8032, SP 800-56A.
Slow on purpose: every group operation is the textbook affine formula with
one modular inversion (pow(x, -1, p)).

Point conventions
  weierstrass : (x, y) with 0 <= x,y < p ; neutral element is O = None
  edwards     : (x, y) ; neutral element is (0, 1)
  montgomery  : (u, v) affine on v^2 = u^3 + A u^2 + u ; neutral is None
                (x-only arithmetic: mont_mul_x / x25519 / x448)
"""

import hashlib
import hmac

O = None


# --------------------------------------------------------------------------
# number theory helpers
# --------------------------------------------------------------------------

_SMALL_PRIMES = (2, 3, 5, 7, 11, 13, 17, 19, 23, 29, 31, 37, 41, 43, 47, 53,
                 59, 61, 67, 71, 73, 79, 83, 89, 97, 101, 103, 107, 109, 113,
                 127, 131, 137, 139, 149, 151, 157, 163, 167, 173)


def is_probable_prime(n):
    """Miller-Rabin with 40 fixed prime bases."""
    if n < 2:
        return False
    for q in _SMALL_PRIMES:
        if n == q:
            return True
        if n % q == 0:
            return False
    d, s = n - 1, 0
    while d % 2 == 0:
        d //= 2
        s += 1
    for a in _SMALL_PRIMES:
        x = pow(a, d, n)
        if x == 1 or x == n - 1:
            continue
        for _ in range(s - 1):
            x = x * x % n
            if x == n - 1:
                break
        else:
            return False
    return True


def isqrt(n):
    import math
    return math.isqrt(n)


def sqrt_mod(a, p):
    """A square root of a modulo the odd prime p, or None (Tonelli-Shanks)."""
    a %= p
    if a == 0:
        return 0
    if p == 2:
        return a
    if pow(a, (p - 1) // 2, p) != 1:
        return None
    # p - 1 = q * 2^s, q odd
    q, s = p - 1, 0
    while q % 2 == 0:
        q //= 2
        s += 1
    # a quadratic non-residue
    z = 2
    while pow(z, (p - 1) // 2, p) != p - 1:
        z += 1
    m = s
    c = pow(z, q, p)
    t = pow(a, q, p)
    r = pow(a, (q + 1) // 2, p)
    while t != 1:
        # least i, 0 < i < m, with t^(2^i) == 1
        i, t2 = 0, t
        while t2 != 1:
            t2 = t2 * t2 % p
            i += 1
        b = pow(c, 1 << (m - i - 1), p)
        m = i
        c = b * b % p
        t = t * c % p
        r = r * b % p
    assert r * r % p == a
    return r


def _inv(x, p):
    x %= p
    if x == 0:
        raise ZeroDivisionError("inverse of 0")
    return pow(x, -1, p)


# --------------------------------------------------------------------------
# curve table
# --------------------------------------------------------------------------

class Curve(object):
    def __init__(self, **kw):
        self.__dict__.update(kw)

    def __repr__(self):
        return "<Curve %s>" % self.name

    @property
    def G(self):
        if self.kind == 'montgomery':
            return (self.Gu, self.Gv)
        return (self.Gx, self.Gy)

    @property
    def neutral(self):
        return (0, 1) if self.kind == 'edwards' else None


def _W(name, p, b, Gx, Gy, n, size_bytes):
    return Curve(name=name, kind='weierstrass', p=p, a=-3, b=b, Gx=Gx, Gy=Gy,
                 order=n, cofactor=1, size_bytes=size_bytes,
                 bits=p.bit_length())


_P25519 = 2**255 - 19
_P448 = 2**448 - 2**224 - 1
_L25519 = 2**252 + 27742317777372353535851937790883648493
_L448 = 2**446 - 13818066809895115352007386748515426880336692474882178609894547503885

CURVES = {
    'p192': _W('p192',
               2**192 - 2**64 - 1,
               0x64210519E59C80E70FA7E9AB72243049FEB8DEECC146B9B1,
               0x188DA80EB03090F67CBF20EB43A18800F4FF0AFD82FF1012,
               0x07192B95FFC8DA78631011ED6B24CDD573F977A11E794811,
               0xFFFFFFFFFFFFFFFFFFFFFFFF99DEF836146BC9B1B4D22831,
               24),
    'p224': _W('p224',
               2**224 - 2**96 + 1,
               0xB4050A850C04B3ABF54132565044B0B7D7BFD8BA270B39432355FFB4,
               0xB70E0CBD6BB4BF7F321390B94A03C1D356C21122343280D6115C1D21,
               0xBD376388B5F723FB4C22DFE6CD4375A05A07476444D5819985007E34,
               0xFFFFFFFFFFFFFFFFFFFFFFFFFFFF16A2E0B8F03E13DD29455C5C2A3D,
               28),
    'p256': _W('p256',
               2**256 - 2**224 + 2**192 + 2**96 - 1,
               0x5AC635D8AA3A93E7B3EBBD55769886BC651D06B0CC53B0F63BCE3C3E27D2604B,
               0x6B17D1F2E12C4247F8BCE6E563A440F277037D812DEB33A0F4A13945D898C296,
               0x4FE342E2FE1A7F9B8EE7EB4A7C0F9E162BCE33576B315ECECBB6406837BF51F5,
               0xFFFFFFFF00000000FFFFFFFFFFFFFFFFBCE6FAADA7179E84F3B9CAC2FC632551,
               32),
    'p384': _W('p384',
               2**384 - 2**128 - 2**96 + 2**32 - 1,
               0xB3312FA7E23EE7E4988E056BE3F82D19181D9C6EFE8141120314088F5013875AC656398D8A2ED19D2A85C8EDD3EC2AEF,
               0xAA87CA22BE8B05378EB1C71EF320AD746E1D3B628BA79B9859F741E082542A385502F25DBF55296C3A545E3872760AB7,
               0x3617DE4A96262C6F5D9E98BF9292DC29F8F41DBD289A147CE9DA3113B5F0B8C00A60B1CE1D7E819D7A431D7C90EA0E5F,
               0xFFFFFFFFFFFFFFFFFFFFFFFFFFFFFFFFFFFFFFFFFFFFFFFFC7634D81F4372DDF581A0DB248B0A77AECEC196ACCC52973,
               48),
    'p521': _W('p521',
               2**521 - 1,
               0x0051953EB9618E1C9A1F929A21A0B68540EEA2DA725B99B315F3B8B489918EF109E156193951EC7E937B1652C0BD3BB1BF073573DF883D2C34F1EF451FD46B503F00,
               0x00C6858E06B70404E9CD9E3ECB662395B4429C648139053FB521F828AF606B4D3DBAA14B5E77EFE75928FE1DC127A2FFA8DE3348B3C1856A429BF97E7E31C2E5BD66,
               0x011839296A789A3BC0045C8A5FB42C7D1BD998F54449579B446817AFBD17273E662C97EE72995EF42640C550B9013FAD0761353C7086A272C24088BE94769FD16650,
               # 2^521 - (2^260 - 0xA518...6409): '1', 65 x 'F', then 65 hex digits
               int('1' + 'F' * 65 + 'A51868783BF2F966B7FCC0148F709A5D03BB5C9B8899C47AEBB6FB71E91386409', 16),
               66),
}

# Ed25519 (RFC 8032 5.1): -x^2 + y^2 = 1 + d x^2 y^2, d = -121665/121666,
# B = (x, 4/5) with x "positive" (even).
_d25519 = (-121665 * pow(121666, -1, _P25519)) % _P25519
_By25519 = 4 * pow(5, -1, _P25519) % _P25519


def _ed_recover_x(p, a, d, y, sign):
    """x with a x^2 + y^2 = 1 + d x^2 y^2 and x & 1 == sign, or None."""
    num = (y * y - 1) % p
    den = (d * y * y - a) % p
    if den == 0:
        return None
    x2 = num * pow(den, -1, p) % p
    x = sqrt_mod(x2, p)
    if x is None:
        return None
    if x == 0 and sign == 1:
        return None
    if (x & 1) != sign:
        x = p - x
    return x


CURVES['ed25519'] = Curve(
    name='ed25519', kind='edwards', p=_P25519, a=-1, d=_d25519,
    Gx=_ed_recover_x(_P25519, -1, _d25519, _By25519, 0), Gy=_By25519,
    order=_L25519, cofactor=8, size_bytes=32, bits=255, enc_bytes=32)

CURVES['ed448'] = Curve(
    name='ed448', kind='edwards', p=_P448, a=1, d=-39081,
    Gx=224580040295924300187604334099896036246789641632564134246125461686950415467406032909029192869357953282578032075146446173674602635247710,
    Gy=298819210078481492676017930443930673437544040154080242095928241372331506189835876003536878655418784733982303233503462500531545062832660,
    order=_L448, cofactor=4, size_bytes=56, bits=448, enc_bytes=57)


def _mont_Gv(p, A, u, want_even=None):
    v = sqrt_mod((u * u * u + A * u * u + u) % p, p)
    assert v is not None
    return v


# RFC 7748 4.1 / 4.2.  The sign of Gv is fixed in _fix_montgomery_Gv(): for
# curve25519 the birational map sends (Gu, Gv) to the Ed25519 base point; for
# curve448 the 4-isogeny from edwards448 sends the Ed448 base point to
# (Gu, Gv).  Both relations double as a consistency check of the constants.
CURVES['curve25519'] = Curve(
    name='curve25519', kind='montgomery', p=_P25519, A=486662, Gu=9,
    Gv=_mont_Gv(_P25519, 486662, 9),
    order=_L25519, cofactor=8, size_bytes=32, bits=255, a24=121665)

CURVES['curve448'] = Curve(
    name='curve448', kind='montgomery', p=_P448, A=156326, Gu=5,
    Gv=_mont_Gv(_P448, 156326, 5),
    order=_L448, cofactor=4, size_bytes=56, bits=448, a24=39081)


def mont25519_to_ed25519(P):
    """RFC 7748 4.1 birational map (u, v) -> (x, y)."""
    p = _P25519
    u, v = P
    s = sqrt_mod(-486664, p)
    x = s * u * _inv(v, p) % p
    y = (u - 1) * _inv(u + 1, p) % p
    return (x, y)


def ed448_to_mont448(P):
    """RFC 7748 4.2 4-isogeny (x, y) on edwards448 -> (u, v) on curve448."""
    p = _P448
    x, y = P
    u = y * y * _inv(x * x, p) % p
    v = (2 - x * x - y * y) * y * _inv(x * x * x, p) % p
    return (u, v)


def _fix_montgomery_Gv():
    c = CURVES['curve25519']
    e = CURVES['ed25519']
    for v in (c.Gv, c.p - c.Gv):
        if mont25519_to_ed25519((c.Gu, v)) == (e.Gx, e.Gy):
            c.Gv = v
            break
    else:
        raise AssertionError("curve25519 base point does not map to Ed25519 B")
    c = CURVES['curve448']
    e = CURVES['ed448']
    u, v = ed448_to_mont448((e.Gx, e.Gy))
    if u != c.Gu or v not in (c.Gv, c.p - c.Gv):
        raise AssertionError("Ed448 B does not map to the curve448 base point")
    c.Gv = v


def _curve(c):
    if isinstance(c, Curve):
        return c
    return CURVES[c]


# --------------------------------------------------------------------------
# group law
# --------------------------------------------------------------------------

def on_curve(curve, P):
    c = _curve(curve)
    p = c.p
    if c.kind == 'edwards':
        if P is None:
            return False
        x, y = P
        if not (0 <= x < p and 0 <= y < p):
            return False
        return (c.a * x * x + y * y - 1 - c.d * x * x * y * y) % p == 0
    if P is None:
        return True
    x, y = P
    if not (0 <= x < p and 0 <= y < p):
        return False
    if c.kind == 'weierstrass':
        return (y * y - (x * x * x + c.a * x + c.b)) % p == 0
    return (y * y - (x * x * x + c.A * x * x + x)) % p == 0


def neg(curve, P):
    c = _curve(curve)
    if c.kind == 'edwards':
        x, y = P
        return ((-x) % c.p, y)
    if P is None:
        return None
    x, y = P
    return (x, (-y) % c.p)


def _chord_tangent(c, P, Q):
    """Weierstrass and Montgomery affine addition, full case analysis."""
    if P is None:
        return Q
    if Q is None:
        return P
    p = c.p
    x1, y1 = P
    x2, y2 = Q
    A = c.A if c.kind == 'montgomery' else 0
    if x1 == x2:
        if (y1 + y2) % p == 0:
            return None                       # P + (-P), includes 2-torsion
        if y1 != y2:
            raise ValueError("points not on the same curve")
        if c.kind == 'montgomery':
            num = 3 * x1 * x1 + 2 * A * x1 + 1
        else:
            num = 3 * x1 * x1 + c.a
        lam = num * _inv(2 * y1, p) % p
    else:
        lam = (y2 - y1) * _inv(x2 - x1, p) % p
    x3 = (lam * lam - A - x1 - x2) % p
    y3 = (lam * (x1 - x3) - y1) % p
    return (x3, y3)


def _ed_add(c, P, Q):
    """Unified (complete) affine twisted Edwards addition."""
    p = c.p
    x1, y1 = P
    x2, y2 = Q
    t = c.d * x1 * x2 * y1 * y2 % p
    # x3 = (x1 y2 + y1 x2) / (1 + t), y3 = (y1 y2 - a x1 x2) / (1 - t);
    # both divisions share the single inversion of (1 + t)(1 - t).
    i = _inv((1 + t) * (1 - t), p)
    x3 = (x1 * y2 + y1 * x2) * (1 - t) * i % p
    y3 = (y1 * y2 - c.a * x1 * x2) * (1 + t) * i % p
    return (x3, y3)


def add(curve, P, Q):
    c = _curve(curve)
    if c.kind == 'edwards':
        return _ed_add(c, P, Q)
    return _chord_tangent(c, P, Q)


def double(curve, P):
    return add(curve, P, P)


def mul(curve, k, P):
    """k * P by left-to-right double-and-add.  k is NOT reduced."""
    c = _curve(curve)
    if k < 0:
        return mul(c, -k, neg(c, P))
    R = c.neutral
    for i in range(k.bit_length() - 1, -1, -1):
        R = add(c, R, R)
        if (k >> i) & 1:
            R = add(c, R, P)
    return R


def is_neutral(curve, P):
    c = _curve(curve)
    if c.kind == 'edwards':
        return P == (0, 1)
    return P is None


# --------------------------------------------------------------------------
# Weierstrass encodings (SEC 1 2.3.3 / 2.3.4)
# --------------------------------------------------------------------------

def decompress_weierstrass(curve, x, ybit):
    c = _curve(curve)
    p = c.p
    if not (0 <= x < p) or ybit not in (0, 1):
        return None
    y = sqrt_mod((x * x * x + c.a * x + c.b) % p, p)
    if y is None:
        return None
    if (y & 1) != ybit:
        if y == 0:
            return None
        y = p - y
    return (x, y)


def sec1_encode(curve, P, compressed=False):
    c = _curve(curve)
    if P is None:
        return b'\x00'
    x, y = P
    n = c.size_bytes
    if compressed:
        return bytes([2 + (y & 1)]) + x.to_bytes(n, 'big')
    return b'\x04' + x.to_bytes(n, 'big') + y.to_bytes(n, 'big')


def sec1_decode(curve, data, allow_infinity=False):
    c = _curve(curve)
    data = bytes(data)
    n = c.size_bytes
    if len(data) == 0:
        raise ValueError("empty encoding")
    if data == b'\x00':
        if allow_infinity:
            return None
        raise ValueError("point at infinity")
    pc = data[0]
    if pc == 4:
        if len(data) != 1 + 2 * n:
            raise ValueError("wrong length for uncompressed point")
        x = int.from_bytes(data[1:1 + n], 'big')
        y = int.from_bytes(data[1 + n:], 'big')
        if x >= c.p or y >= c.p:
            raise ValueError("coordinate out of range")
        if not on_curve(c, (x, y)):
            raise ValueError("point not on curve")
        return (x, y)
    if pc in (2, 3):
        if len(data) != 1 + n:
            raise ValueError("wrong length for compressed point")
        x = int.from_bytes(data[1:], 'big')
        if x >= c.p:
            raise ValueError("coordinate out of range")
        P = decompress_weierstrass(c, x, pc & 1)
        if P is None:
            raise ValueError("x is not the abscissa of a curve point")
        return P
    raise ValueError("unsupported prefix 0x%02x" % pc)


# --------------------------------------------------------------------------
# ECDSA (FIPS 186-4 6.4 / SEC 1 4.1), RFC 6979
# --------------------------------------------------------------------------

def hash_to_int(curve_or_n, h):
    """Leftmost min(8*len(h), bitlen(n)) bits of h as an integer."""
    n = curve_or_n if isinstance(curve_or_n, int) else _curve(curve_or_n).order
    nbits = n.bit_length()
    e = int.from_bytes(bytes(h), 'big')
    hbits = 8 * len(h)
    if hbits > nbits:
        e >>= hbits - nbits
    return e


def ecdsa_sign(curve, d, e, k):
    c = _curve(curve)
    n = c.order
    if not isinstance(e, int):
        e = hash_to_int(c, e)
    if not (1 <= d < n):
        raise ValueError("private key out of range")
    if not (1 <= k < n):
        raise ValueError("nonce out of range")
    R = mul(c, k, c.G)
    r = R[0] % n
    if r == 0:
        raise ValueError("r == 0")
    s = pow(k, -1, n) * (e + r * d) % n
    if s == 0:
        raise ValueError("s == 0")
    return (r, s)


def ecdsa_verify(curve, Q, h, r, s):
    c = _curve(curve)
    n = c.order
    if Q is None or not on_curve(c, Q):
        return False
    if not (1 <= r < n and 1 <= s < n):
        return False
    e = h if isinstance(h, int) else hash_to_int(c, h)
    w = pow(s, -1, n)
    u1 = e * w % n
    u2 = r * w % n
    R = add(c, mul(c, u1, c.G), mul(c, u2, Q))
    if R is None:
        return False
    return R[0] % n == r


def rfc6979_gen(q, x, h1, hashname, extra=b""):
    """Generator of successive RFC 6979 3.2 nonce candidates in [1, q-1]."""
    qlen = q.bit_length()
    rlen = (qlen + 7) // 8

    def H(K, m):
        return hmac.new(K, m, hashname).digest()

    def bits2int(b):
        v = int.from_bytes(b, 'big')
        blen = 8 * len(b)
        return v >> (blen - qlen) if blen > qlen else v

    def int2octets(v):
        return v.to_bytes(rlen, 'big')

    def bits2octets(b):
        z1 = bits2int(b)
        z2 = z1 - q
        return int2octets(z1 if z2 < 0 else z2)

    hlen = hashlib.new(hashname).digest_size
    seed = int2octets(x) + bits2octets(bytes(h1)) + bytes(extra)
    V = b'\x01' * hlen
    K = b'\x00' * hlen
    K = H(K, V + b'\x00' + seed)
    V = H(K, V)
    K = H(K, V + b'\x01' + seed)
    V = H(K, V)
    while True:
        T = b''
        while len(T) < rlen:
            V = H(K, V)
            T += V
        k = bits2int(T)
        if 1 <= k < q:
            yield k
        K = H(K, V + b'\x00')
        V = H(K, V)


def rfc6979_k(q, x, h1, hashname, extra=b""):
    return next(rfc6979_gen(q, x, h1, hashname, extra))


def ecdsa_sign_rfc6979(curve, d, h1, hashname, extra=b""):
    """Deterministic ECDSA: h1 = H(m) already computed with `hashname`."""
    c = _curve(curve)
    for k in rfc6979_gen(c.order, d, h1, hashname, extra):
        try:
            return ecdsa_sign(c, d, h1, k)
        except ValueError:
            continue


def ecdh(curve, d, Q):
    """SP 800-56A ECC CDH primitive (cofactor 1): x(dQ), fixed length."""
    c = _curve(curve)
    if c.kind != 'weierstrass':
        raise ValueError("ecdh() is for the NIST curves; use x25519/x448")
    if Q is None or not on_curve(c, Q):
        raise ValueError("invalid public point")
    P = mul(c, c.cofactor * d, Q)
    if P is None:
        raise ValueError("shared point is the neutral element")
    return P[0].to_bytes(c.size_bytes, 'big')


# --------------------------------------------------------------------------
# Edwards encodings and EdDSA (RFC 8032)
# --------------------------------------------------------------------------

def ed_encode_point(curve, P):
    c = _curve(curve)
    x, y = P
    nb = c.enc_bytes
    return (y | ((x & 1) << (8 * nb - 1))).to_bytes(nb, 'little')


def ed_decode_point(curve, b):
    c = _curve(curve)
    b = bytes(b)
    nb = c.enc_bytes
    if len(b) != nb:
        raise ValueError("wrong length for an encoded point")
    v = int.from_bytes(b, 'little')
    sign = v >> (8 * nb - 1)
    y = v & ((1 << (8 * nb - 1)) - 1)
    if y >= c.p:                      # for Ed448 this also rejects the 7
        raise ValueError("y >= p")    # spare bits of the last octet
    x = _ed_recover_x(c.p, c.a, c.d, y, sign)
    if x is None:
        raise ValueError("not a valid point encoding")
    return (x, y)


def _sha512(m):
    return hashlib.sha512(m).digest()


def _shake256_114(m):
    return hashlib.shake_256(m).digest(114)


def _dom(curvename, ctx, ph):
    ctx = bytes(ctx)
    if len(ctx) > 255:
        raise ValueError("context too long")
    if curvename == 'ed25519':
        if not ph and len(ctx) == 0:
            return b""
        return b"SigEd25519 no Ed25519 collisions" + \
            bytes([1 if ph else 0, len(ctx)]) + ctx
    return b"SigEd448" + bytes([1 if ph else 0, len(ctx)]) + ctx


def _ed_params(curvename):
    if curvename == 'ed25519':
        return CURVES['ed25519'], _sha512, 32
    if curvename == 'ed448':
        return CURVES['ed448'], _shake256_114, 57
    raise ValueError("unknown EdDSA curve %r" % (curvename,))


def ed_expand_seed(curvename, seed):
    """-> (secret scalar a, prefix) per RFC 8032 5.1.5 / 5.2.5."""
    c, H, nb = _ed_params(curvename)
    seed = bytes(seed)
    if len(seed) != nb:
        raise ValueError("wrong seed length")
    h = H(seed)
    s = bytearray(h[:nb])
    if curvename == 'ed25519':
        s[0] &= 0xF8
        s[31] &= 0x7F
        s[31] |= 0x40
    else:
        s[0] &= 0xFC
        s[55] |= 0x80
        s[56] = 0
    return int.from_bytes(s, 'little'), h[nb:]


def ed_public(curvename, seed):
    c, H, nb = _ed_params(curvename)
    a, _ = ed_expand_seed(curvename, seed)
    return ed_encode_point(c, mul(c, a, c.G))


def ed25519_public(seed32):
    return ed_public('ed25519', seed32)


def ed448_public(seed57):
    return ed_public('ed448', seed57)


def ed_prehash(curvename, msg):
    """PH(M) for Ed25519ph / Ed448ph (64 bytes either way)."""
    if curvename == 'ed25519':
        return hashlib.sha512(bytes(msg)).digest()
    return hashlib.shake_256(bytes(msg)).digest(64)


def eddsa_sign(curvename, seed, msg, ctx=b"", ph=False):
    """msg is PH(M) (64 bytes, see ed_prehash) when ph=True."""
    c, H, nb = _ed_params(curvename)
    L = c.order
    a, prefix = ed_expand_seed(curvename, seed)
    A = ed_encode_point(c, mul(c, a, c.G))
    dom = _dom(curvename, ctx, ph)
    msg = bytes(msg)
    r = int.from_bytes(H(dom + prefix + msg), 'little') % L
    R = ed_encode_point(c, mul(c, r, c.G))
    k = int.from_bytes(H(dom + R + A + msg), 'little') % L
    S = (r + k * a) % L
    return R + S.to_bytes(nb, 'little')


def eddsa_verify(curvename, pub, msg, sig, ctx=b"", ph=False, cofactored=True):
    c, H, nb = _ed_params(curvename)
    L = c.order
    pub = bytes(pub)
    sig = bytes(sig)
    if len(sig) != 2 * nb or len(pub) != nb:
        return False
    try:
        A = ed_decode_point(c, pub)
        R = ed_decode_point(c, sig[:nb])
        dom = _dom(curvename, ctx, ph)
    except ValueError:
        return False
    S = int.from_bytes(sig[nb:], 'little')
    if S >= L:
        return False
    k = int.from_bytes(H(dom + sig[:nb] + pub + bytes(msg)), 'little') % L
    lhs = mul(c, S, c.G)
    rhs = add(c, R, mul(c, k, A))
    if cofactored:
        lhs = mul(c, c.cofactor, lhs)
        rhs = mul(c, c.cofactor, rhs)
    return lhs == rhs


# --------------------------------------------------------------------------
# Montgomery x-only (RFC 7748)
# --------------------------------------------------------------------------

def mont_ladder(curve, k, u, nbits=None):
    """RFC 7748 section 5 ladder.  Returns (x2, z2) projective."""
    c = _curve(curve)
    p, a24 = c.p, c.a24
    if nbits is None:
        nbits = max(k.bit_length(), 1)
    x1 = u % p
    x2, z2, x3, z3 = 1, 0, x1, 1
    swap = 0
    for t in range(nbits - 1, -1, -1):
        kt = (k >> t) & 1
        swap ^= kt
        if swap:
            x2, x3 = x3, x2
            z2, z3 = z3, z2
        swap = kt
        A = (x2 + z2) % p
        AA = A * A % p
        B = (x2 - z2) % p
        BB = B * B % p
        E = (AA - BB) % p
        C = (x3 + z3) % p
        D = (x3 - z3) % p
        DA = D * A % p
        CB = C * B % p
        x3 = (DA + CB) % p
        x3 = x3 * x3 % p
        z3 = (DA - CB) % p
        z3 = x1 * z3 * z3 % p
        x2 = AA * BB % p
        z2 = E * (AA + a24 * E) % p
    if swap:
        x2, x3 = x3, x2
        z2, z3 = z3, z2
    return x2, z2


def mont_mul_x(curve, k, u):
    """u-coordinate of k*(u, .) (any k >= 0, no clamping); None = infinity."""
    c = _curve(curve)
    x2, z2 = mont_ladder(c, k, u)
    if z2 == 0:
        return None
    return x2 * pow(z2, -1, c.p) % c.p


def _xdh(c, k, u):
    x2, z2 = mont_ladder(c, k, u, c.bits)
    return x2 * pow(z2, c.p - 2, c.p) % c.p


def x25519(k, u):
    k = bytes(k)
    u = bytes(u)
    if len(k) != 32 or len(u) != 32:
        raise ValueError("X25519 takes 32-byte strings")
    kk = bytearray(k)
    kk[0] &= 248
    kk[31] &= 127
    kk[31] |= 64
    uu = bytearray(u)
    uu[31] &= 127
    r = _xdh(CURVES['curve25519'], int.from_bytes(kk, 'little'),
             int.from_bytes(uu, 'little'))
    return r.to_bytes(32, 'little')


def x448(k, u):
    k = bytes(k)
    u = bytes(u)
    if len(k) != 56 or len(u) != 56:
        raise ValueError("X448 takes 56-byte strings")
    kk = bytearray(k)
    kk[0] &= 252
    kk[55] |= 128
    r = _xdh(CURVES['curve448'], int.from_bytes(kk, 'little'),
             int.from_bytes(u, 'little'))
    return r.to_bytes(56, 'little')


def x25519_base(k):
    return x25519(k, (9).to_bytes(32, 'little'))


def x448_base(k):
    return x448(k, (5).to_bytes(56, 'little'))


def _small_order_us(c):
    """u-coordinates (on the curve or its twist) of points whose order
    divides the cofactor, found by killing the large prime parts."""
    p = c.p
    n_curve = c.cofactor * c.order
    n_twist = 2 * p + 2 - n_curve
    kill = 1
    for n in (n_curve, n_twist):
        while n % 2 == 0:
            n //= 2
        kill *= n
    found = set([0])
    for u in range(2, 130):
        r = mont_mul_x(c, kill, u)
        if r is not None:
            found.add(r)
    return sorted(found)


LOW_ORDER_U_25519 = [
    0,
    1,
    325606250916557431795983626356110631294008115727848805560023387167927233504,
    39382357235489614581723060781553021112529911719440698176882885853963445705823,
    _P25519 - 1,
]

LOW_ORDER_U_448 = [0, 1, _P448 - 1]


# --------------------------------------------------------------------------
# self-validation of the constants
# --------------------------------------------------------------------------

def validate_curves():
    for name, c in CURVES.items():
        assert c.name == name
        p, n, h = c.p, c.order, c.cofactor
        assert is_probable_prime(p), name + ": p not prime"
        assert is_probable_prime(n), name + ": n not prime"
        G = c.G
        assert on_curve(c, G), name + ": G not on curve"
        assert not is_neutral(c, G)
        assert is_neutral(c, mul(c, n, G)), name + ": n*G != O"
        # Hasse: #E = h*n must lie within 2*sqrt(p) of p+1
        assert (h * n - (p + 1)) ** 2 <= 4 * p, name + ": Hasse bound"
        if c.kind == 'weierstrass':
            assert c.size_bytes == (p.bit_length() + 7) // 8
            assert c.a == -3 and h == 1
            assert (4 * c.a ** 3 + 27 * c.b ** 2) % p != 0
        elif c.kind == 'edwards':
            # completeness: a square, d non-square
            assert sqrt_mod(c.a, p) is not None
            assert sqrt_mod(c.d, p) is None
            # (0, -1) has order 2, so the cofactor is even
            assert on_curve(c, (0, p - 1)) and mul(c, 2, (0, p - 1)) == (0, 1)
        else:
            assert c.a24 * 4 + 2 == c.A
            assert mont_mul_x(c, n, c.Gu) is None
            assert mont_mul_x(c, 1, c.Gu) == c.Gu


_fix_montgomery_Gv()
validate_curves()


# --------------------------------------------------------------------------
# selftest with published vectors
# --------------------------------------------------------------------------

def _h(s):
    return bytes.fromhex(s.replace(" ", "").replace("\n", ""))


def selftest():
    validate_curves()

    # sqrt_mod on a prime with high 2-adicity (p224: p-1 = 2^96 * odd)
    p = CURVES['p224'].p
    for a in (2, 3, 5, 1234567):
        r = sqrt_mod(a * a % p, p)
        assert r in (a, p - a)
    assert sqrt_mod(11, p) is None or pow(sqrt_mod(11, p), 2, p) == 11

    # group-law sanity on every curve
    for name, c in CURVES.items():
        G = c.G
        P5 = mul(c, 5, G)
        assert add(c, mul(c, 2, G), mul(c, 3, G)) == P5
        assert add(c, P5, c.neutral) == P5 and add(c, c.neutral, P5) == P5
        assert is_neutral(c, add(c, P5, neg(c, P5)))
        assert double(c, P5) == mul(c, 10, G)
        assert mul(c, c.order + 5, G) == P5
        assert is_neutral(c, mul(c, 0, G))
        assert on_curve(c, P5)
        if c.kind == 'montgomery':
            assert mont_mul_x(c, 5, c.Gu) == P5[0]

    # ---- RFC 6979 A.2.5 (P-256) ----
    c = CURVES['p256']
    x = 0xC9AFA9D845BA75166B5C215767B1D6934E50C3DB36E89B127B8A622B120F6721
    U = mul(c, x, c.G)
    assert U == (0x60FED4BA255A9D31C961EB74C6356D68C049B8923B61FA6CE669622E60F29FB6,
                 0x7903FE1008B8BC99A41AE9E95628BC64F2F1B20C2D7E9F5177A3C294D4462299)
    vecs = [
        ('sha256', b"sample",
         0xA6E3C57DD01ABE90086538398355DD4C3B17AA873382B0F24D6129493D8AAD60,
         0xEFD48B2AACB6A8FD1140DD9CD45E81D69D2C877B56AAF991C34D0EA84EAF3716,
         0xF7CB1C942D657C41D436C7A1B6E29F65F3E900DBB9AFF4064DC4AB2F843ACDA8),
        ('sha256', b"test",
         0xD16B6AE827F17175E040871A1C7EC3500192C4C92677336EC2537ACAEE0008E0,
         0xF1ABB023518351CD71D881567B1EA663ED3EFCF6C5132B354F28D3B0B7D38367,
         0x019F4113742A2B14BD25926B49C649155F267E60D3814B4C0CC84250E46F0083),
        ('sha512', b"sample",
         0x5FA81C63109BADB88C1F367B47DA606DA28CAD69AA22C4FE6AD7DF73A7173AA5,
         0x8496A60B5E9B47C825488827E0495B0E3FA109EC4568FD3F8D1097678EB97F00,
         0x2362AB1ADBE2B8ADF9CB9EDAB740EA6049C028114F2460F96554F61FAE3302FE),
    ]
    for hn, m, k, r, s in vecs:
        h1 = hashlib.new(hn, m).digest()
        assert rfc6979_k(c.order, x, h1, hn) == k, "rfc6979 k " + hn
        assert ecdsa_sign(c, x, h1, k) == (r, s), "ecdsa sign " + hn
        assert ecdsa_sign_rfc6979(c, x, h1, hn) == (r, s)
        assert ecdsa_verify(c, U, h1, r, s)
        assert not ecdsa_verify(c, U, h1, r, (s + 1) % c.order)
        assert not ecdsa_verify(c, U, h1, r + c.order, s)
        assert not ecdsa_verify(c, U, h1, 0, s)

    # ---- RFC 6979 A.2.3 (P-192, hash longer than n) ----
    c = CURVES['p192']
    x = 0x6FAB034934E4C0FC9AE67F5B5659A9D7D1FEFD187EE09FD4
    h1 = hashlib.sha256(b"sample").digest()
    k = rfc6979_k(c.order, x, h1, 'sha256')
    assert k == 0x32B1B6D7D42A05CB449065727A84804FB1A3E34D8F261496
    assert ecdsa_sign(c, x, h1, k) == (
        0x4B0B8CE98A92866A2820E20AA6B75B56382E0F9BFD5ECB55,
        0xCCDB006926EA9565CBADC840829D8C384E06DE1F1E381B85)

    # SEC1 encodings
    c = CURVES['p256']
    for comp in (False, True):
        enc = sec1_encode(c, U, comp)
        assert sec1_decode(c, enc) == U
        for bad in (enc[:-1], enc + b'\x00', b'\x06' + enc[1:], b'\x00', b''):
            try:
                sec1_decode(c, bad)
                raise AssertionError("accepted bad SEC1 encoding")
            except ValueError:
                pass
    try:
        sec1_decode(c, b'\x04' + U[0].to_bytes(32, 'big') +
                    (U[1] ^ 1).to_bytes(32, 'big'))
        raise AssertionError("accepted off-curve point")
    except ValueError:
        pass
    assert ecdh(c, 7, mul(c, 11, c.G)) == mul(c, 77, c.G)[0].to_bytes(32, 'big')

    # ---- RFC 8032 7.1 (Ed25519) ----
    v25519 = [
        ("9d61b19deffd5a60ba844af492ec2cc44449c5697b326919703bac031cae7f60",
         "d75a980182b10ab7d54bfed3c964073a0ee172f3daa62325af021a68f707511a",
         "",
         "e5564300c360ac729086e2cc806e828a84877f1eb8e5d974d873e06522490155"
         "5fb8821590a33bacc61e39701cf9b46bd25bf5f0595bbe24655141438e7a100b"),
        ("4ccd089b28ff96da9db6c346ec114e0f5b8a319f35aba624da8cf6ed4fb8a6fb",
         "3d4017c3e843895a92b70aa74d1b7ebc9c982ccf2ec4968cc0cd55f12af4660c",
         "72",
         "92a009a9f0d4cab8720e820b5f642540a2b27b5416503f8fb3762223ebdb69da"
         "085ac1e43e15996e458f3613d0f11d8c387b2eaeb4302aeeb00d291612bb0c00"),
        ("c5aa8df43f9f837bedb7442f31dcb7b166d38535076f094b85ce3a2e0b4458f7",
         "fc51cd8e6218a1a38da47ed00230f0580816ed13ba3303ac5deb911548908025",
         "af82",
         "6291d657deec24024827e69c3abe01a30ce548a284743a445e3680d7db5ac3ac"
         "18ff9b538d16f290ae67f760984dc6594a7c15e9716ed28dc027beceea1ec40a"),
    ]
    for sk, pk, m, sig in v25519:
        sk, pk, m, sig = _h(sk), _h(pk), _h(m), _h(sig)
        assert ed25519_public(sk) == pk, "ed25519 public"
        assert eddsa_sign('ed25519', sk, m) == sig, "ed25519 sign"
        assert eddsa_verify('ed25519', pk, m, sig)
        assert eddsa_verify('ed25519', pk, m, sig, cofactored=False)
        assert not eddsa_verify('ed25519', pk, m + b'x', sig)
        # S + L must be rejected
        S = int.from_bytes(sig[32:], 'little') + CURVES['ed25519'].order
        assert not eddsa_verify('ed25519', pk, m, sig[:32] + S.to_bytes(32, 'little'))
    # Ed25519ctx (7.2, first vector: "foo")
    sk = _h("0305334e381af78f141cb666f6199f57bc3495335a256a95bd2a55bf546663f6")
    pk = _h("dfc9425e4f968f7f0c29f0259cf5f9aed6851c2bb4ad8bfb860cfee0ab248292")
    m = _h("f726936d19c800494e3fdaff20b276a8")
    sig = _h("55a4cc2f70a54e04288c5f4cd1e45a7bb520b36292911876cada7323198dd87a"
             "8b36950b95130022907a7fb7c4e9b2d5f6cca685a587b4b21f4b888e4e7edb0d")
    assert ed25519_public(sk) == pk
    assert eddsa_sign('ed25519', sk, m, ctx=b"foo") == sig, "ed25519ctx"
    assert eddsa_verify('ed25519', pk, m, sig, ctx=b"foo")
    assert not eddsa_verify('ed25519', pk, m, sig, ctx=b"bar")
    # Ed25519ph (7.3)
    sk = _h("833fe62409237b9d62ec77587520911e9a759cec1d19755b7da901b96dca3d42")
    pk = _h("ec172b93ad5e563bf4932c70e1245034c35467ef2efd4d64ebf819683467e2bf")
    sig = _h("98a70222f0b8121aa9d30f813d683f809e462b469c7ff87639499bb94e6dae41"
             "31f85042463c2a355a2003d062adf5aaa10b8c61e636062aaad11c2a26083406")
    phm = ed_prehash('ed25519', b"abc")
    assert ed25519_public(sk) == pk
    assert eddsa_sign('ed25519', sk, phm, ph=True) == sig, "ed25519ph"
    assert eddsa_verify('ed25519', pk, phm, sig, ph=True)

    # strict decoding: y = p (non canonical 1... ) and x=0 with sign bit
    c = CURVES['ed25519']
    for bad in ((c.p).to_bytes(32, 'little'),                 # y = p
                (c.p + 1).to_bytes(32, 'little'),             # y = p+1
                (1 | (1 << 255)).to_bytes(32, 'little'),      # x=0, sign=1
                (2).to_bytes(32, 'little')):                  # non-square
        try:
            ed_decode_point(c, bad)
            raise AssertionError("accepted bad Ed25519 encoding")
        except ValueError:
            pass
    assert ed_decode_point(c, (1).to_bytes(32, 'little')) == (0, 1)

    # ---- RFC 8032 7.4 (Ed448) ----
    sk = _h("6c82a562cb808d10d632be89c8513ebf6c929f34ddfa8c9f63c9960ef6e348a3"
            "528c8a3fcc2f044e39a3fc5b94492f8f032e7549a20098f95b")
    pk = _h("5fd7449b59b461fd2ce787ec616ad46a1da1342485a70e1f8a0ea75d80e96778"
            "edf124769b46c7061bd6783df1e50f6cd1fa1abeafe8256180")
    sig = _h("533a37f6bbe457251f023c0d88f976ae2dfb504a843e34d2074fd823d41a591f"
             "2b233f034f628281f2fd7a22ddd47d7828c59bd0a21bfd3980ff0d2028d4b18a"
             "9df63e006c5d1c2d345b925d8dc00b4104852db99ac5c7cdda8530a113a0f4db"
             "b61149f05a7363268c71d95808ff2e652600")
    assert ed448_public(sk) == pk, "ed448 public"
    assert eddsa_sign('ed448', sk, b"") == sig, "ed448 sign"
    assert eddsa_verify('ed448', pk, b"", sig)
    assert eddsa_verify('ed448', pk, b"", sig, cofactored=False)
    assert not eddsa_verify('ed448', pk, b"", sig, ctx=b"x")
    # 1 octet, with and without context
    sk = _h("c4eab05d357007c632f3dbb48489924d552b08fe0c353a0d4a1f00acda2c463a"
            "fbea67c5e8d2877c5e3bc397a659949ef8021e954e0a12274e")
    pk = _h("43ba28f430cdff456ae531545f7ecd0ac834a55d9358c0372bfa0c6c6798c086"
            "6aea01eb00742802b8438ea4cb82169c235160627b4c3a9480")
    sig = _h("26b8f91727bd62897af15e41eb43c377efb9c610d48f2335cb0bd0087810f435"
             "2541b143c4b981b7e18f62de8ccdf633fc1bf037ab7cd779805e0dbcc0aae1cb"
             "cee1afb2e027df36bc04dcecbf154336c19f0af7e0a6472905e799f1953d2a0f"
             "f3348ab21aa4adafd1d234441cf807c03a00")
    assert ed448_public(sk) == pk
    assert eddsa_sign('ed448', sk, _h("03")) == sig, "ed448 sign 1 octet"
    sig = _h("d4f8f6131770dd46f40867d6fd5d5055de43541f8c5e35abbcd001b32a89f7d2"
             "151f7647f11d8ca2ae279fb842d607217fce6e042f6815ea000c85741de5c8da"
             "1144a6a1aba7f96de42505d7a7298524fda538fccbbb754f578c1cad10d54d0d"
             "5428407e85dcbc98a49155c13764e66c3c00")
    assert eddsa_sign('ed448', sk, _h("03"), ctx=b"foo") == sig, "ed448 ctx"
    assert eddsa_verify('ed448', pk, _h("03"), sig, ctx=b"foo")
    c = CURVES['ed448']
    good = ed_encode_point(c, c.G)
    assert len(good) == 57 and ed_decode_point(c, good) == c.G
    for bad in (good[:56] + bytes([good[56] | 0x01]),
                good[:56] + bytes([good[56] | 0x40]),
                (c.p).to_bytes(57, 'little'),
                (1 | (1 << 455)).to_bytes(57, 'little'),
                good[:56]):
        try:
            ed_decode_point(c, bad)
            raise AssertionError("accepted bad Ed448 encoding")
        except ValueError:
            pass

    # ---- RFC 7748 5.2 ----
    assert x25519(
        _h("a546e36bf0527c9d3b16154b82465edd62144c0ac1fc5a18506a2244ba449ac4"),
        _h("e6db6867583030db3594c1a424b15f7c726624ec26b3353b10a903a6d0ab1c4c")) == \
        _h("c3da55379de9c6908e94ea4df28d084f32eccf03491c71f754b4075577a28552")
    assert x25519(
        _h("4b66e9d4d1b4673c5ad22691957d6af5c11b6421e0ea01d42ca4169e7918ba0d"),
        _h("e5210f12786811d3f4b7959d0538ae2c31dbe7106fc03c3efc4cd549c715a493")) == \
        _h("95cbde9476e8907d7aade45cb4b873f88b595a68799fa152e6f8f7647aac7957")
    k = u = (9).to_bytes(32, 'little')
    for i in range(1000):
        k, u = x25519(k, u), k
        if i == 0:
            assert k == _h("422c8e7a6227d7bca1350b3e2bb7279f7897b87bb6854b783c60e80311ae3079")
    assert k == _h("684cf59ba83309552800ef566f2f4d3c1c3887c49360e3875f2eb94d99532c51")
    assert x448(
        _h("3d262fddf9ec8e88495266fea19a34d28882acef045104d0d1aae121700a779c"
           "984c24f8cdd78fbff44943eba368f54b29259a4f1c600ad3"),
        _h("06fce640fa3487bfda5f6cf2d5263f8aad88334cbd07437f020f08f9814dc031"
           "ddbdc38c19c6da2583fa5429db94ada18aa7a7fb4ef8a086")) == \
        _h("ce3e4ff95a60dc6697da1db1d85e6afbdf79b50a2412d7546d5f239fe14fbaad"
           "eb445fc66a01b0779d98223961111e21766282f73dd96b6f")
    k = u = (5).to_bytes(56, 'little')
    k, u = x448(k, u), k
    assert k == _h("3f482c8a9f19b01e6c46ee9711d9dc14fd4bf67af30765c2ae2b846a4d23a8cd"
                   "0db897086239492caf350b51f833868b9bc2b3bca9cf4113")
    # ---- RFC 7748 6.1 / 6.2 ----
    a = _h("77076d0a7318a57d3c16c17251b26645df4c2f87ebc0992ab177fba51db92c2a")
    b = _h("5dab087e624a8a4b79e17f8b83800ee66f3bb1292618b6fd1c2f8b27ff88e0eb")
    A = _h("8520f0098930a754748b7ddcb43ef75a0dbf3a0d26381af4eba4a98eaa9b4e6a")
    B = _h("de9edb7d7b7dc1b4d35b61c2ece435373f8343c85b78674dadfc7e146f882b4f")
    K = _h("4a5d9d5ba4ce2de1728e3bf480350f25e07e21c947d19e3376f09b3c1e161742")
    assert x25519_base(a) == A and x25519_base(b) == B
    assert x25519(a, B) == K and x25519(b, A) == K
    a = _h("9a8f4925d1519f5775cf46b04b5800d4ee9ee8bae8bc5565d498c28dd9c9baf5"
           "74a9419744897391006382a6f127ab1d9ac2d8c0a598726b")
    b = _h("1c306a7ac2a0e2e0990b294470cba339e6453772b075811d8fad0d1d6927c120"
           "bb5ee8972b0d3e21374c9c921b09d1b0366f10b65173992d")
    A = _h("9b08f7cc31b7e3e67d22d5aea121074a273bd2b83de09c63faa73d2c22c5d9bb"
           "c836647241d953d40c5b12da88120d53177f80e532c41fa0")
    B = _h("3eb7a829b0cd20f5bcfc0b599b6feccf6da4627107bdb0d4f345b43027d8b972"
           "fc3e34fb4232a13ca706dcb57aec3dae07bdc1c67bf33609")
    K = _h("07fff4181ac6cc95ec1c16a94a0f74d12da232ce40a77552281d282bb60c0b56"
           "fd2464c335543936521c24403085d59a449a5037514a879d")
    assert x448_base(a) == A and x448_base(b) == B
    assert x448(a, B) == K and x448(b, A) == K

    # low-order u-coordinates: listed == computed, and all give zero output
    assert _small_order_us(CURVES['curve25519']) == sorted(LOW_ORDER_U_25519)
    assert _small_order_us(CURVES['curve448']) == sorted(LOW_ORDER_U_448)
    ks = [bytes(range(i, i + 56)) for i in (1, 77, 200)]
    for u in LOW_ORDER_U_25519:
        for k in ks:
            assert x25519(k[:32], u.to_bytes(32, 'little')) == bytes(32)
    for u in LOW_ORDER_U_448:
        for k in ks:
            assert x448(k, u.to_bytes(56, 'little')) == bytes(56)
    # masking of bit 255 and reduction mod p of non-canonical u
    k = ks[0][:32]
    assert x25519(k, (9 | (1 << 255)).to_bytes(32, 'little')) == x25519_base(k)
    assert x25519(k, (_P25519 + 9).to_bytes(32, 'little')) == x25519_base(k)
    assert x448(ks[0], (_P448 + 5).to_bytes(56, 'little')) == x448_base(ks[0])
    return True


if __name__ == "__main__":
    selftest()
    print("OK")
