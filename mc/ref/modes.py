"""Pure-Python reference implementations of block-cipher modes and AEADs.

Written from the specifications (NIST SP 800-38A/B/C/D/F, RFC 3394, RFC 3610,
RFC 4880, RFC 5297, RFC 5649, RFC 7253, RFC 8439, the EAX paper and the
XChaCha20 draft).  Only the standard library is imported.

Every mode is generic over a *block cipher object* ``c`` exposing

    c.block_size            (bytes)
    c.encrypt_block(b) -> bytes
    c.decrypt_block(b) -> bytes

All functions return ``bytes`` (or tuples of ``bytes``) and raise
``ValueError`` for parameters that the relevant specification forbids or for
failed authentication.
"""

from functools import lru_cache

__all__ = [
    "ecb_encrypt", "ecb_decrypt", "cbc_encrypt", "cbc_decrypt",
    "cfb_encrypt", "cfb_decrypt", "ofb_crypt", "ctr_blocks", "ctr_crypt",
    "openpgp_encrypt", "openpgp_decrypt", "cmac",
    "gf128_mul", "ghash", "gcm_j0", "gcm_encrypt", "gcm_decrypt", "gcm_tag",
    "ccm_encrypt", "ccm_decrypt", "ccm_tag",
    "eax_encrypt", "eax_decrypt",
    "s2v", "siv_encrypt", "siv_decrypt",
    "ocb_encrypt", "ocb_decrypt",
    "kw_W", "kw_W_inv", "kw_raw_wrap", "kw_raw_unwrap",
    "kw_wrap", "kw_unwrap", "kwp_wrap", "kwp_unwrap",
    "chacha20_poly1305_encrypt", "chacha20_poly1305_decrypt",
    "selftest",
]


# --------------------------------------------------------------------------
# helpers
# --------------------------------------------------------------------------

def _i(b):
    return int.from_bytes(b, "big")


def _b(x, n):
    return x.to_bytes(n, "big")


def _xor(a, b):
    """XOR of two equal-length byte strings."""
    if len(a) != len(b):
        raise ValueError("length mismatch in xor")
    return (int.from_bytes(a, "big") ^ int.from_bytes(b, "big")).to_bytes(len(a), "big")


def _xor_ks(data, ks):
    """XOR data with the first len(data) bytes of ks (len(ks) >= len(data))."""
    n = len(data)
    return (int.from_bytes(data, "big") ^ int.from_bytes(ks[:n], "big")).to_bytes(n, "big")


def _check_iv(c, iv):
    if len(iv) != c.block_size:
        raise ValueError("IV must be exactly one block long")


# --------------------------------------------------------------------------
# SP 800-38A: ECB, CBC, CFB-s, OFB, CTR
# --------------------------------------------------------------------------

def ecb_encrypt(c, pt):
    pt = bytes(pt)
    bs = c.block_size
    if len(pt) % bs:
        raise ValueError("ECB input must be a multiple of the block size")
    return b"".join(c.encrypt_block(pt[i:i + bs]) for i in range(0, len(pt), bs))


def ecb_decrypt(c, ct):
    ct = bytes(ct)
    bs = c.block_size
    if len(ct) % bs:
        raise ValueError("ECB input must be a multiple of the block size")
    return b"".join(c.decrypt_block(ct[i:i + bs]) for i in range(0, len(ct), bs))


def cbc_encrypt(c, iv, pt):
    pt = bytes(pt)
    iv = bytes(iv)
    bs = c.block_size
    _check_iv(c, iv)
    if len(pt) % bs:
        raise ValueError("CBC input must be a multiple of the block size")
    out = []
    prev = iv
    for i in range(0, len(pt), bs):
        prev = c.encrypt_block(_xor(pt[i:i + bs], prev))
        out.append(prev)
    return b"".join(out)


def cbc_decrypt(c, iv, ct):
    ct = bytes(ct)
    iv = bytes(iv)
    bs = c.block_size
    _check_iv(c, iv)
    if len(ct) % bs:
        raise ValueError("CBC input must be a multiple of the block size")
    out = []
    prev = iv
    for i in range(0, len(ct), bs):
        blk = ct[i:i + bs]
        out.append(_xor(c.decrypt_block(blk), prev))
        prev = blk
    return b"".join(out)


def _cfb_seg(c, segment_bits):
    bs = c.block_size
    if not isinstance(segment_bits, int) or segment_bits % 8 or not 8 <= segment_bits <= 8 * bs:
        raise ValueError("segment size must be a multiple of 8 bits in 8..block size")
    return segment_bits // 8


def cfb_encrypt(c, iv, pt, segment_bits=8):
    """CFB-s.  A final partial segment is processed by truncation."""
    pt = bytes(pt)
    iv = bytes(iv)
    s = _cfb_seg(c, segment_bits)
    _check_iv(c, iv)
    reg = iv
    out = []
    for i in range(0, len(pt), s):
        seg = pt[i:i + s]
        cseg = _xor_ks(seg, c.encrypt_block(reg))      # P_j xor MSB_s(O_j)
        out.append(cseg)
        reg = reg[s:] + cseg                           # LSB_{b-s}(I_j) || C_j
    return b"".join(out)


def cfb_decrypt(c, iv, ct, segment_bits=8):
    ct = bytes(ct)
    iv = bytes(iv)
    s = _cfb_seg(c, segment_bits)
    _check_iv(c, iv)
    reg = iv
    out = []
    for i in range(0, len(ct), s):
        cseg = ct[i:i + s]
        out.append(_xor_ks(cseg, c.encrypt_block(reg)))
        reg = reg[s:] + cseg
    return b"".join(out)


def ofb_crypt(c, iv, data):
    data = bytes(data)
    iv = bytes(iv)
    bs = c.block_size
    _check_iv(c, iv)
    o = iv
    out = []
    for i in range(0, len(data), bs):
        o = c.encrypt_block(o)
        out.append(_xor_ks(data[i:i + bs], o))
    return b"".join(out)


def ctr_blocks(block_size, nblocks, prefix=b"", suffix=b"", initial_value=0,
               counter_len=None, little_endian=False, start_block=0):
    """List of counter blocks  prefix || counter || suffix.

    The counter field is ``counter_len`` bytes and is incremented modulo
    2**(8*counter_len).  Blocks ``start_block .. start_block+nblocks-1`` of
    the sequence are returned.  Asking (in total) for more than
    2**(8*counter_len) blocks would repeat a counter block: OverflowError.
    """
    prefix = bytes(prefix)
    suffix = bytes(suffix)
    if counter_len is None:
        counter_len = block_size - len(prefix) - len(suffix)
    if counter_len < 1 or len(prefix) + counter_len + len(suffix) != block_size:
        raise ValueError("prefix || counter || suffix must be exactly one block, counter >= 1 byte")
    mod = 1 << (8 * counter_len)
    if not 0 <= initial_value < mod:
        raise ValueError("initial counter value does not fit the counter field")
    if nblocks < 0 or start_block < 0:
        raise ValueError("negative block count")
    if start_block + nblocks > mod:
        raise OverflowError("counter wrapped around")
    order = "little" if little_endian else "big"
    return [prefix + ((initial_value + start_block + i) % mod).to_bytes(counter_len, order) + suffix
            for i in range(nblocks)]


def ctr_crypt(c, data, prefix=b"", suffix=b"", initial_value=0, counter_len=None,
              little_endian=False, start_block=0):
    data = bytes(data)
    bs = c.block_size
    nblocks = -(-len(data) // bs)
    blocks = ctr_blocks(bs, nblocks, prefix, suffix, initial_value, counter_len,
                        little_endian, start_block)
    ks = b"".join(c.encrypt_block(t) for t in blocks)
    return _xor_ks(data, ks)


# --------------------------------------------------------------------------
# RFC 4880 section 13.9: OpenPGP CFB (with resynchronisation)
# --------------------------------------------------------------------------

def _pgp_cfb(c, fr, data, decrypt):
    bs = c.block_size
    out = []
    for i in range(0, len(data), bs):
        blk = data[i:i + bs]
        o = _xor_ks(blk, c.encrypt_block(fr))
        out.append(o)
        fr = blk if decrypt else o        # only a final block can be partial
    return b"".join(out)


def openpgp_encrypt(c, iv, pt):
    """Return (BS+2 bytes of encrypted IV) || ciphertext.

    ``iv`` is the BS-byte random prefix of RFC 4880; its last two octets are
    repeated, and the feedback register is resynchronised on C[3..BS+2].
    """
    pt = bytes(pt)
    iv = bytes(iv)
    bs = c.block_size
    _check_iv(c, iv)
    fre = c.encrypt_block(bytes(bs))          # steps 1-2: FR = 0, FRE = E(FR)
    c1 = _xor(iv, fre)                        # step 3
    fre = c.encrypt_block(c1)                 # steps 4-5
    c2 = _xor(iv[-2:], fre[:2])               # step 6
    prefix = c1 + c2
    return prefix + _pgp_cfb(c, prefix[2:], pt, False)   # step 7 onwards


def openpgp_decrypt(c, eiv_plus_ct, check=True):
    """Inverse of :func:`openpgp_encrypt`.  With ``check`` the repeated two
    octets of the prefix are verified (ValueError on mismatch)."""
    data = bytes(eiv_plus_ct)
    bs = c.block_size
    if len(data) < bs + 2:
        raise ValueError("OpenPGP ciphertext shorter than the encrypted IV")
    c1, c2 = data[:bs], data[bs:bs + 2]
    iv = _xor(c1, c.encrypt_block(bytes(bs)))
    rep = _xor(c2, c.encrypt_block(c1)[:2])
    if check and rep != iv[-2:]:
        raise ValueError("OpenPGP quick check failed")
    return _pgp_cfb(c, data[2:bs + 2], data[bs + 2:], True)


# --------------------------------------------------------------------------
# SP 800-38B: CMAC (OMAC1)
# --------------------------------------------------------------------------

_RB = {8: 0x1B, 16: 0x87}


def _dbl(x, bs):
    """Multiplication by x in GF(2^(8*bs)) on an integer (MSB-first)."""
    x <<= 1
    if x >> (8 * bs):
        x = (x ^ (1 << (8 * bs))) ^ _RB[bs]
    return x


def cmac(c, msg):
    msg = bytes(msg)
    bs = c.block_size
    if bs not in _RB:
        raise ValueError("CMAC is defined for 64- and 128-bit block ciphers only")
    k1 = _dbl(_i(c.encrypt_block(bytes(bs))), bs)
    n = len(msg)
    if n and n % bs == 0:
        body, last = msg[:-bs], _i(msg[-bs:]) ^ k1
    else:
        r = n % bs
        body = msg[:n - r]
        last = _i(msg[n - r:] + b"\x80" + bytes(bs - r - 1)) ^ _dbl(k1, bs)
    x = 0
    for i in range(0, len(body), bs):
        x = _i(c.encrypt_block(_b(x ^ _i(body[i:i + bs]), bs)))
    return c.encrypt_block(_b(x ^ last, bs))


# --------------------------------------------------------------------------
# SP 800-38D: GHASH and GCM
# --------------------------------------------------------------------------
# A 128-bit block is handled as a big-endian integer: the leftmost bit (int
# bit 127) is the coefficient of x^0, the rightmost (int bit 0) of x^127.

_GCM_R = 0xE1 << 120
_M128 = (1 << 128) - 1


def gf128_mul(x, y):
    """Bit-by-bit product in GF(2^128) (SP 800-38D algorithm 1) on integers."""
    z = 0
    v = y
    for i in range(127, -1, -1):
        if (x >> i) & 1:
            z ^= v
        v = (v >> 1) ^ _GCM_R if v & 1 else v >> 1
    return z


def _make_red8():
    # red[b] = (polynomial held in the low byte, i.e. x^120..x^127) * x^8
    red = []
    for b in range(256):
        v = b
        for _ in range(8):
            v = (v >> 1) ^ _GCM_R if v & 1 else v >> 1
        red.append(v)
    return red


_RED8 = _make_red8()


@lru_cache(maxsize=256)
def _ghash_table(h):
    """T[b] = (byte b placed in the leftmost byte of a block) * H."""
    v = [h]
    for _ in range(7):
        x = v[-1]
        v.append((x >> 1) ^ _GCM_R if x & 1 else x >> 1)
    # bit mask 0x80>>k of the byte is the coefficient of x^k
    t = [0] * 256
    for b in range(1, 256):
        low = b & -b
        t[b] = t[b ^ low] ^ v[7 - (low.bit_length() - 1)]
    return t


def _ghash_blocks(t, y, data):
    """Absorb data (zero-padded to whole blocks) into the GHASH state y."""
    red = _RED8
    if len(data) % 16:
        data = data + bytes(-len(data) % 16)
    for i in range(0, len(data), 16):
        x = (y ^ int.from_bytes(data[i:i + 16], "big")).to_bytes(16, "big")
        z = 0
        for b in reversed(x):                # Horner in x^8, last byte first
            z = (z >> 8) ^ red[z & 0xFF] ^ t[b]
        y = z
    return y


def ghash(h16, aad, ct):
    """GHASH_H(pad(A) || pad(C) || [len(A)]_64 || [len(C)]_64)."""
    h16 = bytes(h16)
    aad = bytes(aad)
    ct = bytes(ct)
    if len(h16) != 16:
        raise ValueError("GHASH key must be 16 bytes")
    t = _ghash_table(_i(h16))
    y = _ghash_blocks(t, 0, aad)
    y = _ghash_blocks(t, y, ct)
    y = _ghash_blocks(t, y, _b(8 * len(aad), 8) + _b(8 * len(ct), 8))
    return _b(y, 16)


def _gcm_check(c, nonce):
    if c.block_size != 16:
        raise ValueError("GCM requires a 128-bit block cipher")
    if len(nonce) < 1:
        raise ValueError("GCM nonce must not be empty")


def _gcm_taglen(taglen):
    if not isinstance(taglen, int) or not 4 <= taglen <= 16:
        raise ValueError("GCM tag length must be 4..16 bytes")


def gcm_j0(c, nonce):
    """Pre-counter block J0 (SP 800-38D section 7.1 step 2)."""
    nonce = bytes(nonce)
    _gcm_check(c, nonce)
    if len(nonce) == 12:
        return nonce + b"\x00\x00\x00\x01"
    h = c.encrypt_block(bytes(16))
    # GHASH_H(IV || 0^(s+64) || [len(IV)]_64) == ghash(H, "", IV)
    return ghash(h, b"", nonce)


def _gctr(c, icb, data):
    # inc32: only the rightmost 32 bits are incremented, modulo 2^32
    return ctr_crypt(c, data, prefix=icb[:12], initial_value=_i(icb[12:]), counter_len=4)


def _inc32(block):
    return block[:12] + _b((_i(block[12:]) + 1) & 0xFFFFFFFF, 4)


def gcm_tag(c, nonce, aad, ct, taglen=16):
    nonce = bytes(nonce)
    _gcm_check(c, nonce)
    _gcm_taglen(taglen)
    h = c.encrypt_block(bytes(16))
    j0 = gcm_j0(c, nonce)
    s = ghash(h, aad, ct)
    return _xor(s, c.encrypt_block(j0))[:taglen]


def gcm_encrypt(c, nonce, aad, pt, taglen=16):
    nonce = bytes(nonce)
    pt = bytes(pt)
    _gcm_check(c, nonce)
    _gcm_taglen(taglen)
    if len(pt) > (1 << 36) - 32:
        raise ValueError("GCM plaintext too long")
    ct = _gctr(c, _inc32(gcm_j0(c, nonce)), pt)
    return ct, gcm_tag(c, nonce, aad, ct, taglen)


def gcm_decrypt(c, nonce, aad, ct, tag):
    nonce = bytes(nonce)
    ct = bytes(ct)
    tag = bytes(tag)
    _gcm_check(c, nonce)
    _gcm_taglen(len(tag))
    if len(ct) > (1 << 36) - 32:
        raise ValueError("GCM ciphertext too long")
    if gcm_tag(c, nonce, aad, ct, len(tag)) != tag:
        raise ValueError("GCM tag mismatch")
    return _gctr(c, _inc32(gcm_j0(c, nonce)), ct)


# --------------------------------------------------------------------------
# SP 800-38C / RFC 3610: CCM
# --------------------------------------------------------------------------

def _ccm_check(c, nonce, taglen, mlen):
    if c.block_size != 16:
        raise ValueError("CCM requires a 128-bit block cipher")
    if not 7 <= len(nonce) <= 13:
        raise ValueError("CCM nonce must be 7..13 bytes")
    if taglen not in (4, 6, 8, 10, 12, 14, 16):
        raise ValueError("CCM tag length must be an even number in 4..16")
    q = 15 - len(nonce)
    if mlen >= 1 << (8 * q):
        raise ValueError("CCM message too long for this nonce length")
    return q


def _ccm_cbcmac(c, nonce, aad, pt, taglen, q):
    flags = (0x40 if aad else 0) | (((taglen - 2) // 2) << 3) | (q - 1)
    b = bytes([flags]) + nonce + _b(len(pt), q)
    a = len(aad)
    if a:
        if a < (1 << 16) - (1 << 8):
            enc = _b(a, 2)
        elif a < 1 << 32:
            enc = b"\xff\xfe" + _b(a, 4)
        else:
            enc = b"\xff\xff" + _b(a, 8)
        b += enc + aad
        b += bytes(-len(b) % 16)
    b += pt + bytes(-len(pt) % 16)
    x = 0
    for i in range(0, len(b), 16):
        x = _i(c.encrypt_block(_b(x ^ _i(b[i:i + 16]), 16)))
    return _b(x, 16)


def _ccm_s0(c, nonce, q):
    return c.encrypt_block(bytes([q - 1]) + nonce + bytes(q))


def _ccm_ctr(c, nonce, q, data):
    return ctr_crypt(c, data, prefix=bytes([q - 1]) + nonce, initial_value=1, counter_len=q)


def ccm_tag(c, nonce, aad, pt, taglen=16):
    nonce, aad, pt = bytes(nonce), bytes(aad), bytes(pt)
    q = _ccm_check(c, nonce, taglen, len(pt))
    t = _ccm_cbcmac(c, nonce, aad, pt, taglen, q)
    return _xor(t, _ccm_s0(c, nonce, q))[:taglen]


def ccm_encrypt(c, nonce, aad, pt, taglen=16):
    nonce, aad, pt = bytes(nonce), bytes(aad), bytes(pt)
    q = _ccm_check(c, nonce, taglen, len(pt))
    return _ccm_ctr(c, nonce, q, pt), ccm_tag(c, nonce, aad, pt, taglen)


def ccm_decrypt(c, nonce, aad, ct, tag):
    nonce, aad, ct, tag = bytes(nonce), bytes(aad), bytes(ct), bytes(tag)
    q = _ccm_check(c, nonce, len(tag), len(ct))
    pt = _ccm_ctr(c, nonce, q, ct)
    if ccm_tag(c, nonce, aad, pt, len(tag)) != tag:
        raise ValueError("CCM tag mismatch")
    return pt


# --------------------------------------------------------------------------
# EAX (Bellare, Rogaway, Wagner)
# --------------------------------------------------------------------------

def _omac_t(c, t, msg):
    bs = c.block_size
    return cmac(c, _b(t, bs) + msg)           # OMAC^t_K(M) = OMAC_K([t]_n || M)


def _eax_taglen(c, taglen):
    if taglen is None:
        return c.block_size
    if not isinstance(taglen, int) or not 1 <= taglen <= c.block_size:
        raise ValueError("EAX tag length must be 1..block size bytes")
    return taglen


def _eax_core(c, nonce, aad, ct):
    n_ = _omac_t(c, 0, nonce)
    h_ = _omac_t(c, 1, aad)
    c_ = _omac_t(c, 2, ct)
    return n_, _xor(_xor(n_, h_), c_)


def eax_encrypt(c, nonce, aad, pt, taglen=None):
    nonce, aad, pt = bytes(nonce), bytes(aad), bytes(pt)
    taglen = _eax_taglen(c, taglen)
    n_ = _omac_t(c, 0, nonce)
    ct = ctr_crypt(c, pt, initial_value=_i(n_))        # n-bit counter, mod 2^n
    _, tag = _eax_core(c, nonce, aad, ct)
    return ct, tag[:taglen]


def eax_decrypt(c, nonce, aad, ct, tag):
    nonce, aad, ct, tag = bytes(nonce), bytes(aad), bytes(ct), bytes(tag)
    _eax_taglen(c, len(tag))
    n_, full = _eax_core(c, nonce, aad, ct)
    if full[:len(tag)] != tag:
        raise ValueError("EAX tag mismatch")
    return ctr_crypt(c, ct, initial_value=_i(n_))


# --------------------------------------------------------------------------
# RFC 5297: S2V and SIV
# --------------------------------------------------------------------------

def s2v(c, components):
    """S2V(K, S1..Sn) exactly as in RFC 5297 section 2.4 (n = 0 included)."""
    if c.block_size != 16:
        raise ValueError("S2V requires a 128-bit block cipher")
    comps = [bytes(s) for s in components]
    if len(comps) > 127:
        raise ValueError("S2V takes at most 127 components")
    if not comps:
        return cmac(c, bytes(15) + b"\x01")               # <one>
    d = _i(cmac(c, bytes(16)))                            # <zero>
    for s in comps[:-1]:
        d = _dbl(d, 16) ^ _i(cmac(c, s))
    sn = comps[-1]
    if len(sn) >= 16:
        t = sn[:-16] + _b(_i(sn[-16:]) ^ d, 16)           # Sn xorend D
    else:
        t = _b(_dbl(d, 16) ^ _i(sn + b"\x80" + bytes(15 - len(sn))), 16)
    return cmac(c, t)


_SIV_MASK = _M128 ^ (1 << 63) ^ (1 << 31)


def _siv_setup(key, mk_cipher, aad_components, nonce):
    key = bytes(key)
    if len(key) % 2 or not key:
        raise ValueError("SIV key must be twice the length of a cipher key")
    half = len(key) // 2
    c1 = mk_cipher(key[:half])
    c2 = mk_cipher(key[half:])
    if c1.block_size != 16:
        raise ValueError("SIV requires a 128-bit block cipher")
    ad = [bytes(a) for a in aad_components]
    if nonce is not None:
        ad.append(bytes(nonce))
    if len(ad) > 126:
        raise ValueError("SIV takes at most 126 associated data components")
    return c1, c2, ad


def siv_encrypt(key, mk_cipher, aad_components, pt, nonce=None):
    pt = bytes(pt)
    c1, c2, ad = _siv_setup(key, mk_cipher, aad_components, nonce)
    v = s2v(c1, ad + [pt])
    ct = ctr_crypt(c2, pt, initial_value=_i(v) & _SIV_MASK)
    return ct, v


def siv_decrypt(key, mk_cipher, aad_components, ct, tag, nonce=None):
    ct, tag = bytes(ct), bytes(tag)
    c1, c2, ad = _siv_setup(key, mk_cipher, aad_components, nonce)
    if len(tag) != 16:
        raise ValueError("SIV tag must be 16 bytes")
    pt = ctr_crypt(c2, ct, initial_value=_i(tag) & _SIV_MASK)
    if s2v(c1, ad + [pt]) != tag:
        raise ValueError("SIV tag mismatch")
    return pt


# --------------------------------------------------------------------------
# RFC 7253: OCB3
# --------------------------------------------------------------------------

def _ntz(i):
    return (i & -i).bit_length() - 1


class _OCBKey(object):
    def __init__(self, c):
        if c.block_size != 16:
            raise ValueError("OCB requires a 128-bit block cipher")
        self.c = c
        self.l_star = _i(c.encrypt_block(bytes(16)))
        self.l_dollar = _dbl(self.l_star, 16)
        self.l = [_dbl(self.l_dollar, 16)]

    def L(self, i):
        while len(self.l) <= i:
            self.l.append(_dbl(self.l[-1], 16))
        return self.l[i]

    def enc(self, x):
        return _i(self.c.encrypt_block(_b(x, 16)))

    def dec(self, x):
        return _i(self.c.decrypt_block(_b(x, 16)))

    def hash(self, a):
        s = 0
        off = 0
        m = len(a) // 16
        for i in range(1, m + 1):
            off ^= self.L(_ntz(i))
            s ^= self.enc(_i(a[16 * (i - 1):16 * i]) ^ off)
        rest = a[16 * m:]
        if rest:
            off ^= self.l_star
            s ^= self.enc(_i(rest + b"\x80" + bytes(15 - len(rest))) ^ off)
        return s

    def offset0(self, nonce, taglen):
        # Nonce = num2str(TAGLEN mod 128, 7) || zeros(120-bitlen(N)) || 1 || N
        nb = (((8 * taglen) % 128) << 121) | (1 << (8 * len(nonce))) | _i(nonce)
        bottom = nb & 0x3F
        ktop = self.enc(nb ^ bottom)
        stretch = (ktop << 64) | ((ktop >> 64) ^ ((ktop >> 56) & 0xFFFFFFFFFFFFFFFF))
        return (stretch >> (64 - bottom)) & _M128


def _ocb_check(nonce, taglen):
    if not 1 <= len(nonce) <= 15:
        raise ValueError("OCB nonce must be 1..15 bytes")
    if not isinstance(taglen, int) or not 1 <= taglen <= 16:
        raise ValueError("OCB tag length must be 1..16 bytes")


def ocb_encrypt(c, nonce, aad, pt, taglen=16):
    nonce, aad, pt = bytes(nonce), bytes(aad), bytes(pt)
    _ocb_check(nonce, taglen)
    k = _OCBKey(c)
    off = k.offset0(nonce, taglen)
    checksum = 0
    out = []
    m = len(pt) // 16
    for i in range(1, m + 1):
        p = _i(pt[16 * (i - 1):16 * i])
        off ^= k.L(_ntz(i))
        out.append(_b(off ^ k.enc(p ^ off), 16))
        checksum ^= p
    rest = pt[16 * m:]
    if rest:
        off ^= k.l_star
        pad = _b(k.enc(off), 16)
        out.append(_xor_ks(rest, pad))
        checksum ^= _i(rest + b"\x80" + bytes(15 - len(rest)))
    tag = k.enc(checksum ^ off ^ k.l_dollar) ^ k.hash(aad)
    return b"".join(out), _b(tag, 16)[:taglen]


def ocb_decrypt(c, nonce, aad, ct, tag):
    nonce, aad, ct, tag = bytes(nonce), bytes(aad), bytes(ct), bytes(tag)
    taglen = len(tag)
    _ocb_check(nonce, taglen)
    k = _OCBKey(c)
    off = k.offset0(nonce, taglen)
    checksum = 0
    out = []
    m = len(ct) // 16
    for i in range(1, m + 1):
        x = _i(ct[16 * (i - 1):16 * i])
        off ^= k.L(_ntz(i))
        p = off ^ k.dec(x ^ off)
        out.append(_b(p, 16))
        checksum ^= p
    rest = ct[16 * m:]
    if rest:
        off ^= k.l_star
        pad = _b(k.enc(off), 16)
        prest = _xor_ks(rest, pad)
        out.append(prest)
        checksum ^= _i(prest + b"\x80" + bytes(15 - len(prest)))
    full = k.enc(checksum ^ off ^ k.l_dollar) ^ k.hash(aad)
    if _b(full, 16)[:taglen] != tag:
        raise ValueError("OCB tag mismatch")
    return b"".join(out)


# --------------------------------------------------------------------------
# RFC 3394 (KW) and RFC 5649 (KWP)
# --------------------------------------------------------------------------

_KW_IV = bytes.fromhex("A6A6A6A6A6A6A6A6")
_KWP_IV_HI = bytes.fromhex("A65959A6")


def _kw_split(c, s):
    if c.block_size != 16:
        raise ValueError("key wrap requires a 128-bit block cipher")
    s = bytes(s)
    if len(s) % 8 or len(s) < 24:
        raise ValueError("W operates on A || R[1..n] with n >= 2 semiblocks")
    return _i(s[:8]), [s[i:i + 8] for i in range(8, len(s), 8)]


def kw_W(c, s):
    """The raw wrapping function W of RFC 3394 section 2.2.1 applied to the
    string s = A || R[1] || ... || R[n]  (n >= 2)."""
    a, r = _kw_split(c, s)
    n = len(r)
    for j in range(6):
        for i in range(n):
            b = c.encrypt_block(_b(a, 8) + r[i])
            a = _i(b[:8]) ^ (n * j + i + 1)
            r[i] = b[8:]
    return _b(a, 8) + b"".join(r)


def kw_W_inv(c, s):
    """Inverse of :func:`kw_W` (RFC 3394 section 2.2.2 without the IV check)."""
    a, r = _kw_split(c, s)
    n = len(r)
    for j in range(5, -1, -1):
        for i in range(n - 1, -1, -1):
            b = c.decrypt_block(_b(a ^ (n * j + i + 1), 8) + r[i])
            a = _i(b[:8])
            r[i] = b[8:]
    return _b(a, 8) + b"".join(r)


def kw_raw_wrap(c, A8, R):
    A8, R = bytes(A8), bytes(R)
    if len(A8) != 8:
        raise ValueError("A must be 8 bytes")
    if len(R) % 8 or len(R) < 16:
        raise ValueError("R must be a multiple of 8 bytes, at least 16")
    return kw_W(c, A8 + R)


def kw_raw_unwrap(c, wrapped):
    s = kw_W_inv(c, wrapped)
    return s[:8], s[8:]


def kw_wrap(c, key_data):
    key_data = bytes(key_data)
    if len(key_data) % 8 or len(key_data) < 16:
        raise ValueError("KW key data must be a multiple of 8 bytes, at least 16")
    return kw_W(c, _KW_IV + key_data)


def kw_unwrap(c, wrapped):
    wrapped = bytes(wrapped)
    if len(wrapped) % 8 or len(wrapped) < 24:
        raise ValueError("KW ciphertext must be a multiple of 8 bytes, at least 24")
    a, r = kw_raw_unwrap(c, wrapped)
    if a != _KW_IV:
        raise ValueError("KW integrity check failed")
    return r


def kwp_wrap(c, key_data):
    key_data = bytes(key_data)
    if c.block_size != 16:
        raise ValueError("key wrap requires a 128-bit block cipher")
    m = len(key_data)
    if not 1 <= m < 1 << 32:
        raise ValueError("KWP key data must be 1..2^32-1 bytes")
    aiv = _KWP_IV_HI + _b(m, 4)
    padded = key_data + bytes(-m % 8)
    if len(padded) == 8:
        return c.encrypt_block(aiv + padded)
    return kw_W(c, aiv + padded)


def kwp_unwrap(c, wrapped):
    wrapped = bytes(wrapped)
    if c.block_size != 16:
        raise ValueError("key wrap requires a 128-bit block cipher")
    if len(wrapped) % 8 or len(wrapped) < 16:
        raise ValueError("KWP ciphertext must be a multiple of 8 bytes, at least 16")
    if len(wrapped) == 16:
        s = c.decrypt_block(wrapped)
    else:
        s = kw_W_inv(c, wrapped)
    a, p = s[:8], s[8:]
    if a[:4] != _KWP_IV_HI:
        raise ValueError("KWP integrity check failed")
    mli = _i(a[4:])
    n8 = len(p)
    if not n8 - 8 < mli <= n8:
        raise ValueError("KWP integrity check failed")
    if any(p[mli:]):
        raise ValueError("KWP integrity check failed")
    return p[:mli]


# --------------------------------------------------------------------------
# RFC 8439 AEAD_CHACHA20_POLY1305, XChaCha20-Poly1305, and the 8-byte nonce
# variant (original ChaCha20: 64-bit counter, 64-bit nonce)
# --------------------------------------------------------------------------

def _chapoly_core(key32, nonce, aad, data, decrypt, tag=None):
    from . import chacha
    key32, nonce, aad, data = bytes(key32), bytes(nonce), bytes(aad), bytes(data)
    if len(key32) != 32:
        raise ValueError("ChaCha20-Poly1305 key must be 32 bytes")
    if len(nonce) not in (8, 12, 24):
        raise ValueError("ChaCha20-Poly1305 nonce must be 8, 12 or 24 bytes")
    if len(nonce) == 24:
        # XChaCha20: subkey = HChaCha20(key, nonce[0:16]); the remaining 8
        # nonce bytes are prefixed with 4 zero bytes (IETF layout).
        key32 = chacha.hchacha20(key32, nonce[:16])
        nonce = bytes(4) + nonce[16:]
    # Block 0 yields the one-time Poly1305 key (its first 32 bytes, the rest
    # is discarded); the message is encrypted from block 1 on.  With an
    # 8-byte nonce the original layout (64-bit counter) applies.
    otk = chacha.chacha20_block(key32, 0, nonce)[:32]
    ks = chacha.chacha20_stream(key32, nonce, len(data), 64)
    out = _xor_ks(data, ks)
    ct = data if decrypt else out
    mac_data = (aad + bytes(-len(aad) % 16) + ct + bytes(-len(ct) % 16)
                + len(aad).to_bytes(8, "little") + len(ct).to_bytes(8, "little"))
    t = chacha.poly1305(otk, mac_data)
    if decrypt:
        if len(tag) != 16 or t != tag:
            raise ValueError("ChaCha20-Poly1305 tag mismatch")
        return out
    return out, t


def chacha20_poly1305_encrypt(key32, nonce, aad, pt):
    return _chapoly_core(key32, nonce, aad, pt, False)


def chacha20_poly1305_decrypt(key32, nonce, aad, ct, tag):
    return _chapoly_core(key32, nonce, aad, ct, True, bytes(tag))


# --------------------------------------------------------------------------
# self-test with published vectors
# --------------------------------------------------------------------------

class _MiniAES(object):
    """Compact FIPS-197 AES, used by selftest() only (so that the self-test
    does not depend on any other module)."""
    block_size = 16
    _tab = None

    @classmethod
    def _tables(cls):
        if cls._tab is None:
            exp, log = [0] * 255, [0] * 256
            x = 1
            for i in range(255):
                exp[i], log[x] = x, i
                x ^= ((x << 1) ^ (0x11B if x & 0x80 else 0)) & 0x1FF     # x *= 3
            sbox = [0] * 256
            for a in range(256):
                v = exp[(255 - log[a]) % 255] if a else 0
                s = v
                for k in range(1, 5):
                    s ^= ((v << k) | (v >> (8 - k))) & 0xFF
                sbox[a] = s ^ 0x63
            inv = [0] * 256
            for a, s in enumerate(sbox):
                inv[s] = a

            def mul(a, b):
                return exp[(log[a] + log[b]) % 255] if a and b else 0
            cls._tab = (sbox, inv, mul)
        return cls._tab

    def __init__(self, key):
        key = bytes(key)
        if len(key) not in (16, 24, 32):
            raise ValueError("bad AES key length")
        sbox, _, mul = self._tables()
        nk = len(key) // 4
        self.nr = nk + 6
        w = [list(key[4 * i:4 * i + 4]) for i in range(nk)]
        rc = 1
        for i in range(nk, 4 * (self.nr + 1)):
            t = list(w[-1])
            if i % nk == 0:
                t = [sbox[t[1]] ^ rc, sbox[t[2]], sbox[t[3]], sbox[t[0]]]
                rc = mul(rc, 2)
            elif nk > 6 and i % nk == 4:
                t = [sbox[b] for b in t]
            w.append([a ^ b for a, b in zip(w[i - nk], t)])
        self.rk = [sum(w[4 * r:4 * r + 4], []) for r in range(self.nr + 1)]

    def encrypt_block(self, blk):
        sbox, _, mul = self._tables()
        s = [a ^ b for a, b in zip(bytes(blk), self.rk[0])]
        for r in range(1, self.nr + 1):
            s = [sbox[b] for b in s]
            s = [s[(i % 4) + 4 * (((i // 4) + (i % 4)) % 4)] for i in range(16)]
            if r != self.nr:
                t = []
                for col in range(4):
                    a = s[4 * col:4 * col + 4]
                    t += [mul(a[k], 2) ^ mul(a[(k + 1) % 4], 3) ^ a[(k + 2) % 4] ^ a[(k + 3) % 4]
                          for k in range(4)]
                s = t
            s = [a ^ b for a, b in zip(s, self.rk[r])]
        return bytes(s)

    def decrypt_block(self, blk):
        _, inv, mul = self._tables()
        s = [a ^ b for a, b in zip(bytes(blk), self.rk[self.nr])]
        for r in range(self.nr - 1, -1, -1):
            s = [s[(i % 4) + 4 * (((i // 4) - (i % 4)) % 4)] for i in range(16)]
            s = [inv[b] for b in s]
            s = [a ^ b for a, b in zip(s, self.rk[r])]
            if r:
                t = []
                for col in range(4):
                    a = s[4 * col:4 * col + 4]
                    t += [mul(a[k], 14) ^ mul(a[(k + 1) % 4], 11) ^ mul(a[(k + 2) % 4], 13)
                          ^ mul(a[(k + 3) % 4], 9) for k in range(4)]
                s = t
        return bytes(s)


def selftest(aes=None, verbose=False):
    """Check the implementations against published vectors.

    ``aes`` is a factory ``key -> block cipher object``; by default the
    private FIPS-197 implementation above is used.
    """
    A = aes or _MiniAES
    H = bytes.fromhex

    def eq(name, got, want):
        if isinstance(want, str):
            want = H(want)
        assert got == want, "%s: got %s, want %s" % (
            name, got.hex() if isinstance(got, bytes) else got,
            want.hex() if isinstance(want, bytes) else want)
        if verbose:
            print("ok", name)

    def bad(name, f, *a):
        try:
            f(*a)
        except ValueError:
            if verbose:
                print("ok", name)
            return
        raise AssertionError("%s: ValueError expected" % name)

    def flip(b):
        return bytes([b[0] ^ 1]) + b[1:]

    # FIPS-197 appendix C.1
    eq("aes", A(bytes(range(16))).encrypt_block(H("00112233445566778899aabbccddeeff")),
       "69c4e0d86a7b0430d8cdb78070b4c55a")

    # ---- SP 800-38A appendix F (AES-128)
    k = A(H("2b7e151628aed2a6abf7158809cf4f3c"))
    iv = bytes(range(16))
    p = H("6bc1bee22e409f96e93d7e117393172aae2d8a571e03ac9c9eb76fac45af8e51"
          "30c81c46a35ce411e5fbc1191a0a52eff69f2445df4f9b17ad2b417be66c3710")
    v = H("3ad77bb40d7a3660a89ecaf32466ef97f5d3d58503b9699de785895a96fdbaaf"
          "43b1cd7f598ece23881b00e3ed0306887b0c785e27e8ad3f8223207104725dd4")
    eq("ecb-enc", ecb_encrypt(k, p), v)
    eq("ecb-dec", ecb_decrypt(k, v), p)
    v = H("7649abac8119b246cee98e9b12e9197d5086cb9b507219ee95db113a917678b2"
          "73bed6b8e3c1743b7116e69e222295163ff1caa1681fac09120eca307586e1a7")
    eq("cbc-enc", cbc_encrypt(k, iv, p), v)
    eq("cbc-dec", cbc_decrypt(k, iv, v), p)
    v = H("3b3fd92eb72dad20333449f8e83cfb4ac8a64537a0b3a93fcde3cdad9f1ce58b"
          "26751f67a3cbb140b1808cf187a4f4dfc04b05357c5d1c0eeac4c66f9ff7f2e6")
    eq("cfb128-enc", cfb_encrypt(k, iv, p, 128), v)
    eq("cfb128-dec", cfb_decrypt(k, iv, v, 128), p)
    v = H("3b79424c9c0dd436bace9e0ed4586a4f32b9")
    eq("cfb8-enc", cfb_encrypt(k, iv, p[:18], 8), v)
    eq("cfb8-dec", cfb_decrypt(k, iv, v, 8), p[:18])
    v = H("3b3fd92eb72dad20333449f8e83cfb4a7789508d16918f03f53c52dac54ed825"
          "9740051e9c5fecf64344f7a82260edcc304c6528f659c77866a510d9c1d6ae5e")
    eq("ofb", ofb_crypt(k, iv, p), v)
    v = H("874d6191b620e3261bef6864990db6ce9806f66b7970fdff8617187bb9fffdff"
          "5ae4df3edbd5d35e5b4f09020db03eab1e031dda2fbe03d1792170a0f3009cee")
    eq("ctr", ctr_crypt(k, p, initial_value=_i(H("f0f1f2f3f4f5f6f7f8f9fafbfcfdfeff"))), v)
    eq("ctr-split", ctr_crypt(k, p, prefix=H("f0f1f2f3f4f5f6f7"),
                              initial_value=0xf8f9fafbfcfdfeff), v)
    eq("ctr-start", ctr_crypt(k, p[32:], initial_value=_i(H("f0f1f2f3f4f5f6f7f8f9fafbfcfdfeff")),
                              start_block=2), v[32:])
    try:
        ctr_blocks(16, 257, prefix=bytes(15))
    except OverflowError:
        pass
    else:
        raise AssertionError("ctr overflow not detected")
    assert len(set(ctr_blocks(16, 256, prefix=bytes(15), initial_value=200))) == 256

    # ---- RFC 4493 (AES-CMAC)
    eq("cmac-0", cmac(k, b""), "bb1d6929e95937287fa37d129b756746")
    eq("cmac-16", cmac(k, p[:16]), "070a16b46b4d4144f79bdd9dd04a287c")
    eq("cmac-40", cmac(k, p[:40]), "dfa66747de9ae63030ca32611497c827")
    eq("cmac-64", cmac(k, p), "51f0bebf7e3b9d92fc49741779363cfe")

    # ---- GCM (McGrew & Viega test cases 1, 2, 4, 5, 6)
    z = A(bytes(16))
    eq("gcm-1", gcm_encrypt(z, bytes(12), b"", b"")[1], "58e2fccefa7e3061367f1d57a4e7455a")
    ct, tag = gcm_encrypt(z, bytes(12), b"", bytes(16))
    eq("gcm-2-ct", ct, "0388dace60b6a392f328c2b971b2fe78")
    eq("gcm-2-tag", tag, "ab6e47d42cec13bdf53a67b21257bddf")
    g = A(H("feffe9928665731c6d6a8f9467308308"))
    gp = H("d9313225f88406e5a55909c5aff5269a86a7a9531534f7da2e4c303d8a318a72"
           "1c3c0c95956809532fcf0e2449a6b525b16aedf5aa0de657ba637b39")
    ga = H("feedfacedeadbeeffeedfacedeadbeefabaddad2")
    for name, n, wct, wtag in (
        ("gcm-4", "cafebabefacedbaddecaf888",
         "42831ec2217774244b7221b784d0d49ce3aa212f2c02a4e035c17e2329aca12e"
         "21d514b25466931c7d8f6a5aac84aa051ba30b396a0aac973d58e091",
         "5bc94fbc3221a5db94fae95ae7121a47"),
        ("gcm-5", "cafebabefacedbad",
         "61353b4c2806934a777ff51fa22a4755699b2a714fcdc6f83766e5f97b6c7423"
         "73806900e49f24b22b097544d4896b424989b5e1ebac0f07c23f4598",
         "3612d2e79e3b0785561be14aaca2fccb"),
        ("gcm-6", "9313225df88406e555909c5aff5269aa6a7a9538534f7da1e4c303d2a318a728"
                  "c3c0c95156809539fcf0e2429a6b525416aedbf5a0de6a57a637b39b",
         "8ce24998625615b603a033aca13fb894be9112a5c3a211a8ba262a3cca7e2ca7"
         "01e4a9a4fba43c90ccdcb281d48c7c6fd62875d2aca417034c34aee5",
         "619cc5aefffe0bfa462af43c1699d050"),
    ):
        ct, tag = gcm_encrypt(g, H(n), ga, gp)
        eq(name + "-ct", ct, wct)
        eq(name + "-tag", tag, wtag)
        eq(name + "-dec", gcm_decrypt(g, H(n), ga, ct, tag), gp)
        eq(name + "-trunc", gcm_encrypt(g, H(n), ga, gp, 12)[1], H(wtag)[:12])
        bad(name + "-forged", gcm_decrypt, g, H(n), ga, ct, flip(tag))
    # table-driven GHASH against the bit-by-bit field multiplication
    hh = z.encrypt_block(bytes(16))
    y = 0
    stream = ga + bytes(12) + gp[:32] + _b(160, 8) + _b(256, 8)
    for j in range(0, len(stream), 16):
        y = gf128_mul(y ^ _i(stream[j:j + 16]), _i(hh))
    eq("ghash-slow", ghash(hh, ga, gp[:32]), _b(y, 16))

    # ---- RFC 3610 packet vector #1
    cc = A(H("c0c1c2c3c4c5c6c7c8c9cacbcccdcecf"))
    n = H("00000003020100a0a1a2a3a4a5")
    ct, tag = ccm_encrypt(cc, n, bytes(range(8)), bytes(range(8, 31)), 8)
    eq("ccm-ct", ct, "588c979a61c663d2f066d0c2c0f989806d5f6b61dac384")
    eq("ccm-tag", tag, "17e8d12cfdf926e0")
    eq("ccm-dec", ccm_decrypt(cc, n, bytes(range(8)), ct, tag), bytes(range(8, 31)))
    bad("ccm-forged", ccm_decrypt, cc, n, bytes(range(8)), ct, flip(tag))
    bad("ccm-nonce", ccm_encrypt, cc, bytes(6), b"", b"")
    bad("ccm-len", ccm_encrypt, cc, bytes(13), b"", bytes(65536))

    # ---- EAX paper, vectors 1 and 2
    e = A(H("233952dee4d5ed5f9b9c6d6ff80ff478"))
    ct, tag = eax_encrypt(e, H("62ec67f9c3a4a407fcb2a8c49031a8b3"), H("6bfb914fd07eae6b"), b"")
    eq("eax-1", ct + tag, "e037830e8389f27b025a2d6527e79d01")
    e = A(H("91945d3f4dcbee0bf45ef52255f095a4"))
    n, h = H("becaf043b0a23d843194ba972c66debd"), H("fa3bfd4806eb53fa")
    ct, tag = eax_encrypt(e, n, h, H("f7fb"))
    eq("eax-2", ct + tag, "19dd5c4c9331049d0bdab0277408f67967e5")
    eq("eax-2-dec", eax_decrypt(e, n, h, ct, tag), H("f7fb"))
    bad("eax-forged", eax_decrypt, e, n, h, ct, flip(tag))

    # ---- RFC 5297 appendix A.1 and A.2
    sk = H("fffefdfcfbfaf9f8f7f6f5f4f3f2f1f0f0f1f2f3f4f5f6f7f8f9fafbfcfdfeff")
    ad = [H("101112131415161718191a1b1c1d1e1f2021222324252627")]
    sp = H("112233445566778899aabbccddee")
    ct, tag = siv_encrypt(sk, A, ad, sp)
    eq("siv-a1-v", tag, "85632d07c6e8f37f950acd320a2ecc93")
    eq("siv-a1-c", ct, "40c02b9690c4dc04daef7f6afe5c")
    eq("siv-a1-dec", siv_decrypt(sk, A, ad, ct, tag), sp)
    bad("siv-forged", siv_decrypt, sk, A, ad, ct, flip(tag))
    sk = H("7f7e7d7c7b7a79787776757473727170404142434445464748494a4b4c4d4e4f")
    ad = [H("00112233445566778899aabbccddeeffdeaddadadeaddadaffeeddccbbaa99887766554433221100"),
          H("102030405060708090a0")]
    n = H("09f911029d74e35bd84156c5635688c0")
    sp = H("7468697320697320736f6d6520706c61696e7465787420746f20656e63727970"
           "74207573696e67205349562d414553")
    ct, tag = siv_encrypt(sk, A, ad, sp, nonce=n)
    eq("siv-a2-v", tag, "7bdb6e3b432667eb06f4d14bff2fbd0f")
    eq("siv-a2-c", ct, "cb900f2fddbe404326601965c889bf17dba77ceb094fa663b7a3f748ba8af829"
                       "ea64ad544a272e9c485b62a3fd5c0d")
    eq("siv-a2-dec", siv_decrypt(sk, A, ad, ct, tag, nonce=n), sp)
    eq("s2v-empty", s2v(A(sk[:16]), []), cmac(A(sk[:16]), bytes(15) + b"\x01"))

    # ---- RFC 7253 appendix A
    o = A(bytes(range(16)))
    ct, tag = ocb_encrypt(o, H("bbaa99887766554433221100"), b"", b"")
    eq("ocb-0", ct + tag, "785407bfffc8ad9edcc5520ac9111ee6")
    ct, tag = ocb_encrypt(o, H("bbaa99887766554433221101"), bytes(range(8)), bytes(range(8)))
    eq("ocb-1", ct + tag, "6820b3657b6f615a5725bda0d3b4eb3a257c9af1f8f03009")
    ct, tag = ocb_encrypt(o, H("bbaa9988776655443322110f"), b"", bytes(range(40)))
    eq("ocb-15", ct + tag,
       "4412923493c57d5de0d700f753cce0d1d2d95060122e9f15a5ddbfc5787e50b5"
       "cc55ee507bcb084e479ad363ac366b95a98ca5f3000b1479")
    n = H("bbaa9988776655443322110d")
    ct, tag = ocb_encrypt(o, n, bytes(range(40)), bytes(range(40)))
    eq("ocb-13", ct + tag,
       "d5ca91748410c1751ff8a2f618255b68a0a12e093ff454606e59f9c1d0ddc54b"
       "65e8628e568bad7aed07ba06a4a69483a7035490c5769e60")
    eq("ocb-13-dec", ocb_decrypt(o, n, bytes(range(40)), ct, tag), bytes(range(40)))
    bad("ocb-forged", ocb_decrypt, o, n, bytes(range(40)), ct, flip(tag))
    # 96-bit tag sample of appendix A
    o = A(H("0f0e0d0c0b0a09080706050403020100"))
    ct, tag = ocb_encrypt(o, H("bbaa9988776655443322110d"), bytes(range(40)), bytes(range(40)), 12)
    eq("ocb-t96", ct + tag,
       "1792a4e31e0755fb03e31b22116e6c2ddf9efd6e33d536f1a0124b0a55bae884"
       "ed93481529c76b6ad0c515f4d1cdd4fdac4f02aa")
    # the iterated test of appendix A for TAGLEN = 128, 96, 64 and AES-128
    for tl, want in ((16, "67e944d23256c5e0b6c61fa22fdf1ea2"),
                     (12, "77a3d8e73589158d25d01209"),
                     (8, "192c9b7bd90ba06a")):
        ko = A(bytes(15) + bytes([8 * tl]))
        acc = b""
        for i in range(128):
            s = bytes(i)
            n1, n2, n3 = _b(3 * i + 1, 12), _b(3 * i + 2, 12), _b(3 * i + 3, 12)
            acc += b"".join(ocb_encrypt(ko, n1, s, s, tl))
            acc += b"".join(ocb_encrypt(ko, n2, b"", s, tl))
            acc += b"".join(ocb_encrypt(ko, n3, s, b"", tl))
        eq("ocb-iter-%d" % tl, ocb_encrypt(ko, _b(385, 12), acc, b"", tl)[1], want)

    # ---- RFC 3394 section 4.1, 4.3, 4.6
    kd = H("00112233445566778899aabbccddeeff")
    w = A(bytes(range(16)))
    out = kw_wrap(w, kd)
    eq("kw-4.1", out, "1fa68b0a8112b447aef34bd8fb5a7b829d3e862371d2cfe5")
    eq("kw-4.1-un", kw_unwrap(w, out), kd)
    bad("kw-forged", kw_unwrap, w, flip(out))
    eq("kw-raw", kw_raw_wrap(w, _KW_IV, kd), out)
    assert kw_raw_unwrap(w, out) == (_KW_IV, kd)
    eq("kw-4.3", kw_wrap(A(bytes(range(32))), kd),
       "64e8c3f9ce0f5ba263e9777905818a2a93c8191e7d6e8ae7")
    eq("kw-4.6", kw_wrap(A(bytes(range(32))), kd + bytes(range(16))),
       "28c9f404c4b810f4cbccb35cfb87f8263f5786e2d80ed326cbc7f0e71a99f43bfb988b9b7a02dd21")

    # ---- RFC 5649 section 6
    w = A(H("5840df6e29b02af1ab493b705bf16ea1ae8338f4dcc176a8"))
    kd = H("c37b7e6492584340bed12207808941155068f738")
    out = kwp_wrap(w, kd)
    eq("kwp-20", out, "138bdeaa9b8fa7fc61f97742e72248ee5ae6ae5360d1ae6a5f54f373fa543b6a")
    eq("kwp-20-un", kwp_unwrap(w, out), kd)
    bad("kwp-forged", kwp_unwrap, w, flip(out))
    kd = H("466f7250617369")
    out = kwp_wrap(w, kd)
    eq("kwp-7", out, "afbeb0f07dfbf5419200f2ccb50bb24f")
    eq("kwp-7-un", kwp_unwrap(w, out), kd)

    # ---- RFC 8439 section 2.8.2 (needs the companion chacha module)
    try:
        from . import chacha  # noqa: F401
    except ImportError:
        if verbose:
            print("skipped: chacha module not available")
        return True
    key = bytes(range(0x80, 0xA0))
    n = H("070000004041424344454647")
    aad = H("50515253c0c1c2c3c4c5c6c7")
    pt = (b"Ladies and Gentlemen of the class of '99: If I could offer you "
          b"only one tip for the future, sunscreen would be it.")
    ct, tag = chacha20_poly1305_encrypt(key, n, aad, pt)
    eq("chapoly-ct", ct,
       "d31a8d34648e60db7b86afbc53ef7ec2a4aded51296e08fea9e2b5a736ee62d6"
       "3dbea45e8ca9671282fafb69da92728b1a71de0a9e060b2905d6a5b67ecd3b36"
       "92ddbd7f2d778b8c9803aee328091b58fab324e4fad675945585808b4831d7bc"
       "3ff4def08e4b7a9de576d26586cec64b6116")
    eq("chapoly-tag", tag, "1ae10b594f09e26a7e902ecbd0600691")
    eq("chapoly-dec", chacha20_poly1305_decrypt(key, n, aad, ct, tag), pt)
    bad("chapoly-forged", chacha20_poly1305_decrypt, key, n, aad, ct, flip(tag))
    # draft-irtf-cfrg-xchacha-03 appendix A.3.1
    n = bytes(range(0x40, 0x58))
    ct, tag = chacha20_poly1305_encrypt(key, n, aad, pt)
    eq("xchapoly-tag", tag, "c0875924c1c7987947deafd8780acf49")
    eq("xchapoly-ct0", ct[:16], "bd6d179d3e83d43b9576579493c0e939")
    return True


if __name__ == "__main__":
    selftest()
    print("OK")
