"""Number-theory reference helpers (pure Python, standard library only).

Everything here is deterministic (no randomness) and written from the
textbook definitions:

* Miller-Rabin strong probable prime test    (FIPS 186-4 C.3.1, fixed bases)
* Lucas / strong Lucas probable prime test   (FIPS 186-4 C.3.3, Selfridge
  "method A" parameters: D = first of 5, -7, 9, -11, ... with (D/n) = -1,
  P = 1, Q = (1 - D) / 4; Baillie & Wagstaff 1980)
* Jacobi symbol                              (FIPS 186-4 C.5)
* Korselt's criterion for Carmichael numbers, Chernick's form.

``is_prime(n)``
    * n < 3317044064679887385961981 (~3.3e24): EXACT.  The first 13 primes
      (2..41) as Miller-Rabin bases have no strong pseudoprime below that
      bound (psi_13, Sorenson & Webster, "Strong pseudoprimes to twelve prime
      bases", Math. Comp. 86 (2017); OEIS A014233).
    * larger n: the same 13 Miller-Rabin bases AND a strong Lucas test with
      Selfridge parameters (a superset of the Baillie-PSW test, for which no
      counterexample is known).  "True" is therefore "probable prime with no
      known counterexample"; "False" is always a proof of compositeness.
"""

import math

__all__ = [
    "sieve", "is_prime_small", "is_prime", "strong_probable_prime",
    "lucas_probable_prime", "lucas_strong_probable_prime", "jacobi", "isqrt",
    "is_square", "inverse", "gcd", "lcm", "carmichael_numbers", "is_carmichael",
    "chernick", "strong_pseudoprimes", "lucas_pseudoprimes", "next_prime",
    "factorize_small", "MR_BASES", "MR_EXACT_LIMIT", "PSI",
]

MR_BASES = (2, 3, 5, 7, 11, 13, 17, 19, 23, 29, 31, 37, 41)

# psi_k = smallest composite that is a strong probable prime to the first k
# prime bases.  Provenance: Pomerance, Selfridge & Wagstaff 1980 (k <= 4),
# Jaeschke 1993 (k <= 8, upper bounds later proved exact), Jiang & Deng 2014
# (k = 9..11), Sorenson & Webster 2015 (k = 12, 13).  OEIS A014233.
# Each entry is re-verified in selftest() (composite via the listed factor,
# strong probable prime to the first k bases, fails the first later base).
PSI = {
    1: 2047,
    2: 1373653,
    3: 25326001,
    4: 3215031751,
    5: 2152302898747,
    6: 3474749660383,
    7: 341550071728321,
    8: 341550071728321,
    9: 3825123056546413051,
    10: 3825123056546413051,
    11: 3825123056546413051,
    12: 318665857834031151167461,
    13: 3317044064679887385961981,
}
# one non-trivial factor of each psi value (checked in selftest)
_PSI_FACTOR = {
    2047: 23,
    1373653: 829,
    25326001: 2251,
    3215031751: 151,
    2152302898747: 6763,
    3474749660383: 1303,
    341550071728321: 10670053,
    3825123056546413051: 149491,
    318665857834031151167461: 399165290221,
    3317044064679887385961981: 1287836182261,
}
MR_EXACT_LIMIT = PSI[13]


# ---------------------------------------------------------------- basics

def gcd(a, b):
    a, b = abs(a), abs(b)
    while b:
        a, b = b, a % b
    return a


def lcm(a, b):
    if a == 0 or b == 0:
        return 0
    return abs(a * b) // gcd(a, b)


def isqrt(n):
    """floor(sqrt(n)) for n >= 0 (Newton iteration on integers)."""
    if n < 0:
        raise ValueError("isqrt of negative number")
    if n < 2:
        return n
    x = 1 << ((n.bit_length() + 1) // 2)      # x >= sqrt(n)
    while True:
        y = (x + n // x) // 2
        if y >= x:
            return x
        x = y


def is_square(n):
    if n < 0:
        return False
    r = isqrt(n)
    return r * r == n


def inverse(a, m):
    """a^{-1} mod m in [0, m); ValueError when gcd(a, m) != 1 or m < 1."""
    if m < 1:
        raise ValueError("modulus must be positive")
    if m == 1:
        return 0
    r0, r1 = a % m, m
    s0, s1 = 1, 0
    while r1:
        qt = r0 // r1
        r0, r1 = r1, r0 - qt * r1
        s0, s1 = s1, s0 - qt * s1
    if r0 != 1:
        raise ValueError("no inverse: gcd(a, m) = %d" % r0)
    return s0 % m


def jacobi(a, n):
    """Jacobi symbol (a/n), n odd and positive; ValueError otherwise."""
    if n <= 0 or n % 2 == 0:
        raise ValueError("jacobi: n must be odd and positive")
    a %= n
    result = 1
    while a:
        while a % 2 == 0:
            a //= 2
            if n % 8 in (3, 5):
                result = -result
        a, n = n, a                       # quadratic reciprocity
        if a % 4 == 3 and n % 4 == 3:
            result = -result
        a %= n
    return result if n == 1 else 0


# ---------------------------------------------------------------- sieves

def _sieve_flags(n):
    """bytearray f with f[i] == 1 iff i is prime, for 0 <= i < n."""
    if n < 2:
        return bytearray(max(n, 0))
    f = bytearray([1]) * n
    f[0] = 0
    f[1] = 0
    for i in range(2, isqrt(n - 1) + 1):
        if f[i]:
            f[i * i::i] = bytes(len(range(i * i, n, i)))
    return f


def sieve(n):
    """All primes < n, ascending."""
    f = _sieve_flags(n)
    return [i for i in range(2, n) if f[i]]


def is_prime_small(n):
    """Exact primality by trial division (intended for n up to ~1e12)."""
    if n < 2:
        return False
    if n < 4:
        return True
    if n % 2 == 0 or n % 3 == 0:
        return False
    i = 5
    while i * i <= n:
        if n % i == 0 or n % (i + 2) == 0:
            return False
        i += 6
    return True


def factorize_small(n):
    """Trial-division factorisation: list of (prime, exponent), n >= 1."""
    if n < 1:
        raise ValueError("n must be positive")
    out = []
    d = 2
    while d * d <= n:
        if n % d == 0:
            e = 0
            while n % d == 0:
                n //= d
                e += 1
            out.append((d, e))
        d += 1 if d == 2 else 2
    if n > 1:
        out.append((n, 1))
    return out


# ---------------------------------------------------------------- Miller-Rabin

def strong_probable_prime(n, base):
    """True iff odd n > 2 is a strong probable prime to ``base``.

    n - 1 = d * 2^s with d odd; passes iff base^d == 1 or
    base^(d*2^r) == -1 (mod n) for some 0 <= r < s.
    The definition is applied literally: a base that is 0 mod n fails.
    ValueError for even n or n < 3.
    """
    if n < 3 or n % 2 == 0:
        raise ValueError("strong_probable_prime: n must be odd and > 2")
    d = n - 1
    s = 0
    while d % 2 == 0:
        d //= 2
        s += 1
    x = pow(base % n, d, n)
    if x == 1 or x == n - 1:
        return True
    for _ in range(s - 1):
        x = x * x % n
        if x == n - 1:
            return True
        if x == 1:
            return False
    return False


# ---------------------------------------------------------------- Lucas

def _selfridge_d(n):
    """First D in 5, -7, 9, -11, ... with (D/n) == -1.

    Returns None if a proper factor of n shows up on the way (n composite).
    n must be odd, > 2 and not a perfect square (otherwise no such D may exist).
    """
    d = 5
    while True:
        j = jacobi(d, n)
        if j == -1:
            return d
        if j == 0 and gcd(d, n) != n:       # 1 < gcd < n: proper factor
            return None
        d = -(d + 2) if d > 0 else -(d - 2)


def _lucas_uvq(n, p, q, d, k):
    """(U_k, V_k, Q^k) mod n for the Lucas sequences with parameters P, Q
    (D = P^2 - 4Q), n odd, k >= 0; left-to-right binary ladder."""
    u, v, qk = 0, 2 % n, 1 % n
    for bit in bin(k)[2:]:
        # doubling: index j -> 2j
        u = u * v % n
        v = (v * v - 2 * qk) % n
        qk = qk * qk % n
        if bit == "1":
            # increment: index j -> j + 1
            nu = p * u + v
            nv = d * u + p * v
            if nu % 2:
                nu += n
            if nv % 2:
                nv += n
            u = (nu // 2) % n
            v = (nv // 2) % n
            qk = qk * q % n
    return u, v, qk


def _lucas_pre(n):
    """Common front end.  Returns True/False when decided, else (D, P, Q)."""
    if n < 2:
        return False
    if n == 2:
        return True
    if n % 2 == 0:
        return False
    if is_square(n):
        return False
    d = _selfridge_d(n)
    if d is None:
        return False
    return d, 1, (1 - d) // 4


def lucas_probable_prime(n):
    """Lucas probable prime test, Selfridge parameters (FIPS 186-4 C.3.3):
    n passes iff U_{n+1} == 0 (mod n).  Exact answers for n < 3 and even n;
    perfect squares are rejected."""
    pre = _lucas_pre(n)
    if pre is True or pre is False:
        return pre
    d, p, q = pre
    u, _, _ = _lucas_uvq(n, p, q, d, n + 1)
    return u == 0


def lucas_strong_probable_prime(n):
    """Strong Lucas probable prime test, Selfridge parameters:
    n + 1 = d * 2^s, d odd; passes iff U_d == 0 or V_{d*2^r} == 0 (mod n)
    for some 0 <= r < s."""
    pre = _lucas_pre(n)
    if pre is True or pre is False:
        return pre
    dd, p, q = pre
    d = n + 1
    s = 0
    while d % 2 == 0:
        d //= 2
        s += 1
    u, v, qk = _lucas_uvq(n, p, q, dd, d)
    if u == 0 or v == 0:
        return True
    for _ in range(s - 1):
        v = (v * v - 2 * qk) % n
        qk = qk * qk % n
        if v == 0:
            return True
    return False


# ---------------------------------------------------------------- is_prime

_SMALL_PRIMES = tuple(sieve(1000))


def is_prime(n):
    """See module docstring: exact below MR_EXACT_LIMIT, BPSW+13 bases above."""
    if n < 2:
        return False
    for p in _SMALL_PRIMES:
        if n == p:
            return True
        if n % p == 0:
            return False
    if n < 1000 * 1000:
        return True                       # no factor below 1000
    for b in MR_BASES:
        if not strong_probable_prime(n, b):
            return False
    if n < MR_EXACT_LIMIT:
        return True
    return lucas_strong_probable_prime(n)


def next_prime(n):
    """Smallest prime strictly greater than n."""
    if n < 2:
        return 2
    c = n + 1
    if c % 2 == 0:
        if c == 2:
            return 2
        c += 1
    while not is_prime(c):
        c += 2
    return c


# ---------------------------------------------------------------- Carmichael

def is_carmichael(n):
    """Korselt: n composite, square-free, and (p-1) | (n-1) for all p | n.
    (Trial division: for small n only.)"""
    if n < 3 or n % 2 == 0:
        return False
    f = factorize_small(n)
    if len(f) < 2:
        return False
    return all(e == 1 and (n - 1) % (p - 1) == 0 for p, e in f)


def carmichael_numbers(limit):
    """All Carmichael numbers < limit, ascending.

    For a prime p | n with (p-1) | (n-1) one has n == p (mod p(p-1)) and, for
    composite square-free n, p < sqrt(n).  A counting sieve over the odd
    numbers marks, for every odd prime p < sqrt(limit), the numbers
    p + j*p*(p-1) (j >= 1); a Carmichael number is marked once per prime
    factor, i.e. at least 3 times.  The few candidates with >= 3 marks are
    then decided exactly with Korselt's criterion (is_carmichael).
    """
    if limit <= 561:
        return []
    cnt = bytearray(limit // 2 + 1)         # cnt[i] <-> odd number 2i+1
    for p in sieve(isqrt(limit) + 1):
        if p == 2:
            continue
        step = p * (p - 1)
        for m in range(p + step, limit, step):
            cnt[m >> 1] += 1
    out = []
    for c in (3, 4, 5, 6, 7, 8, 9, 10, 11, 12):
        pos = cnt.find(c)
        while pos != -1:
            m = 2 * pos + 1
            if m < limit and is_carmichael(m):
                out.append(m)
            pos = cnt.find(c, pos + 1)
    out.sort()
    return out


def chernick(k_max):
    """Chernick Carmichael numbers (6k+1)(12k+1)(18k+1), 1 <= k <= k_max,
    for which all three factors are prime.  Returns [(k, n), ...]."""
    out = []
    for k in range(1, k_max + 1):
        a, b, c = 6 * k + 1, 12 * k + 1, 18 * k + 1
        if is_prime(a) and is_prime(b) and is_prime(c):
            out.append((k, a * b * c))
    return out


# ---------------------------------------------------------------- pseudoprimes

def strong_pseudoprimes(bases, limit):
    """Odd composites n < limit that are strong probable primes to ALL bases.

    Computed: sieve for compositeness, Fermat test to the first base as a
    cheap necessary condition (a strong probable prime to base b satisfies
    b^(n-1) == 1), then the full strong test for every base.
    limit = 10**7 with bases (2,) takes a few seconds.
    """
    bases = tuple(bases)
    if not bases:
        raise ValueError("need at least one base")
    flags = _sieve_flags(limit)
    b0 = bases[0]
    out = []
    for n in range(9, limit, 2):
        if flags[n]:
            continue
        if pow(b0, n - 1, n) != 1:
            continue
        if all(strong_probable_prime(n, b) for b in bases):
            out.append(n)
    return out


def lucas_pseudoprimes(limit, strong=False):
    """Odd composites n < limit passing lucas_probable_prime (Selfridge
    parameters), or lucas_strong_probable_prime when strong=True.
    OEIS A217120 (323, 377, 1159, ...) resp. A217255 (5459, 5777, ...)."""
    test = lucas_strong_probable_prime if strong else lucas_probable_prime
    flags = _sieve_flags(limit)
    return [n for n in range(9, limit, 2) if not flags[n] and test(n)]


# ---------------------------------------------------------------- selftest

def selftest():
    # sieve / trial division / is_prime agree
    ps = sieve(20000)
    assert ps[:10] == [2, 3, 5, 7, 11, 13, 17, 19, 23, 29]
    assert len(ps) == 2262                     # pi(20000)
    assert sieve(2) == [] and sieve(3) == [2] and sieve(0) == []
    pset = set(ps)
    for n in range(-5, 20000):
        exp = n in pset
        assert is_prime_small(n) == exp, n
        assert is_prime(n) == exp, n
        if n >= 0:
            assert lucas_probable_prime(n) or not exp, n
            assert lucas_strong_probable_prime(n) or not exp, n
    # isqrt / is_square
    for n in list(range(0, 2000)) + [10**40, 10**40 - 1, (1 << 200) + 12345]:
        r = isqrt(n)
        assert r * r <= n < (r + 1) * (r + 1)
        assert r == math.isqrt(n)
    assert is_square(0) and is_square(49) and not is_square(50) and not is_square(-4)
    # inverse
    for m in (1, 2, 7, 12, 97, 2**61 - 1):
        for a in range(-20, 40):
            try:
                i = inverse(a, m)
            except ValueError:
                assert gcd(a, m) != 1
            else:
                assert gcd(a, m) == 1 and 0 <= i < m and (a * i - 1) % m == 0
    try:
        inverse(3, 0)
        raise AssertionError("inverse mod 0")
    except ValueError:
        pass
    assert lcm(4, 6) == 12 and lcm(0, 5) == 0 and lcm(7, 13) == 91
    # jacobi against Euler's criterion for primes and multiplicativity
    for p in ps[1:40]:
        for a in range(-p, 2 * p):
            e = pow(a % p, (p - 1) // 2, p)
            e = -1 if e == p - 1 else e
            assert jacobi(a, p) == e, (a, p)
    for n in (9, 15, 21, 45, 1001, 561):
        for a in range(0, 60):
            prod = 1
            for p, e in factorize_small(n):
                prod *= jacobi(a, p) ** e
            assert jacobi(a, n) == prod, (a, n)
    assert jacobi(1001, 9907) == -1            # classic worked example
    for bad in (0, -3, 4):
        try:
            jacobi(1, bad)
            raise AssertionError("jacobi accepted %d" % bad)
        except ValueError:
            pass
    # psi table
    for k, n in PSI.items():
        f = _PSI_FACTOR[n]
        assert 1 < f < n and n % f == 0, n
        assert all(strong_probable_prime(n, b) for b in MR_BASES[:k]), n
        if k < 13:
            nxt = [b for b in MR_BASES[k:] if not strong_probable_prime(n, b)]
            assert nxt and (PSI[k + 1] == n or nxt[0] == MR_BASES[k]), n
        assert not lucas_probable_prime(n), n
        assert not lucas_strong_probable_prime(n), n
    assert not is_prime(PSI[12])               # below exact limit, base 41 catches it
    assert not is_prime(PSI[13])               # above the limit, Lucas catches it
    # computed strong pseudoprimes
    sp2 = strong_pseudoprimes((2,), 100000)
    assert sp2[:10] == [2047, 3277, 4033, 4681, 8321, 15841, 29341, 42799,
                        49141, 52633], sp2[:10]      # OEIS A001262
    assert strong_pseudoprimes((2, 3), 1400000) == [1373653]
    assert strong_pseudoprimes((3,), 1000)[:2] == [121, 703]   # OEIS A020229
    # Lucas pseudoprimes
    lp = lucas_pseudoprimes(11000)
    assert lp == [323, 377, 1159, 1829, 3827, 5459, 5777, 9071, 9179,
                  10877], lp                   # OEIS A217120
    slp = lucas_pseudoprimes(60000, strong=True)
    assert slp == [5459, 5777, 10877, 16109, 18971, 22499, 24569, 25199,
                   40309, 58519], slp          # OEIS A217255
    assert set(slp) <= set(lucas_pseudoprimes(60000))
    # no overlap between base-2 strong pseudoprimes and Lucas pseudoprimes (BPSW)
    assert not set(sp2) & set(lucas_pseudoprimes(100000))
    # Carmichael
    cm = carmichael_numbers(100000)
    assert cm == [561, 1105, 1729, 2465, 2821, 6601, 8911, 10585, 15841,
                  29341, 41041, 46657, 52633, 62745, 63973, 75361], cm
    assert cm == [n for n in range(3, 100000, 2) if is_carmichael(n)]
    ch = chernick(50)
    assert ch[0] == (1, 1729) and ch[1] == (6, 294409), ch[:3]
    assert all(is_carmichael(n) for _, n in ch[:4])
    for _, n in ch:
        assert not is_prime(n)
        assert pow(2, n - 1, n) == 1           # Fermat liar
    # large primes / composites
    m127, m521 = 2**127 - 1, 2**521 - 1
    assert is_prime(m127) and is_prime(m521)
    assert not is_prime(m127 * m521) and not is_prime(m127 * m127)
    assert not is_prime(2**128 + 1)
    p256 = 2**256 - 2**224 + 2**192 + 2**96 - 1
    assert is_prime(p256) and lucas_probable_prime(p256)
    assert lucas_strong_probable_prime(p256)
    assert next_prime(p256 - 1) == p256
    assert [next_prime(n) for n in (-7, 0, 1, 2, 3, 4, 13, 14, 7919)] == \
           [2, 2, 2, 3, 5, 5, 17, 17, 7927]
    assert next_prime(2**64) == 2**64 + 13
    # Lucas sequence sanity: Fibonacci (P=1, Q=-1): U_k = F_k, V_k = L_k
    big = 10**9 + 7
    fib = [0, 1]
    luc = [2, 1]
    for i in range(2, 60):
        fib.append(fib[-1] + fib[-2])
        luc.append(luc[-1] + luc[-2])
    for k in range(60):
        u, v, qk = _lucas_uvq(big, 1, -1, 5, k)
        assert (u, v) == (fib[k] % big, luc[k] % big), k
        assert qk == pow(-1, k, big)
    return True


if __name__ == "__main__":
    selftest()
    print("OK")
