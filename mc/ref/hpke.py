"""Reference HPKE (RFC 9180), pure Python, stdlib + sibling modules only.

Everything is deterministic: the ephemeral private key is always an explicit
argument.  AEADs are resolved from AEAD_IMPL (driver override) first and then
lazily from the sibling modules mc.ref.aes / mc.ref.modes.
"""

import hashlib
import hmac

from . import ec

MODE_BASE = 0
MODE_PSK = 1
MODE_AUTH = 2
MODE_AUTH_PSK = 3


class DeserializeError(ValueError):
    pass


class ValidationError(ValueError):
    pass


class OpenError(ValueError):
    pass


class MessageLimitReached(ValueError):
    pass


# --------------------------------------------------------------------------
# tables (RFC 9180 section 7)
# --------------------------------------------------------------------------

class _Kem(object):
    def __init__(self, **kw):
        self.__dict__.update(kw)


KEMS = {
    0x0010: _Kem(kem_id=0x0010, name='DHKEM(P-256, HKDF-SHA256)', curve='p256',
                 hash='sha256', Nsecret=32, Nenc=65, Npk=65, Nsk=32, Ndh=32,
                 bitmask=0xFF),
    0x0011: _Kem(kem_id=0x0011, name='DHKEM(P-384, HKDF-SHA384)', curve='p384',
                 hash='sha384', Nsecret=48, Nenc=97, Npk=97, Nsk=48, Ndh=48,
                 bitmask=0xFF),
    0x0012: _Kem(kem_id=0x0012, name='DHKEM(P-521, HKDF-SHA512)', curve='p521',
                 hash='sha512', Nsecret=64, Nenc=133, Npk=133, Nsk=66, Ndh=66,
                 bitmask=0x01),
    0x0020: _Kem(kem_id=0x0020, name='DHKEM(X25519, HKDF-SHA256)',
                 curve='curve25519', hash='sha256', Nsecret=32, Nenc=32,
                 Npk=32, Nsk=32, Ndh=32, bitmask=None),
    0x0021: _Kem(kem_id=0x0021, name='DHKEM(X448, HKDF-SHA512)',
                 curve='curve448', hash='sha512', Nsecret=64, Nenc=56,
                 Npk=56, Nsk=56, Ndh=56, bitmask=None),
}

KDFS = {1: 'sha256', 2: 'sha384', 3: 'sha512'}

# aead_id -> (name, Nk, Nn, Nt)
AEADS = {
    1: ('AES-128-GCM', 16, 12, 16),
    2: ('AES-256-GCM', 32, 12, 16),
    3: ('ChaCha20Poly1305', 32, 12, 16),
    0xFFFF: ('Export-only', 0, 0, 0),
}

# Driver override: aead_id -> (seal(key, nonce, aad, pt) -> ct||tag,
#                              open(key, nonce, aad, ct||tag) -> pt / ValueError)
AEAD_IMPL = {}


def _aead(aead_id):
    if aead_id in AEAD_IMPL:
        return AEAD_IMPL[aead_id]
    if aead_id in (1, 2):
        from .aes import AES
        from .modes import gcm_encrypt, gcm_decrypt

        def seal(key, nonce, aad, pt):
            ct, tag = gcm_encrypt(AES(key), nonce, aad, pt, 16)
            return bytes(ct) + bytes(tag)

        def open_(key, nonce, aad, ct):
            if len(ct) < 16:
                raise ValueError("ciphertext shorter than the tag")
            return bytes(gcm_decrypt(AES(key), nonce, aad, ct[:-16], ct[-16:]))
        return seal, open_
    if aead_id == 3:
        from .modes import chacha20_poly1305_encrypt, chacha20_poly1305_decrypt

        def seal(key, nonce, aad, pt):
            ct, tag = chacha20_poly1305_encrypt(key, nonce, aad, pt)
            return bytes(ct) + bytes(tag)

        def open_(key, nonce, aad, ct):
            if len(ct) < 16:
                raise ValueError("ciphertext shorter than the tag")
            return bytes(chacha20_poly1305_decrypt(key, nonce, aad,
                                                   ct[:-16], ct[-16:]))
        return seal, open_
    raise ValueError("no AEAD implementation for id %#x" % aead_id)


# --------------------------------------------------------------------------
# HKDF (RFC 5869) and the labeled variants (RFC 9180 section 4)
# --------------------------------------------------------------------------

def hkdf_extract(hashname, salt, ikm):
    hlen = hashlib.new(hashname).digest_size
    if len(salt) == 0:
        salt = bytes(hlen)
    return hmac.new(salt, ikm, hashname).digest()


def hkdf_expand(hashname, prk, info, L):
    hlen = hashlib.new(hashname).digest_size
    if L > 255 * hlen:
        raise ValueError("HKDF-Expand: L too large")
    out = b""
    t = b""
    i = 0
    while len(out) < L:
        i += 1
        t = hmac.new(prk, t + info + bytes([i]), hashname).digest()
        out += t
    return out[:L]


def I2OSP(n, w):
    return n.to_bytes(w, 'big')


def kem_suite_id(kem_id):
    return b"KEM" + I2OSP(kem_id, 2)


def hpke_suite_id(suite):
    kem_id, kdf_id, aead_id = suite
    return b"HPKE" + I2OSP(kem_id, 2) + I2OSP(kdf_id, 2) + I2OSP(aead_id, 2)


def labeled_extract(hashname, suite_id, salt, label, ikm):
    return hkdf_extract(hashname, salt, b"HPKE-v1" + suite_id + label + ikm)


def labeled_expand(hashname, suite_id, prk, label, info, L):
    if L > 0xFFFF:
        raise ValueError("L does not fit in two octets")
    labeled_info = I2OSP(L, 2) + b"HPKE-v1" + suite_id + label + info
    return hkdf_expand(hashname, prk, labeled_info, L)


def extract_and_expand(kem_id, dh, kem_context):
    k = KEMS[kem_id]
    sid = kem_suite_id(kem_id)
    eae_prk = labeled_extract(k.hash, sid, b"", b"eae_prk", dh)
    return labeled_expand(k.hash, sid, eae_prk, b"shared_secret",
                          kem_context, k.Nsecret)


# --------------------------------------------------------------------------
# DHKEM (RFC 9180 section 4.1, 7.1)
# --------------------------------------------------------------------------

def _is_nist(k):
    return k.curve.startswith('p')


def _sk_int(k, sk):
    """NIST private key as an integer in [1, n-1] (bytes or int accepted)."""
    n = ec.CURVES[k.curve].order
    if not isinstance(sk, int):
        sk = bytes(sk)
        if len(sk) != k.Nsk:
            raise DeserializeError("private key has wrong length")
        sk = int.from_bytes(sk, 'big')
    if not (1 <= sk < n):
        raise DeserializeError("private key out of range")
    return sk


def _sk_bytes(k, sk):
    """X25519/X448 private key as raw bytes (int = little-endian value)."""
    if isinstance(sk, int):
        sk = sk.to_bytes(k.Nsk, 'little')
    sk = bytes(sk)
    if len(sk) != k.Nsk:
        raise DeserializeError("private key has wrong length")
    return sk


def kem_serialize_private(kem_id, sk):
    k = KEMS[kem_id]
    if _is_nist(k):
        return I2OSP(_sk_int(k, sk), k.Nsk)
    return _sk_bytes(k, sk)


def kem_deserialize_public(kem_id, pk_bytes):
    """Strict: NIST -> affine point (uncompressed SEC1 only, validated);
    X25519/X448 -> the Npk raw bytes (only the length can be checked here;
    the all-zero DH check happens in the DH step, RFC 9180 7.1.4)."""
    k = KEMS[kem_id]
    pk_bytes = bytes(pk_bytes)
    if len(pk_bytes) != k.Npk:
        raise DeserializeError("public key has wrong length")
    if _is_nist(k):
        if pk_bytes[0] != 4:
            raise DeserializeError("public key is not in uncompressed form")
        try:
            return ec.sec1_decode(k.curve, pk_bytes)
        except ValueError as e:
            raise DeserializeError(str(e))
    return pk_bytes


def kem_serialize_public(kem_id, pk):
    k = KEMS[kem_id]
    if _is_nist(k):
        if pk is None:
            raise ValueError("cannot serialize the point at infinity")
        return ec.sec1_encode(k.curve, pk, compressed=False)
    pk = bytes(pk)
    if len(pk) != k.Npk:
        raise ValueError("public key has wrong length")
    return pk


def kem_derive_public(kem_id, sk):
    """pk(skX), serialized."""
    k = KEMS[kem_id]
    if _is_nist(k):
        c = ec.CURVES[k.curve]
        return ec.sec1_encode(c, ec.mul(c, _sk_int(k, sk), c.G))
    if k.curve == 'curve25519':
        return ec.x25519_base(_sk_bytes(k, sk))
    return ec.x448_base(_sk_bytes(k, sk))


def kem_dh(kem_id, sk, pk_bytes):
    """DH(skX, pkY) with pkY serialized; validates pkY and the output."""
    k = KEMS[kem_id]
    pk = kem_deserialize_public(kem_id, pk_bytes)
    if _is_nist(k):
        try:
            return ec.ecdh(k.curve, _sk_int(k, sk), pk)
        except DeserializeError:
            raise
        except ValueError as e:
            raise ValidationError(str(e))
    if k.curve == 'curve25519':
        out = ec.x25519(_sk_bytes(k, sk), pk)
    else:
        out = ec.x448(_sk_bytes(k, sk), pk)
    if out == bytes(len(out)):
        raise ValidationError("all-zero Diffie-Hellman output")
    return out


def derive_key_pair(kem_id, ikm):
    """RFC 9180 7.1.3 -> (sk, pk_bytes); sk is int (NIST) or bytes (X)."""
    k = KEMS[kem_id]
    sid = kem_suite_id(kem_id)
    dkp_prk = labeled_extract(k.hash, sid, b"", b"dkp_prk", bytes(ikm))
    if _is_nist(k):
        n = ec.CURVES[k.curve].order
        sk = 0
        counter = 0
        while sk == 0 or sk >= n:
            if counter > 255:
                raise ValueError("DeriveKeyPairError")
            b = bytearray(labeled_expand(k.hash, sid, dkp_prk, b"candidate",
                                         I2OSP(counter, 1), k.Nsk))
            b[0] &= k.bitmask
            sk = int.from_bytes(b, 'big')
            counter += 1
    else:
        sk = labeled_expand(k.hash, sid, dkp_prk, b"sk", b"", k.Nsk)
    return sk, kem_derive_public(kem_id, sk)


def encap(kem_id, pkR, skE):
    pkR = bytes(pkR)
    dh = kem_dh(kem_id, skE, pkR)
    enc = kem_derive_public(kem_id, skE)
    return extract_and_expand(kem_id, dh, enc + pkR), enc


def decap(kem_id, enc, skR):
    enc = bytes(enc)
    dh = kem_dh(kem_id, skR, enc)
    pkRm = kem_derive_public(kem_id, skR)
    return extract_and_expand(kem_id, dh, enc + pkRm)


def auth_encap(kem_id, pkR, skS, skE):
    pkR = bytes(pkR)
    dh = kem_dh(kem_id, skE, pkR) + kem_dh(kem_id, skS, pkR)
    enc = kem_derive_public(kem_id, skE)
    pkSm = kem_derive_public(kem_id, skS)
    return extract_and_expand(kem_id, dh, enc + pkR + pkSm), enc


def auth_decap(kem_id, enc, skR, pkS):
    enc = bytes(enc)
    pkS = bytes(pkS)
    dh = kem_dh(kem_id, skR, enc) + kem_dh(kem_id, skR, pkS)
    pkRm = kem_derive_public(kem_id, skR)
    return extract_and_expand(kem_id, dh, enc + pkRm + pkS)


# --------------------------------------------------------------------------
# key schedule and contexts (RFC 9180 section 5)
# --------------------------------------------------------------------------

def verify_psk_inputs(mode, psk, psk_id):
    got_psk = len(psk) != 0
    got_psk_id = len(psk_id) != 0
    if got_psk != got_psk_id:
        raise ValueError("Inconsistent PSK inputs")
    if got_psk and mode in (MODE_BASE, MODE_AUTH):
        raise ValueError("PSK input provided when not needed")
    if (not got_psk) and mode in (MODE_PSK, MODE_AUTH_PSK):
        raise ValueError("Missing required PSK input")


def key_schedule_full(mode, suite, shared_secret, info, psk=b"", psk_id=b""):
    """All intermediate values, as a dict (handy to compare with vectors)."""
    kem_id, kdf_id, aead_id = suite
    if mode not in (0, 1, 2, 3):
        raise ValueError("unknown mode")
    if kem_id not in KEMS or kdf_id not in KDFS or aead_id not in AEADS:
        raise ValueError("unknown suite")
    psk = bytes(psk)
    psk_id = bytes(psk_id)
    info = bytes(info)
    verify_psk_inputs(mode, psk, psk_id)
    H = KDFS[kdf_id]
    Nh = hashlib.new(H).digest_size
    _, Nk, Nn, _ = AEADS[aead_id]
    sid = hpke_suite_id(suite)
    psk_id_hash = labeled_extract(H, sid, b"", b"psk_id_hash", psk_id)
    info_hash = labeled_extract(H, sid, b"", b"info_hash", info)
    ctx = bytes([mode]) + psk_id_hash + info_hash
    secret = labeled_extract(H, sid, shared_secret, b"secret", psk)
    return {
        'key_schedule_context': ctx,
        'secret': secret,
        'key': labeled_expand(H, sid, secret, b"key", ctx, Nk),
        'base_nonce': labeled_expand(H, sid, secret, b"base_nonce", ctx, Nn),
        'exporter_secret': labeled_expand(H, sid, secret, b"exp", ctx, Nh),
    }


def key_schedule(mode, suite, shared_secret, info, psk=b"", psk_id=b""):
    r = key_schedule_full(mode, suite, shared_secret, info, psk, psk_id)
    return r['key'], r['base_nonce'], r['exporter_secret']


class _Context(object):
    def __init__(self, suite, key, base_nonce, exporter_secret):
        self.suite = tuple(suite)
        self.key = key
        self.base_nonce = base_nonce
        self.exporter_secret = exporter_secret
        self.seq = 0
        self.Nn = AEADS[suite[2]][2]
        self.max_seq = (1 << (8 * self.Nn)) - 1

    def compute_nonce(self, seq=None):
        if seq is None:
            seq = self.seq
        s = I2OSP(seq, self.Nn)
        return bytes(a ^ b for a, b in zip(self.base_nonce, s))

    def _check_seq(self):
        # RFC 9180 5.2 IncrementSeq: raises when seq >= 2^(8*Nn) - 1.  The
        # RFC computes the AEAD first and then fails to increment; nothing
        # is returned in that case, so checking first is equivalent.
        if self.suite[2] == 0xFFFF:
            raise ValueError("export-only context")
        if self.seq >= self.max_seq:
            raise MessageLimitReached("message limit reached")

    def export(self, exporter_context, L):
        H = KDFS[self.suite[1]]
        if L > 255 * hashlib.new(H).digest_size:
            raise ValueError("export length too large")
        return labeled_expand(H, hpke_suite_id(self.suite),
                              self.exporter_secret, b"sec",
                              bytes(exporter_context), L)


class ContextS(_Context):
    def seal(self, aad, pt):
        self._check_seq()
        seal, _ = _aead(self.suite[2])
        ct = seal(self.key, self.compute_nonce(), bytes(aad), bytes(pt))
        self.seq += 1
        return ct


class ContextR(_Context):
    def open(self, aad, ct):
        self._check_seq()
        _, open_ = _aead(self.suite[2])
        try:
            pt = open_(self.key, self.compute_nonce(), bytes(aad), bytes(ct))
        except ValueError as e:
            raise OpenError(str(e))
        self.seq += 1                 # only after a successful open
        return pt


def _mode_check(mode, has_auth_key):
    if mode not in (0, 1, 2, 3):
        raise ValueError("unknown mode")
    if (mode in (MODE_AUTH, MODE_AUTH_PSK)) != has_auth_key:
        raise ValueError("sender key / mode mismatch")


def setup_sender(mode, suite, pkR, skE, info=b"", psk=b"", psk_id=b"",
                 skS=None):
    """-> (enc, ContextS)"""
    _mode_check(mode, skS is not None)
    verify_psk_inputs(mode, bytes(psk), bytes(psk_id))
    kem_id = suite[0]
    if skS is None:
        ss, enc = encap(kem_id, pkR, skE)
    else:
        ss, enc = auth_encap(kem_id, pkR, skS, skE)
    return enc, ContextS(suite, *key_schedule(mode, suite, ss, info, psk, psk_id))


def setup_receiver(mode, suite, enc, skR, info=b"", psk=b"", psk_id=b"",
                   pkS=None):
    _mode_check(mode, pkS is not None)
    verify_psk_inputs(mode, bytes(psk), bytes(psk_id))
    kem_id = suite[0]
    if pkS is None:
        ss = decap(kem_id, enc, skR)
    else:
        ss = auth_decap(kem_id, enc, skR, pkS)
    return ContextR(suite, *key_schedule(mode, suite, ss, info, psk, psk_id))


# --------------------------------------------------------------------------
# selftest: RFC 9180 Appendix A
# --------------------------------------------------------------------------

def _h(s):
    return bytes.fromhex(s.replace(" ", "").replace("\n", ""))


def selftest():
    # RFC 5869 A.1 (HKDF-SHA256)
    prk = hkdf_extract('sha256', _h("000102030405060708090a0b0c"), b"\x0b" * 22)
    assert prk == _h("077709362c2e32df0ddc3f0dc47bba6390b6c73bb50f9c3122ec844a"
                     "d7c2b3e5")
    assert hkdf_expand('sha256', prk, _h("f0f1f2f3f4f5f6f7f8f9"), 42) == _h(
        "3cb25f25faacd57a90434f64d0362f2a2d2d0a90cf1a5a4c5db02d56ecc4c5bf"
        "34007208d5b887185865")

    # A.1.1  DHKEM(X25519, HKDF-SHA256), HKDF-SHA256, AES-128-GCM, base mode
    suite = (0x0020, 1, 1)
    info = _h("4f6465206f6e2061204772656369616e2055726e")
    ikmE = _h("7268600d403fce431561aef583ee1613527cff655c1343f29812e66706df3234")
    pkEm = _h("37fda3567bdbd628e88668c3c8d7e97d1d1253b6d4ea6d44c150f741f1bf4431")
    skEm = _h("52c4a758a802cd8b936eceea314432798d5baf2d7e9235dc084ab1b9cfa2f736")
    ikmR = _h("6db9df30aa07dd42ee5e8181afdb977e538f5e1fec8a06223f33f7013e525037")
    pkRm = _h("3948cfe0ad1ddb695d780e59077195da6c56506b027329794ab02bca80815c4d")
    skRm = _h("4612c550263fc8ad58375df3f557aac531d26850903e55a9f23f21d8534e8ac8")
    shared = _h("fe0e18c9f024ce43799ae393c7e8fe8fce9d218875e8227b0187c04e7d2ea1fc")
    assert derive_key_pair(0x20, ikmE) == (skEm, pkEm)
    assert derive_key_pair(0x20, ikmR) == (skRm, pkRm)
    ss, enc = encap(0x20, pkRm, skEm)
    assert enc == pkEm and ss == shared
    assert decap(0x20, enc, skRm) == shared
    ks = key_schedule_full(MODE_BASE, suite, shared, info)
    assert ks['key_schedule_context'] == _h(
        "00725611c9d98c07c03f60095cd32d400d8347d45ed67097bbad50fc56da742d"
        "07cb6cffde367bb0565ba28bb02c90744a20f5ef37f30523526106f637abb05449")
    assert ks['secret'] == _h(
        "12fff91991e93b48de37e7daddb52981084bd8aa64289c3788471d9a9712f397")
    assert ks['key'] == _h("4531685d41d65f03dc48f6b8302c05b0")
    assert ks['base_nonce'] == _h("56d890e5accaaf011cff4b7d")
    assert ks['exporter_secret'] == _h(
        "45ff1c2e220db587171952c0592d5f5ebe103f1561a2614e38f2ffd47e99e3f8")
    ctxR = setup_receiver(MODE_BASE, suite, enc, skRm, info)
    assert (ctxR.key, ctxR.base_nonce) == (ks['key'], ks['base_nonce'])
    assert ctxR.compute_nonce(1) == _h("56d890e5accaaf011cff4b7c")
    assert ctxR.compute_nonce(257) == _h("56d890e5accaaf011cff4a7c")
    assert ctxR.export(b"", 32) == _h(
        "3853fe2b4035195a573ffc53856e77058e15d9ea064de3e59f4961d0095250ee")
    assert ctxR.export(b"\x00", 32) == _h(
        "2e8f0b54673c7029649d4eb9d5e33bf1872cf76d623ff164ac185da9e88c21a5")
    assert ctxR.export(b"TestContext", 32) == _h(
        "e9e43065102c3836401bed8c3c3c75ae46be1639869391d62c61f1ec7af54931")

    # A.3.1  DHKEM(P-256, HKDF-SHA256), HKDF-SHA256, AES-128-GCM, base mode
    ikmE = _h("4270e54ffd08d79d5928020af4686d8f6b7d35dbe470265f1f5aa22816ce860e")
    pkEm = _h("04a92719c6195d5085104f469a8b9814d5838ff72b60501e2c4466e5e67b32"
              "5ac98536d7b61a1af4b78e5b7f951c0900be863c403ce65c9bfcb9382657222d18c4")
    skEm = _h("4995788ef4b9d6132b249ce59a77281493eb39af373d236a1fe415cb0c2d7beb")
    pkRm = _h("04fe8c19ce0905191ebc298a9245792531f26f0cece2460639e8bc39cb7f70"
              "6a826a779b4cf969b8a0e539c7f62fb3d30ad6aa8f80e30f1d128aafd68a2ce72ea0")
    skRm = _h("f3ce7fdae57e1a310d87f1ebbde6f328be0a99cdbcadf4d6589cf29de4b8ffd2")
    shared = _h("c0d26aeab536609a572b07695d933b589dcf363ff9d93c93adea537aeabb8cb8")
    sk, pk = derive_key_pair(0x10, ikmE)
    assert (I2OSP(sk, 32), pk) == (skEm, pkEm)
    ss, enc = encap(0x10, pkRm, skEm)
    assert enc == pkEm and ss == shared
    assert decap(0x10, enc, skRm) == shared
    assert kem_derive_public(0x10, skRm) == pkRm

    # VerifyPSKInputs
    for mode, psk, pid, ok in ((0, b"", b"", True), (0, b"k", b"i", False),
                               (1, b"", b"", False), (1, b"k", b"", False),
                               (1, b"k", b"i", True), (2, b"", b"", True),
                               (3, b"k", b"i", True), (3, b"", b"i", False)):
        try:
            verify_psk_inputs(mode, psk, pid)
            assert ok
        except ValueError:
            assert not ok

    # strict deserialization
    for kem_id, bad in ((0x10, pkRm[:-1]), (0x10, b"\x02" + pkRm[1:33]),
                        (0x10, pkRm[:-1] + bytes([pkRm[-1] ^ 1])),
                        (0x20, bytes(31)), (0x21, bytes(57))):
        try:
            kem_deserialize_public(kem_id, bad)
            raise AssertionError("accepted malformed public key")
        except DeserializeError:
            pass
    try:
        decap(0x20, bytes(32), skRm[:32])
        raise AssertionError("all-zero DH output accepted")
    except ValidationError:
        pass

    # sequence number handling with a toy AEAD (no real cipher needed)
    saved = dict(AEAD_IMPL)
    try:
        def toy_seal(key, nonce, aad, pt):
            return pt + hmac.new(key, nonce + aad + pt, 'sha256').digest()[:16]

        def toy_open(key, nonce, aad, ct):
            pt, tag = ct[:-16], ct[-16:]
            if toy_seal(key, nonce, aad, pt)[-16:] != tag:
                raise ValueError("MAC check failed")
            return pt
        AEAD_IMPL[1] = (toy_seal, toy_open)
        skE, _ = derive_key_pair(0x20, b"e" * 32)
        skR, pkR = derive_key_pair(0x20, b"r" * 32)
        enc, S = setup_sender(MODE_BASE, (0x20, 1, 1), pkR, skE, b"info")
        R = setup_receiver(MODE_BASE, (0x20, 1, 1), enc, skR, b"info")
        c0 = S.seal(b"a", b"m0")
        c1 = S.seal(b"a", b"m1")
        try:
            R.open(b"a", c1)
            raise AssertionError("out-of-order open succeeded")
        except OpenError:
            pass
        assert R.seq == 0                       # failed open: no increment
        assert R.open(b"a", c0) == b"m0" and R.open(b"a", c1) == b"m1"
        assert R.seq == 2 and S.seq == 2
        S.seq = S.max_seq - 1
        S.seal(b"", b"last")
        assert S.seq == S.max_seq
        try:
            S.seal(b"", b"overflow")
            raise AssertionError("message limit not enforced")
        except MessageLimitReached:
            pass
    finally:
        AEAD_IMPL.clear()
        AEAD_IMPL.update(saved)

    # AEAD-dependent part of A.1.1 (only if an AEAD implementation exists)
    try:
        _aead(1)
        have_aead = True
    except ImportError:
        have_aead = False
    if have_aead:
        ctxR = setup_receiver(MODE_BASE, suite, _h(
            "37fda3567bdbd628e88668c3c8d7e97d1d1253b6d4ea6d44c150f741f1bf4431"),
            _h("4612c550263fc8ad58375df3f557aac531d26850903e55a9f23f21d8534e8ac8"),
            info)
        ct = _h("f938558b5d72f1a23810b4be2ab4f84331acc02fc97babc53a52ae8218a355a9"
                "6d8770ac83d07bea87e13c512a")
        pt = ctxR.open(_h("436f756e742d30"), ct)
        assert pt == _h("4265617574792069732074727574682c20747275746820626561757479")
    return True


if __name__ == "__main__":
    selftest()
    print("OK")
