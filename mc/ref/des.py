"""Reference DES and Triple-DES (FIPS 46-3 / SP 800-67), pure Python, stdlib only.

The permutation / selection tables below are the ones printed in FIPS 46-3
(bit 1 = most significant bit of the input).  Everything else (byte-indexed
permutation lookup tables, combined S-box+P tables) is derived from them at
import time.

Parity bits (least significant bit of every key byte) are ignored, exactly as
PC-1 never selects bits 8, 16, ..., 64.

TDES is EDE: C = E_K3(D_K2(E_K1(P))).  A 16-byte key means K3 = K1.
No weak / degenerate key rejection is done here (K1 == K2 is accepted and
degenerates to single DES, as the mathematics says it should).
"""

__all__ = ["DES", "TDES", "selftest"]

# --------------------------------------------------------------------------
# Tables from FIPS 46-3
# --------------------------------------------------------------------------

_IP = (
    58, 50, 42, 34, 26, 18, 10, 2,
    60, 52, 44, 36, 28, 20, 12, 4,
    62, 54, 46, 38, 30, 22, 14, 6,
    64, 56, 48, 40, 32, 24, 16, 8,
    57, 49, 41, 33, 25, 17, 9, 1,
    59, 51, 43, 35, 27, 19, 11, 3,
    61, 53, 45, 37, 29, 21, 13, 5,
    63, 55, 47, 39, 31, 23, 15, 7,
)

_FP = (
    40, 8, 48, 16, 56, 24, 64, 32,
    39, 7, 47, 15, 55, 23, 63, 31,
    38, 6, 46, 14, 54, 22, 62, 30,
    37, 5, 45, 13, 53, 21, 61, 29,
    36, 4, 44, 12, 52, 20, 60, 28,
    35, 3, 43, 11, 51, 19, 59, 27,
    34, 2, 42, 10, 50, 18, 58, 26,
    33, 1, 41, 9, 49, 17, 57, 25,
)

_E = (
    32, 1, 2, 3, 4, 5,
    4, 5, 6, 7, 8, 9,
    8, 9, 10, 11, 12, 13,
    12, 13, 14, 15, 16, 17,
    16, 17, 18, 19, 20, 21,
    20, 21, 22, 23, 24, 25,
    24, 25, 26, 27, 28, 29,
    28, 29, 30, 31, 32, 1,
)

_P = (
    16, 7, 20, 21,
    29, 12, 28, 17,
    1, 15, 23, 26,
    5, 18, 31, 10,
    2, 8, 24, 14,
    32, 27, 3, 9,
    19, 13, 30, 6,
    22, 11, 4, 25,
)

_PC1 = (
    57, 49, 41, 33, 25, 17, 9,
    1, 58, 50, 42, 34, 26, 18,
    10, 2, 59, 51, 43, 35, 27,
    19, 11, 3, 60, 52, 44, 36,
    63, 55, 47, 39, 31, 23, 15,
    7, 62, 54, 46, 38, 30, 22,
    14, 6, 61, 53, 45, 37, 29,
    21, 13, 5, 28, 20, 12, 4,
)

_PC2 = (
    14, 17, 11, 24, 1, 5,
    3, 28, 15, 6, 21, 10,
    23, 19, 12, 4, 26, 8,
    16, 7, 27, 20, 13, 2,
    41, 52, 31, 37, 47, 55,
    30, 40, 51, 45, 33, 48,
    44, 49, 39, 56, 34, 53,
    46, 42, 50, 36, 29, 32,
)

_SHIFTS = (1, 1, 2, 2, 2, 2, 2, 2, 1, 2, 2, 2, 2, 2, 2, 1)

_SBOX = (
    (  # S1
        (14, 4, 13, 1, 2, 15, 11, 8, 3, 10, 6, 12, 5, 9, 0, 7),
        (0, 15, 7, 4, 14, 2, 13, 1, 10, 6, 12, 11, 9, 5, 3, 8),
        (4, 1, 14, 8, 13, 6, 2, 11, 15, 12, 9, 7, 3, 10, 5, 0),
        (15, 12, 8, 2, 4, 9, 1, 7, 5, 11, 3, 14, 10, 0, 6, 13),
    ),
    (  # S2
        (15, 1, 8, 14, 6, 11, 3, 4, 9, 7, 2, 13, 12, 0, 5, 10),
        (3, 13, 4, 7, 15, 2, 8, 14, 12, 0, 1, 10, 6, 9, 11, 5),
        (0, 14, 7, 11, 10, 4, 13, 1, 5, 8, 12, 6, 9, 3, 2, 15),
        (13, 8, 10, 1, 3, 15, 4, 2, 11, 6, 7, 12, 0, 5, 14, 9),
    ),
    (  # S3
        (10, 0, 9, 14, 6, 3, 15, 5, 1, 13, 12, 7, 11, 4, 2, 8),
        (13, 7, 0, 9, 3, 4, 6, 10, 2, 8, 5, 14, 12, 11, 15, 1),
        (13, 6, 4, 9, 8, 15, 3, 0, 11, 1, 2, 12, 5, 10, 14, 7),
        (1, 10, 13, 0, 6, 9, 8, 7, 4, 15, 14, 3, 11, 5, 2, 12),
    ),
    (  # S4
        (7, 13, 14, 3, 0, 6, 9, 10, 1, 2, 8, 5, 11, 12, 4, 15),
        (13, 8, 11, 5, 6, 15, 0, 3, 4, 7, 2, 12, 1, 10, 14, 9),
        (10, 6, 9, 0, 12, 11, 7, 13, 15, 1, 3, 14, 5, 2, 8, 4),
        (3, 15, 0, 6, 10, 1, 13, 8, 9, 4, 5, 11, 12, 7, 2, 14),
    ),
    (  # S5
        (2, 12, 4, 1, 7, 10, 11, 6, 8, 5, 3, 15, 13, 0, 14, 9),
        (14, 11, 2, 12, 4, 7, 13, 1, 5, 0, 15, 10, 3, 9, 8, 6),
        (4, 2, 1, 11, 10, 13, 7, 8, 15, 9, 12, 5, 6, 3, 0, 14),
        (11, 8, 12, 7, 1, 14, 2, 13, 6, 15, 0, 9, 10, 4, 5, 3),
    ),
    (  # S6
        (12, 1, 10, 15, 9, 2, 6, 8, 0, 13, 3, 4, 14, 7, 5, 11),
        (10, 15, 4, 2, 7, 12, 9, 5, 6, 1, 13, 14, 0, 11, 3, 8),
        (9, 14, 15, 5, 2, 8, 12, 3, 7, 0, 4, 10, 1, 13, 11, 6),
        (4, 3, 2, 12, 9, 5, 15, 10, 11, 14, 1, 7, 6, 0, 8, 13),
    ),
    (  # S7
        (4, 11, 2, 14, 15, 0, 8, 13, 3, 12, 9, 7, 5, 10, 6, 1),
        (13, 0, 11, 7, 4, 9, 1, 10, 14, 3, 5, 12, 2, 15, 8, 6),
        (1, 4, 11, 13, 12, 3, 7, 14, 10, 15, 6, 8, 0, 5, 9, 2),
        (6, 11, 13, 8, 1, 4, 10, 7, 9, 5, 0, 15, 14, 2, 3, 12),
    ),
    (  # S8
        (13, 2, 8, 4, 6, 15, 11, 1, 10, 9, 3, 14, 5, 0, 12, 7),
        (1, 15, 13, 8, 10, 3, 7, 4, 12, 5, 6, 11, 0, 14, 9, 2),
        (7, 11, 4, 1, 9, 12, 14, 2, 0, 6, 10, 13, 15, 3, 5, 8),
        (2, 1, 14, 7, 4, 10, 8, 13, 15, 12, 9, 0, 3, 5, 6, 11),
    ),
)


# --------------------------------------------------------------------------
# Generic bit permutation (slow, spec-literal) and derived fast tables
# --------------------------------------------------------------------------

def _permute(value, table, in_bits):
    """Output bit i (1-based from the MSB) = input bit table[i-1]."""
    out = 0
    for pos in table:
        out = (out << 1) | ((value >> (in_bits - pos)) & 1)
    return out


def _byte_tables(table, in_bits):
    """Split the input in 8-bit chunks (MSB first); tabs[j][chunk] gives the
    contribution of chunk j to the permuted output.  in_bits % 8 == 0."""
    n = in_bits // 8
    tabs = []
    for j in range(n):
        shift = in_bits - 8 * (j + 1)
        tabs.append(tuple(_permute(x << shift, table, in_bits) for x in range(256)))
    return tuple(tabs)


_IPT = _byte_tables(_IP, 64)
_FPT = _byte_tables(_FP, 64)
_PC1T = _byte_tables(_PC1, 64)
_PC2T = _byte_tables(_PC2, 56)


def _build_sp():
    sp = []
    for i in range(8):
        t = []
        for x in range(64):
            row = ((x >> 5) << 1) | (x & 1)          # first and last bit
            col = (x >> 1) & 15                      # middle four bits
            val = _SBOX[i][row][col]
            t.append(_permute(val << (28 - 4 * i), _P, 32))
        sp.append(tuple(t))
    return tuple(sp)


_SP0, _SP1, _SP2, _SP3, _SP4, _SP5, _SP6, _SP7 = _build_sp()


def _ip(v):
    t = _IPT
    return (t[0][v >> 56] | t[1][(v >> 48) & 255] | t[2][(v >> 40) & 255] |
            t[3][(v >> 32) & 255] | t[4][(v >> 24) & 255] | t[5][(v >> 16) & 255] |
            t[6][(v >> 8) & 255] | t[7][v & 255])


def _fp(v):
    t = _FPT
    return (t[0][v >> 56] | t[1][(v >> 48) & 255] | t[2][(v >> 40) & 255] |
            t[3][(v >> 32) & 255] | t[4][(v >> 24) & 255] | t[5][(v >> 16) & 255] |
            t[6][(v >> 8) & 255] | t[7][v & 255])


def _key_schedule(key8):
    """Return 16 subkeys, each a tuple of eight 6-bit integers (K_n split in
    the eight groups that feed S1..S8)."""
    k = int.from_bytes(key8, "big")
    t = _PC1T
    cd = (t[0][k >> 56] | t[1][(k >> 48) & 255] | t[2][(k >> 40) & 255] |
          t[3][(k >> 32) & 255] | t[4][(k >> 24) & 255] | t[5][(k >> 16) & 255] |
          t[6][(k >> 8) & 255] | t[7][k & 255])
    c = cd >> 28
    d = cd & 0xFFFFFFF
    t = _PC2T
    ks = []
    for s in _SHIFTS:
        c = ((c << s) | (c >> (28 - s))) & 0xFFFFFFF
        d = ((d << s) | (d >> (28 - s))) & 0xFFFFFFF
        v = (c << 28) | d
        kn = (t[0][v >> 48] | t[1][(v >> 40) & 255] | t[2][(v >> 32) & 255] |
              t[3][(v >> 24) & 255] | t[4][(v >> 16) & 255] | t[5][(v >> 8) & 255] |
              t[6][v & 255])
        ks.append((kn >> 42, (kn >> 36) & 63, (kn >> 30) & 63, (kn >> 24) & 63,
                   (kn >> 18) & 63, (kn >> 12) & 63, (kn >> 6) & 63, kn & 63))
    return tuple(ks)


def _rounds(v, ks):
    """16 Feistel rounds.  v = IP(block) as a 64-bit int (L0 || R0).
    Returns the pre-output block R16 || L16 (the input of IP^-1)."""
    l = v >> 32
    r = v & 0xFFFFFFFF
    sp0 = _SP0; sp1 = _SP1; sp2 = _SP2; sp3 = _SP3
    sp4 = _SP4; sp5 = _SP5; sp6 = _SP6; sp7 = _SP7
    for k0, k1, k2, k3, k4, k5, k6, k7 in ks:
        # 34-bit window: bit32, bits 1..32, bit1 -> E(R) is its eight 6-bit
        # windows taken with a stride of 4 bits.
        e = ((r & 1) << 33) | (r << 1) | (r >> 31)
        f = (sp0[(e >> 28) ^ k0] | sp1[((e >> 24) & 63) ^ k1] |
             sp2[((e >> 20) & 63) ^ k2] | sp3[((e >> 16) & 63) ^ k3] |
             sp4[((e >> 12) & 63) ^ k4] | sp5[((e >> 8) & 63) ^ k5] |
             sp6[((e >> 4) & 63) ^ k6] | sp7[(e & 63) ^ k7])
        l, r = r, l ^ f
    return (r << 32) | l


class DES:
    block_size = 8

    def __init__(self, key):
        key = bytes(key)
        if len(key) != 8:
            raise ValueError("DES key must be 8 bytes long")
        self._ek = _key_schedule(key)
        self._dk = self._ek[::-1]

    def encrypt_block(self, b):
        if len(b) != 8:
            raise ValueError("DES block must be 8 bytes")
        return _fp(_rounds(_ip(int.from_bytes(b, "big")), self._ek)).to_bytes(8, "big")

    def decrypt_block(self, b):
        if len(b) != 8:
            raise ValueError("DES block must be 8 bytes")
        return _fp(_rounds(_ip(int.from_bytes(b, "big")), self._dk)).to_bytes(8, "big")


class TDES:
    """Triple DES, EDE.  16-byte key: K1,K2,K1.  24-byte key: K1,K2,K3."""
    block_size = 8

    def __init__(self, key):
        key = bytes(key)
        if len(key) == 16:
            k1, k2, k3 = key[:8], key[8:16], key[:8]
        elif len(key) == 24:
            k1, k2, k3 = key[:8], key[8:16], key[16:24]
        else:
            raise ValueError("TDES key must be 16 or 24 bytes long")
        e1 = _key_schedule(k1)
        e2 = _key_schedule(k2)
        e3 = _key_schedule(k3)
        # IP^-1 followed by IP between the stages cancels out, so the three
        # stages are chained on the permuted representation.
        self._enc = (e1, e2[::-1], e3)
        self._dec = (e3[::-1], e2, e1[::-1])

    def encrypt_block(self, b):
        if len(b) != 8:
            raise ValueError("TDES block must be 8 bytes")
        a, c, d = self._enc
        v = _ip(int.from_bytes(b, "big"))
        return _fp(_rounds(_rounds(_rounds(v, a), c), d)).to_bytes(8, "big")

    def decrypt_block(self, b):
        if len(b) != 8:
            raise ValueError("TDES block must be 8 bytes")
        a, c, d = self._dec
        v = _ip(int.from_bytes(b, "big"))
        return _fp(_rounds(_rounds(_rounds(v, a), c), d)).to_bytes(8, "big")


# --------------------------------------------------------------------------
# Slow, spec-literal DES used only by selftest() to validate the fast path
# --------------------------------------------------------------------------

def _slow_des(key8, block, decrypt=False):
    k = int.from_bytes(key8, "big")
    cd = _permute(k, _PC1, 64)
    c, d = cd >> 28, cd & 0xFFFFFFF
    subkeys = []
    for s in _SHIFTS:
        c = ((c << s) | (c >> (28 - s))) & 0xFFFFFFF
        d = ((d << s) | (d >> (28 - s))) & 0xFFFFFFF
        subkeys.append(_permute((c << 28) | d, _PC2, 56))
    if decrypt:
        subkeys.reverse()
    v = _permute(int.from_bytes(block, "big"), _IP, 64)
    l, r = v >> 32, v & 0xFFFFFFFF
    for kn in subkeys:
        x = _permute(r, _E, 32) ^ kn
        out = 0
        for i in range(8):
            six = (x >> (42 - 6 * i)) & 63
            row = ((six >> 5) << 1) | (six & 1)
            col = (six >> 1) & 15
            out = (out << 4) | _SBOX[i][row][col]
        l, r = r, l ^ _permute(out, _P, 32)
    return _permute((r << 32) | l, _FP, 64).to_bytes(8, "big")


def selftest():
    h = bytes.fromhex
    # structural checks on the pasted tables
    assert sorted(_IP) == list(range(1, 65)) and sorted(_FP) == list(range(1, 65))
    for i, p in enumerate(_IP):            # FP is the inverse of IP
        assert _FP[p - 1] == i + 1
    assert sorted(_P) == list(range(1, 33))
    assert sorted(set(_E)) == list(range(1, 33)) and len(_E) == 48
    assert len(set(_PC1)) == 56 and all(p % 8 for p in _PC1)
    assert len(set(_PC2)) == 48 and max(_PC2) <= 56
    assert sum(_SHIFTS) == 28
    for box in _SBOX:
        for row in box:
            assert sorted(row) == list(range(16))

    # Published known answers
    vectors = [
        # classic worked example (Grabbe, "The DES Algorithm Illustrated")
        ("133457799BBCDFF1", "0123456789ABCDEF", "85E813540F0AB405"),
        # FIPS 81 ECB example: "Now is t"
        ("0123456789ABCDEF", "4E6F772069732074", "3FA40E8A984D4815"),
        # NBS SP 500-20 variable plaintext / variable key known answer tests
        ("0101010101010101", "8000000000000000", "95F8A5E5DD31D900"),
        ("0101010101010101", "4000000000000000", "DD7F121CA5015619"),
        ("8001010101010101", "0000000000000000", "95A8D72813DAA94D"),
        # Rivest's DES test start value check: all-zero key ignores parity
        ("0000000000000000", "0000000000000000", "8CA64DE9C1B123A7"),
    ]
    for k, p, c in vectors:
        d = DES(h(k))
        assert d.encrypt_block(h(p)) == h(c), (k, p, d.encrypt_block(h(p)).hex())
        assert d.decrypt_block(h(c)) == h(p), (k, p)
        assert _slow_des(h(k), h(p)) == h(c)
    # parity bits are ignored
    assert DES(h("0101010101010101")).encrypt_block(bytes(8)) == \
        DES(bytes(8)).encrypt_block(bytes(8))

    # SP 800-67 Appendix B example, 3-key TDES, "The qufck brown fox jump"
    k3 = h("0123456789ABCDEF23456789ABCDEF01456789ABCDEF0123")
    t = TDES(k3)
    assert t.encrypt_block(h("5468652071756663")) == h("A826FD8CE53B855F")
    assert t.encrypt_block(h("6B2062726F776E20")) == h("CCE21C8112256FE6")
    assert t.encrypt_block(h("666F78206A756D70")) == h("68D5C05DD9B6B900")
    assert t.decrypt_block(h("A826FD8CE53B855F")) == h("5468652071756663")

    # fast path vs spec-literal path, TDES vs composition of DES
    import hashlib
    for i in range(40):
        dg = hashlib.sha512(b"des-selftest-%d" % i).digest()
        key, blk = dg[:8], dg[8:16]
        d = DES(key)
        c = d.encrypt_block(blk)
        assert c == _slow_des(key, blk)
        assert d.decrypt_block(blk) == _slow_des(key, blk, decrypt=True)
        assert d.decrypt_block(c) == blk
        k1, k2, k3_ = dg[16:24], dg[24:32], dg[32:40]
        t3 = TDES(k1 + k2 + k3_)
        want = DES(k3_).encrypt_block(DES(k2).decrypt_block(DES(k1).encrypt_block(blk)))
        assert t3.encrypt_block(blk) == want
        assert t3.decrypt_block(want) == blk
        t2 = TDES(k1 + k2)
        want = DES(k1).encrypt_block(DES(k2).decrypt_block(DES(k1).encrypt_block(blk)))
        assert t2.encrypt_block(blk) == want
        assert t2.decrypt_block(want) == blk
        assert TDES(k1 + k2 + k1).encrypt_block(blk) == want
        # K1 == K2 == K3 degenerates to single DES
        assert TDES(key * 3).encrypt_block(blk) == c
    for bad in (0, 7, 9, 16):
        try:
            DES(bytes(bad))
        except ValueError:
            pass
        else:
            raise AssertionError("bad DES key length accepted")
    for bad in (0, 8, 15, 17, 23, 25):
        try:
            TDES(bytes(bad))
        except ValueError:
            pass
        else:
            raise AssertionError("bad TDES key length accepted")


if __name__ == "__main__":
    selftest()
    print("OK")
